// C15: corrupted block references. A valid file is written with a wire trace (offsets of every block-reference field),
// 1..3 reference fields are overwritten, and the damaged file goes through load + query battery, copy, raw save + reload,
// default save + reload — each stage in a child of its own under ASan/UBSan with a watchdog.
#include "gen.hpp"
#include "harness.hpp"
#include "shapeobs.hpp"
#include <sstream>
#include <unistd.h>

using namespace nifly;
using namespace vh;

namespace vh {
std::vector<std::pair<std::string, std::string>> battery(NifFile& nif, bool walkParents);
std::string probeSynth(const std::string& src);
} // namespace vh

namespace {
struct RefField {
	uint64_t offset;
	uint32_t block;	 // containing block, NIF_NPOS when unknown
	uint32_t value;
};

bool buildBytes(const std::string& src, std::string& bytes, std::vector<RefField>& refs, uint32_t& numBlocks, uint32_t& rootId, std::vector<std::string>& types) {
	NifFile nif;
	auto f = split(src, ':');
	if (f[0] == "load") {
		if (nif.Load(f[1]) != 0)
			return false;
	}
	else if (f[0] == "synth") {
		size_t nf = f.size();
		std::string ty = f[1];
		for (size_t k = 2; k + 4 < nf; ++k)
			ty += ":" + f[k];
		NifFile tmp;
		if (!synthModel(tmp, ty, f[nf - 4], std::stoull(f[nf - 3]), std::stoi(f[nf - 2]), static_cast<uint32_t>(std::stoul(f[nf - 1]))))
			return false;
		std::stringstream ss(std::ios::in | std::ios::out | std::ios::binary);
		NifSaveOptions so;
		so.optimize = so.sortBlocks = false;
		if (tmp.Save(ss, so) != 0)
			return false;
		ss.seekg(0);
		if (nif.Load(ss) != 0)
			return false;
	}
	else
		return false;
	Tracer tr;
	tr.mode = Tracer::Mode::Trace;
	tr.inlineStrings = nif.GetHeader().GetVersion().File() < V20_1_0_3;
	std::stringstream out(std::ios::in | std::ios::out | std::ios::binary);
	{
		Install inst(&tr);
		NifSaveOptions so;
		so.optimize = so.sortBlocks = false;
		if (nif.Save(out, so) != 0)
			return false;
	}
	bytes = out.str();
	numBlocks = nif.GetHeader().GetNumBlocks();
	rootId = nif.GetBlockID(nif.GetRootNode());
	for (uint32_t i = 0; i < numBlocks; ++i) {
		auto b = nif.GetHeader().GetBlock<NiObject>(i);
		types.push_back(b ? b->GetBlockName() : "null");
	}
	// block boundaries: re-read the written file; with a size table the blocks end 8 bytes before the end of the file
	std::vector<uint64_t> starts;
	{
		std::stringstream in(bytes, std::ios::in | std::ios::binary);
		NifFile x;
		if (x.Load(in) == 0) {
			auto& sizes = x.GetHeader().VerifBlockSizes();
			if (sizes.size() == numBlocks && numBlocks > 0) {
				uint64_t total = 0;
				for (auto s : sizes)
					total += s;
				if (total + 8 <= bytes.size()) {
					uint64_t pos = bytes.size() - 8 - total;
					for (auto s : sizes) {
						starts.push_back(pos);
						pos += s;
					}
				}
			}
		}
	}
	for (auto& e : tr.events) {
		if (e.tag != 'R' || e.size != 4 || e.offset + 4 > bytes.size())
			continue;
		RefField r{e.offset, NIF_NPOS, 0};
		memcpy(&r.value, bytes.data() + e.offset, 4);
		for (size_t b = 0; b < starts.size(); ++b)
			if (e.offset >= starts[b] && (b + 1 == starts.size() || e.offset < starts[b + 1]))
				r.block = static_cast<uint32_t>(b);
		if (!starts.empty() && e.offset < starts[0])
			continue; // header
		refs.push_back(r);
	}
	return true;
}

std::string stage(const std::string& bytes, int which) {
	return forked([&]() -> std::string {
		std::stringstream in(bytes, std::ios::in | std::ios::binary);
		NifFile nif;
		int rc = nif.Load(in);
		if (rc != 0)
			return std::string("load-rc") + std::to_string(rc);
		if (which == 0) {
			auto q = battery(nif, true);
			return "ok:" + std::to_string(q.size());
		}
		if (which == 1) {
			NifFile copy(nif);
			auto q = battery(copy, true);
			NifFile assigned;
			assigned = copy;
			return "ok:" + std::to_string(q.size());
		}
		NifSaveOptions so;
		so.optimize = so.sortBlocks = which == 3;
		std::stringstream out(std::ios::in | std::ios::out | std::ios::binary);
		if (nif.Save(out, so) != 0)
			return std::string("save-failed");
		std::string saved = out.str();
		std::stringstream in2(saved, std::ios::in | std::ios::binary);
		NifFile re;
		int rc2 = re.Load(in2);
		if (rc2 != 0)
			return "saved-file-does-not-load rc=" + std::to_string(rc2);
		return "ok:" + std::to_string(saved.size());
	}, 5);
}

// c15.run <source> <seed> <ncorr>            random corruption(s)
// c15.run <source> at <idx>:<kind>[,<idx>:<kind>…]   explicit (replay); kinds: empty count beyond self ancestor inrange huge
// c15.count <source>                         number of reference fields
std::string run(const Args& a) {
	alarm(200); // four watchdogged stages can outlast the per-line watchdog of the harness
	if (probeSynth(a[1]) != "ok")
		return "unloadable-synth";
	std::string bytes;
	std::vector<RefField> refs;
	uint32_t nb = 0, rootId = NIF_NPOS;
	std::vector<std::string> types;
	std::string built = forked([&]() -> std::string {
		// building happens in the parent too (below); this child only shields the harness from a crash of the valid path
		std::string b;
		std::vector<RefField> r;
		uint32_t n, ro;
		std::vector<std::string> t;
		return buildBytes(a[1], b, r, n, ro, t) ? "ok" : "build-failed";
	}, 60);
	if (built != "ok")
		return "unusable-source " + built;
	if (!buildBytes(a[1], bytes, refs, nb, rootId, types))
		return "unusable-source";
	if (refs.empty())
		return "no-reference-fields";
	if (a[1].rfind("synth:", 0) == 0) {
		// the property is about an *otherwise valid* file: a generated instance whose uncorrupted form already fails a stage
		// (arbitrary counts can be inconsistent with each other) is not a subject
		for (int s = 0; s < 4; ++s) {
			std::string r = stage(bytes, s);
			if (r.rfind("ok:", 0) != 0)
				return "unusable-source baseline stage " + std::to_string(s) + ": " + r;
		}
	}
	static const char* KINDS[] = {"empty", "count", "beyond", "self", "ancestor", "inrange", "huge"};
	std::vector<std::pair<size_t, std::string>> plan;
	if (a[2] == "at") {
		for (auto& p : split(a[3], ',')) {
			auto q = split(p, ':');
			plan.emplace_back(static_cast<size_t>(std::stoul(q[0])), q[1]);
		}
	}
	else {
		Rng rng(std::stoull(a[2]));
		int n = std::stoi(a[3]);
		for (int k = 0; k < n; ++k)
			plan.emplace_back(rng.below(static_cast<uint32_t>(refs.size())), KINDS[rng.below(7)]);
	}
	std::string desc;
	Rng vr(plan.size() * 7919 + plan[0].first);
	for (auto& [idx, kind] : plan) {
		if (idx >= refs.size())
			return "bad-index";
		RefField& r = refs[idx];
		uint32_t v = NIF_NPOS;
		if (kind == "empty")
			v = NIF_NPOS;
		else if (kind == "count")
			v = nb;
		else if (kind == "beyond")
			v = nb + 1 + vr.below(1000);
		else if (kind == "huge")
			v = 0x7FFFFFFFu - vr.below(5);
		else if (kind == "self")
			v = r.block != NIF_NPOS ? r.block : 0;
		else if (kind == "ancestor")
			v = (r.block != NIF_NPOS && r.block != rootId && rootId != NIF_NPOS) ? rootId : (r.block != NIF_NPOS ? r.block : 0);
		else if (kind == "inrange")
			v = nb ? vr.below(nb) : 0;
		memcpy(&bytes[r.offset], &v, 4);
		desc += (desc.empty() ? "" : ",") + std::to_string(idx) + ":" + kind + "(block" + std::to_string(static_cast<long long>(r.block == NIF_NPOS ? -1 : static_cast<long long>(r.block))) + "/"
				+ (r.block != NIF_NPOS && r.block < types.size() ? types[r.block] : "?") + "@" + std::to_string(r.offset) + ":" + std::to_string(static_cast<long long>(r.value == NIF_NPOS ? -1 : static_cast<long long>(r.value))) + "->"
				+ std::to_string(static_cast<long long>(v == NIF_NPOS ? -1 : static_cast<long long>(v)));
		if (v != NIF_NPOS && v < types.size())
			desc += "=" + types[v];
		desc += ")";
	}
	std::string out = "refs=" + std::to_string(refs.size()) + " nb=" + std::to_string(nb) + " plan=" + desc;
	static const char* STAGES[] = {"query", "copy", "saveraw", "savedefault"};
	for (int s = 0; s < 4; ++s) {
		std::string r = stage(bytes, s);
		out += std::string(" ") + STAGES[s] + "=" + (r.rfind("ok:", 0) == 0 ? "ok" : r);
		if (r.rfind("load-rc", 0) == 0)
			break;
	}
	return out;
}
std::string count(const Args& a) {
	return forked([&]() -> std::string {
		std::string bytes;
		std::vector<RefField> refs;
		uint32_t nb = 0, rootId = 0;
		std::vector<std::string> types;
		if (!buildBytes(a[1], bytes, refs, nb, rootId, types))
			return std::string("unusable-source");
		return std::to_string(refs.size()) + " " + std::to_string(nb);
	}, 60);
}
// c15.tree <source> [<seed> <ncorr>] : the block graph as GetChildIndices reports it (after optional reference corruption) and
// the order in which NifFile::GetTree visits it; answers "root=<id> adj=<i,j,..;…> tree=<ids>"
std::string tree(const Args& a) {
	if (probeSynth(a[1]) != "ok")
		return "unloadable-synth";
	return forked([&]() -> std::string {
		std::string bytes;
		std::vector<RefField> refs;
		uint32_t nb = 0, rootId = NIF_NPOS;
		std::vector<std::string> types;
		if (!buildBytes(a[1], bytes, refs, nb, rootId, types))
			return std::string("unusable-source");
		if (a.size() > 3 && !refs.empty()) {
			Rng rng(std::stoull(a[2]));
			for (int k = 0; k < std::stoi(a[3]); ++k) {
				RefField& r = refs[rng.below(static_cast<uint32_t>(refs.size()))];
				uint32_t v = rng.below(3) == 0 ? (r.block != NIF_NPOS ? r.block : 0) : rng.below(nb + 2);
				memcpy(&bytes[r.offset], &v, 4);
			}
		}
		std::stringstream in(bytes, std::ios::in | std::ios::binary);
		NifFile nif;
		if (nif.Load(in) != 0)
			return std::string("load-failed");
		NiHeader& hdr = nif.GetHeader();
		std::string adj;
		for (uint32_t i = 0; i < hdr.GetNumBlocks(); ++i) {
			std::vector<uint32_t> idx;
			if (auto b = hdr.GetBlock<NiObject>(i))
				b->GetChildIndices(idx);
			std::string row;
			for (auto x : idx)
				row += (row.empty() ? "" : ",") + std::to_string(x == NIF_NPOS ? -1 : static_cast<long long>(x));
			adj += (i ? ";" : "") + (row.empty() ? std::string("-") : row);
		}
		std::vector<NiObject*> t;
		nif.GetTree(t);
		std::string order;
		for (auto o : t)
			order += (order.empty() ? "" : ",") + std::to_string(nif.GetBlockID(o));
		uint32_t root = nif.GetBlockID(nif.GetRootNode());
		return "root=" + std::to_string(root == NIF_NPOS ? -1 : static_cast<long long>(root)) + " n=" + std::to_string(hdr.GetNumBlocks()) + " adj=" + adj + " tree=" + (order.empty() ? "-" : order);
	}, 60);
}
Reg r1("c15.run", run), r2("c15.count", count), r3("c15.tree", tree);
} // namespace
