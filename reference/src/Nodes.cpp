/*
nifly
C++ NIF library for the Gamebryo/NetImmerse File Format
See the included GPLv3 LICENSE file
*/

#include "Nodes.hpp"

using namespace nifly;

void NiNode::Sync(NiStreamReversible& stream) {
	childRefs.Sync(stream);

	if (stream.GetVersion().User() <= 12 && stream.GetVersion().Stream() < 130)
		effectRefs.Sync(stream);
}

void NiNode::GetChildRefs(std::set<NiRef*>& refs) {
	NiAVObject::GetChildRefs(refs);

	childRefs.GetIndexPtrs(refs);
	effectRefs.GetIndexPtrs(refs);
}

void NiNode::GetChildIndices(std::vector<uint32_t>& indices) {
	NiAVObject::GetChildIndices(indices);

	childRefs.GetIndices(indices);
	effectRefs.GetIndices(indices);
}


void BSValueNode::Sync(NiStreamReversible& stream) {
	stream.Sync(value);
	stream.Sync(valueFlags);
}


void BSTreeNode::Sync(NiStreamReversible& stream) {
	bones1.Sync(stream);
	bones2.Sync(stream);
}

void BSTreeNode::GetChildRefs(std::set<NiRef*>& refs) {
	NiNode::GetChildRefs(refs);

	bones1.GetIndexPtrs(refs);
	bones2.GetIndexPtrs(refs);
}

void BSTreeNode::GetChildIndices(std::vector<uint32_t>& indices) {
	NiNode::GetChildIndices(indices);

	bones1.GetIndices(indices);
	bones2.GetIndices(indices);
}


void BSOrderedNode::Sync(NiStreamReversible& stream) {
	stream.Sync(alphaSortBound);
	stream.Sync(isStaticBound);
}


void BSMultiBoundOBB::Sync(NiStreamReversible& stream) {
	stream.Sync(center);
	stream.Sync(size);
	stream.Sync(rotation);
}


void BSMultiBoundAABB::Sync(NiStreamReversible& stream) {
	stream.Sync(center);
	stream.Sync(halfExtent);
}


void BSMultiBoundSphere::Sync(NiStreamReversible& stream) {
	stream.Sync(center);
	stream.Sync(radius);
}


void BSMultiBound::Sync(NiStreamReversible& stream) {
	dataRef.Sync(stream);
}

void BSMultiBound::GetChildRefs(std::set<NiRef*>& refs) {
	NiObject::GetChildRefs(refs);

	refs.insert(&dataRef);
}

void BSMultiBound::GetChildIndices(std::vector<uint32_t>& indices) {
	NiObject::GetChildIndices(indices);

	indices.push_back(dataRef.index);
}


void BSMultiBoundNode::Sync(NiStreamReversible& stream) {
	multiBoundRef.Sync(stream);

	if (stream.GetVersion().User() >= 12)
		stream.Sync(cullingMode);
}

void BSMultiBoundNode::GetChildRefs(std::set<NiRef*>& refs) {
	NiNode::GetChildRefs(refs);

	refs.insert(&multiBoundRef);
}

void BSMultiBoundNode::GetChildIndices(std::vector<uint32_t>& indices) {
	NiNode::GetChildIndices(indices);

	indices.push_back(multiBoundRef.index);
}


void BSDistantObjectInstancedNode::Sync(NiStreamReversible& stream) {
	instances.Sync(stream);

	for (int i = 0; i < 3; i++)
		textureArrays[i].Sync(stream);
}


void BSRangeNode::Sync(NiStreamReversible& stream) {
	stream.Sync(min);
	stream.Sync(max);
	stream.Sync(current);
}


void UnkMaterialStruct::Sync(NiStreamReversible& stream) {
	stream.Sync(biomeFormID);
	stream.Sync(dirHash);
	stream.Sync(fileHash);
	stream.SyncString(mat);
}

void BSWaterReferenceStruct::Sync(NiStreamReversible& stream) {
	stream.Sync(transform);
	stream.Sync(resourceID);
	stream.Sync(unkInt1);
	material.Sync(stream, 4);
}

void BSWeakReference::Sync(NiStreamReversible& stream) {
	if (stream.GetVersion().Stream() >= 173)
		stream.Sync(formID);

	stream.Sync(resourceID);
	stream.Sync(numTransforms);
	transforms.resize(numTransforms);
	for (uint32_t i = 0; i < numTransforms; i++)
		stream.Sync(transforms[i]);

	stream.Sync(numMaterials);
	unkMaterials.resize(numMaterials);
	for (uint32_t i = 0; i < numMaterials; i++)
		unkMaterials[i].Sync(stream);
}

void BSWeakReferenceNode::Sync(NiStreamReversible& stream) {
	stream.Sync(numWeakRefs);
	weakRefs.resize(numWeakRefs);
	for (uint32_t i = 0; i < numWeakRefs; i++)
		weakRefs[i].Sync(stream);

	stream.Sync(unkInt1);
	stream.Sync(numWaterRefs);
	waterRefs.resize(numWaterRefs);
	for (uint32_t i = 0; i < numWaterRefs; i++)
		waterRefs[i].Sync(stream);
}


void BSFaceGenNiNode::Sync(NiStreamReversible& stream) {
	stream.Sync(unkShort);
}


void NiBillboardNode::Sync(NiStreamReversible& stream) {
	stream.Sync(billboardMode);
}


void NiSwitchNode::Sync(NiStreamReversible& stream) {
	stream.Sync(flags);
	stream.Sync(index);
}


void NiRangeLODData::Sync(NiStreamReversible& stream) {
	stream.Sync(lodCenter);
	lodLevels.Sync(stream);
}


void NiScreenLODData::Sync(NiStreamReversible& stream) {
	stream.Sync(boundCenter);
	stream.Sync(boundRadius);
	stream.Sync(worldCenter);
	stream.Sync(worldRadius);
	proportionLevels.Sync(stream);
}


void NiLODNode::Sync(NiStreamReversible& stream) {
	lodLevelData.Sync(stream);
}

void NiLODNode::GetChildRefs(std::set<NiRef*>& refs) {
	NiSwitchNode::GetChildRefs(refs);

	refs.insert(&lodLevelData);
}

void NiLODNode::GetChildIndices(std::vector<uint32_t>& indices) {
	NiSwitchNode::GetChildIndices(indices);

	indices.push_back(lodLevelData.index);
}


void NiSortAdjustNode::Sync(NiStreamReversible& stream) {
	stream.Sync(sortingMode);
}
