#include "Object3d.hpp"
#include <Miniball.hpp>
#include <cmath>

namespace nifly {
float CalcMedianOfFloats(std::vector<float>& data) {
	size_t n = data.size();
	if (n <= 0)
		return 0;

	if (n & 1) { // n is odd
		std::nth_element(data.begin(), data.begin() + n / 2, data.end());
		return data[n / 2];
	}
	// n is even
	std::nth_element(data.begin(), data.begin() + n / 2, data.end());
	std::nth_element(data.begin(), data.begin() + n / 2 - 1, data.begin() + n / 2);
	return (data[n / 2] + data[n / 2 - 1]) / 2;
}

Matrix3 RotVecToMat(const Vector3& v) {
	double angle = std::sqrt(v.x * v.x + v.y * v.y + v.z * v.z);
	double cosang = std::cos(angle);
	double sinang = std::sin(angle);
	double onemcosang = NAN; // One minus cosang
	// Avoid loss of precision from cancellation in calculating onemcosang
	if (cosang > .5)
		onemcosang = sinang * sinang / (1 + cosang);
	else
		onemcosang = 1 - cosang;

	Vector3 n = angle != 0.0 ? v / static_cast<float>(angle) : Vector3(1.0f, 0.0f, 0.0f);
	Matrix3 m;
	m[0][0] = n.x * n.x * static_cast<float>(onemcosang) + static_cast<float>(cosang);
	m[1][1] = n.y * n.y * static_cast<float>(onemcosang) + static_cast<float>(cosang);
	m[2][2] = n.z * n.z * static_cast<float>(onemcosang) + static_cast<float>(cosang);
	m[0][1] = n.x * n.y * static_cast<float>(onemcosang) + n.z * static_cast<float>(sinang);
	m[1][0] = n.x * n.y * static_cast<float>(onemcosang) - n.z * static_cast<float>(sinang);
	m[1][2] = n.y * n.z * static_cast<float>(onemcosang) + n.x * static_cast<float>(sinang);
	m[2][1] = n.y * n.z * static_cast<float>(onemcosang) - n.x * static_cast<float>(sinang);
	m[2][0] = n.z * n.x * static_cast<float>(onemcosang) + n.y * static_cast<float>(sinang);
	m[0][2] = n.z * n.x * static_cast<float>(onemcosang) - n.y * static_cast<float>(sinang);
	return m;
}

Vector3 RotMatToVec(const Matrix3& m) {
	double cosang = (m[0][0] + m[1][1] + m[2][2] - 1) * 0.5;
	if (cosang > 0.5) {
		Vector3 v(m[1][2] - m[2][1], m[2][0] - m[0][2], m[0][1] - m[1][0]);
		double sin2ang = v.length();
		if (sin2ang == 0.0)
			return Vector3();

		return v * static_cast<float>(std::asin(sin2ang * 0.5) / sin2ang);
	}
	if (cosang > -1) {
		Vector3 v(m[1][2] - m[2][1], m[2][0] - m[0][2], m[0][1] - m[1][0]);
		v.Normalize();
		return v * static_cast<float>(std::acos(cosang));
	}
	// cosang <= -1, sinang == 0
	double x = (m[0][0] - cosang) * 0.5;
	double y = (m[1][1] - cosang) * 0.5;
	double z = (m[2][2] - cosang) * 0.5;

	// Solve precision issues that would cause NaN
	if (x < 0.0)
		x = 0.0;
	if (y < 0.0)
		y = 0.0;
	if (z < 0.0)
		z = 0.0;

	Vector3 v(static_cast<float>(std::sqrt(x)),
			  static_cast<float>(std::sqrt(y)),
			  static_cast<float>(std::sqrt(z)));
	v.Normalize();

	if (m[1][2] < m[2][1])
		v.x = -v.x;
	if (m[2][0] < m[0][2])
		v.y = -v.y;
	if (m[0][1] < m[1][0])
		v.z = -v.z;
	return v * PI;
}

Matrix3 CalcAverageRotation(const std::vector<Matrix3>& rots) {
	auto n = static_cast<uint32_t>(rots.size());
	if (n == 0)
		return Matrix3();

	// First, calculate an approximate average as a base point in
	// the manifold of rotations.
	Vector3 sum1;
	for (const Matrix3& r : rots)
		sum1 += RotMatToVec(r);

	sum1.x /= n;
	sum1.y /= n;
	sum1.z /= n;

	// Now, rebase each rotation to the base point and average them
	// there.
	Matrix3 base = RotVecToMat(sum1);
	Matrix3 baseinv = base.Transpose();
	Vector3 sum2;
	for (const Matrix3& r : rots)
		sum2 += RotMatToVec(baseinv * r);

	// The result is the new average offset from the base.
	return base * RotVecToMat(sum2);
}

MatTransform CalcAverageMatTransform(const std::vector<MatTransform>& ts) {
	auto n = static_cast<uint32_t>(ts.size());
	if (n == 0)
		return MatTransform();

	std::vector<Matrix3> rots(n);
	Vector3 sumtrans;
	float sumscale = 0.0f;
	for (uint32_t i = 0; i < n; ++i) {
		rots[i] = ts[i].rotation;
		sumtrans += ts[i].translation;
		sumscale += ts[i].scale;
	}

	MatTransform res;
	res.rotation = CalcAverageRotation(rots);
	res.translation.x = sumtrans.x / n;
	res.translation.y = sumtrans.y / n;
	res.translation.z = sumtrans.z / n;
	res.scale = sumscale / n;
	return res;
}

Vector3 CalcMedianOfVector3(const std::vector<Vector3>& data) {
	size_t n = data.size();
	if (n <= 0)
		return Vector3();

	Vector3 res;
	std::vector<float> nums(n);

	for (uint32_t i = 0; i < n; ++i)
		nums[i] = data[i].x;
	res.x = CalcMedianOfFloats(nums);

	for (uint32_t i = 0; i < n; ++i)
		nums[i] = data[i].y;
	res.y = CalcMedianOfFloats(nums);

	for (uint32_t i = 0; i < n; ++i)
		nums[i] = data[i].z;
	res.z = CalcMedianOfFloats(nums);

	return res;
}

Matrix3 CalcMedianRotation(const std::vector<Matrix3>& rots) {
	auto n = static_cast<uint32_t>(rots.size());
	if (n == 0)
		return Matrix3();

	// First, calculate an approximate average as a base point in
	// the manifold of rotations.
	Vector3 sum1;
	for (const Matrix3& r : rots)
		sum1 += RotMatToVec(r);

	sum1.x /= n;
	sum1.y /= n;
	sum1.z /= n;

	// Now, rebase each rotation to the base point.
	std::vector<Vector3> vecs(n);
	Matrix3 base = RotVecToMat(sum1);
	Matrix3 baseinv = base.Transpose();
	for (uint32_t i = 0; i < n; ++i)
		vecs[i] = RotMatToVec(baseinv * rots[i]);

	// Calculate median of the rebased rotation vectors.
	Vector3 mvec = CalcMedianOfVector3(vecs);

	// The result is the median rebased rotation offset from the base.
	return base * RotVecToMat(mvec);
}

MatTransform CalcMedianMatTransform(const std::vector<MatTransform>& ts) {
	size_t n = ts.size();
	if (n <= 0)
		return MatTransform();

	std::vector<Matrix3> rots(n);
	std::vector<Vector3> trans(n);
	std::vector<float> scales(n);
	for (uint32_t i = 0; i < n; ++i) {
		rots[i] = ts[i].rotation;
		trans[i] = ts[i].translation;
		scales[i] = ts[i].scale;
	}

	MatTransform res;
	res.rotation = CalcMedianRotation(rots);
	res.translation = CalcMedianOfVector3(trans);
	res.scale = CalcMedianOfFloats(scales);
	return res;
}
} // namespace nifly


using namespace nifly;

BoundingSphere::BoundingSphere(const std::vector<Vector3>& vertices) {
	if (vertices.empty())
		return;

	// Convert vertices to list of coordinates
	std::list<std::vector<float>> lp;
	for (auto vertice : vertices) {
		lp.push_back({vertice.x, vertice.y, vertice.z});
	}

	Miniball::Miniball<Miniball::CoordAccessor<std::list<std::vector<float>>::const_iterator,
											   std::vector<float>::const_iterator>>
		mb(3, lp.begin(), lp.end());

	const float* pCenter = mb.center();
	center.x = pCenter[0];
	center.y = pCenter[1];
	center.z = pCenter[2];

	radius = std::sqrt(mb.squared_radius());
}

float Matrix3::Determinant() const {
	return rows[0][0] * (rows[1][1] * rows[2][2] - rows[1][2] * rows[2][1])
		   + rows[0][1] * (rows[1][2] * rows[2][0] - rows[1][0] * rows[2][2])
		   + rows[0][2] * (rows[1][0] * rows[2][1] - rows[1][1] * rows[2][0]);
}

bool Matrix3::Invert(Matrix3* inverse) const {
	float det = Determinant();
	if (det == 0.0f)
		return false;
	float idet = 1 / det;
	Matrix3& im = *inverse;
	im[0][0] = (rows[1][1] * rows[2][2] - rows[1][2] * rows[2][1]) * idet;
	im[1][0] = (rows[1][2] * rows[2][0] - rows[1][0] * rows[2][2]) * idet;
	im[2][0] = (rows[1][0] * rows[2][1] - rows[1][1] * rows[2][0]) * idet;
	im[0][1] = (rows[2][1] * rows[0][2] - rows[2][2] * rows[0][1]) * idet;
	im[1][1] = (rows[2][2] * rows[0][0] - rows[2][0] * rows[0][2]) * idet;
	im[2][1] = (rows[2][0] * rows[0][1] - rows[2][1] * rows[0][0]) * idet;
	im[0][2] = (rows[0][1] * rows[1][2] - rows[0][2] * rows[1][1]) * idet;
	im[1][2] = (rows[0][2] * rows[1][0] - rows[0][0] * rows[1][2]) * idet;
	im[2][2] = (rows[0][0] * rows[1][1] - rows[0][1] * rows[1][0]) * idet;
	return true;
}

Matrix3 Matrix3::Inverse() const {
	Matrix3 inv;
	Invert(&inv);
	return inv;
}

Matrix3 Matrix3::MakeRotation(const float yaw, const float pitch, const float roll) {
	float ch = std::cos(yaw);
	float sh = std::sin(yaw);
	float cp = std::cos(pitch);
	float sp = std::sin(pitch);
	float cb = std::cos(roll);
	float sb = std::sin(roll);

	Matrix3 rot;
	rot[0].x = ch * cb + sh * sp * sb;
	rot[0].y = sb * cp;
	rot[0].z = -sh * cb + ch * sp * sb;

	rot[1].x = -ch * sb + sh * sp * cb;
	rot[1].y = cb * cp;
	rot[1].z = sb * sh + ch * sp * cb;

	rot[2].x = sh * cp;
	rot[2].y = -sp;
	rot[2].z = ch * cp;

	return rot;
}

bool Matrix3::ToEulerAngles(float& y, float& p, float& r) const {
	bool canRot = false;

	if (rows[0].z < 1.0f) {
		if (rows[0].z > -1.0f) {
			y = std::atan2(-rows[1].z, rows[2].z);
			p = std::asin(rows[0].z);
			r = std::atan2(-rows[0].y, rows[0].x);
			canRot = true;
		}
		else {
			y = -std::atan2(-rows[1].x, rows[1].y);
			p = -PI / 2.0f;
			r = 0.0f;
		}
	}
	else {
		y = std::atan2(rows[1].x, rows[1].y);
		p = PI / 2.0f;
		r = 0.0f;
	}
	return canRot;
}

MatTransform MatTransform::InverseTransform() const {
	MatTransform inv;
	inv.rotation = rotation.Inverse();
	inv.scale = 1 / scale;
	inv.translation = -inv.scale * (inv.rotation * translation);
	return inv;
}

MatTransform MatTransform::ComposeTransforms(const MatTransform& other) const {
	MatTransform comp;
	comp.rotation = rotation * other.rotation;
	comp.scale = scale * other.scale;
	comp.translation = translation + rotation * (scale * other.translation);
	return comp;
}
