/*
nifly
C++ NIF library for the Gamebryo/NetImmerse File Format
See the included GPLv3 LICENSE file
*/

#include "Skin.hpp"
#include "NifUtil.hpp"

#include <unordered_map>

using namespace nifly;

void NiSkinData::Sync(NiStreamReversible& stream) {
	stream.Sync(skinTransform.rotation);
	stream.Sync(skinTransform.translation);
	stream.Sync(skinTransform.scale);
	stream.Sync(numBones);
	stream.Sync(hasVertWeights);

	if (hasVertWeights > 1)
		hasVertWeights = 1;

	bones.resize(numBones);
	for (uint32_t i = 0; i < numBones; i++) {
		auto& boneData = bones[i];
		stream.Sync(boneData.boneTransform.rotation);
		stream.Sync(boneData.boneTransform.translation);
		stream.Sync(boneData.boneTransform.scale);
		stream.Sync(boneData.bounds);

		uint16_t numVerts = boneData.numVertices;
		if (!hasVertWeights)
			numVerts = 0;

		stream.Sync(numVerts);

		if (!hasVertWeights)
			numVerts = 0;

		if (stream.GetMode() == NiStreamReversible::Mode::Reading)
			boneData.numVertices = numVerts;

		if (hasVertWeights) {
			boneData.vertexWeights.resize(numVerts);

			// Num Verts * 6 bytes (index + weight)
			stream.Sync((char*) boneData.vertexWeights.data(),
						static_cast<std::streamsize>(numVerts) * sizeof(SkinWeight));
		}
	}
}

void NiSkinData::notifyVerticesDelete(const std::vector<uint16_t>& vertIndices) {
	uint16_t highestRemoved = vertIndices.back();
	uint16_t mapSize = highestRemoved + 1;
	std::vector<int> indexCollapse = GenerateIndexCollapseMap(vertIndices, mapSize);

	NiObject::notifyVerticesDelete(vertIndices);

	uint16_t ival = 0;
	for (auto& b : bones) {
		for (uint16_t i = b.numVertices - 1; i != static_cast<uint16_t>(-1); i--) {
			ival = b.vertexWeights[i].index;
			if (b.vertexWeights[i].index > highestRemoved) {
				b.vertexWeights[i].index -= static_cast<uint16_t>(vertIndices.size());
			}
			else if (indexCollapse[ival] == -1) {
				b.vertexWeights.erase(b.vertexWeights.begin() + i);
				b.numVertices--;
			}
			else
				b.vertexWeights[i].index = static_cast<uint16_t>(indexCollapse[ival]);
		}
	}
}


void NiSkinPartition::Sync(NiStreamReversible& stream) {
	stream.Sync(numPartitions);
	partitions.resize(numPartitions);

	if (stream.GetVersion().User() >= 12 && stream.GetVersion().Stream() == 100) {
		if (stream.GetMode() == NiStreamReversible::Mode::Reading)
			bMappedIndices = false;

		if (stream.GetMode() == NiStreamReversible::Mode::Writing)
			dataSize = vertexSize * numVertices;

		stream.Sync(dataSize);
		stream.Sync(vertexSize);
		vertexDesc.Sync(stream);

		if (dataSize > 0) {
			if (stream.GetMode() == NiStreamReversible::Mode::Reading)
				numVertices = vertexSize > 0 ? dataSize / vertexSize : 0;

			vertData.resize(numVertices);

			uint32_t vertexMainSize = vertexDesc.GetVertexMainSize();
			for (uint32_t i = 0; i < numVertices; i++) {
				auto& vertex = vertData[i];
				if (HasVertices() && vertexMainSize <= 16) {
					if (IsFullPrecision()) {
						// Full precision (vert + bitangentX = 16 bytes)
						stream.Sync((char*) &vertex.vert, sizeof(vertex.vert) + sizeof(vertex.bitangentX));
					}
					else {
						// Half precision (vert + bitangentX = 8 bytes)
						stream.SyncHalf(vertex.vert.x);
						stream.SyncHalf(vertex.vert.y);
						stream.SyncHalf(vertex.vert.z);

						stream.SyncHalf(vertex.bitangentX);
					}
				}
				else if (vertexMainSize > 16) {
					// Full precision (vert = 12 bytes)
					stream.Sync((char*) &vertex.vert, sizeof(vertex.vert));

					// Variable length extra float elements
					uint32_t vertexExtraCount = (vertexMainSize - 16) / 4;
					if (vertexExtraCount > 0) {
						vertex.extra.resize(vertexExtraCount);
						for (uint32_t e = 0; e < vertexExtraCount; e++)
							stream.Sync(vertex.extra[e]);
					}

					// BitangentX after extra floats (bitangentX = 4 bytes)
					stream.Sync(vertex.bitangentX);
				}

				if (HasUVs()) {
					stream.SyncHalf(vertex.uv.u);
					stream.SyncHalf(vertex.uv.v);
				}

				if (HasNormals()) {
					// 3 normals + bitangentY = 4 bytes
					stream.Sync((char*) &vertex.normal, sizeof(vertex.normal) + sizeof(vertex.bitangentY));

					if (HasTangents()) {
						// 3 tangents + bitangentZ = 4 bytes
						stream.Sync((char*) &vertex.tangent,
									sizeof(vertex.tangent) + sizeof(vertex.bitangentZ));
					}
				}

				if (HasVertexColors()) {
					// 4 vertex colors = 4 bytes
					stream.Sync((char*) &vertex.colorData, sizeof(vertex.colorData));
				}

				if (IsSkinned()) {
					// 4 weights = 8 bytes
					for (float& weight : vertex.weights)
						stream.SyncHalf(weight);

					// 4 bones = 4 bytes
					stream.Sync((char*) &vertex.weightBones, sizeof(vertex.weightBones));
				}

				if (HasEyeData())
					stream.Sync(vertex.eyeData);
			}
		}
	}

	// This call of PrepareVertexMapsAndTriangles should be completely unnecessary.
	// But it doesn't hurt to be safe.
	if (stream.GetMode() == NiStreamReversible::Mode::Writing)
		PrepareVertexMapsAndTriangles();

	for (uint32_t p = 0; p < numPartitions; p++) {
		auto& partition = partitions[p];
		stream.Sync(partition.numVertices);
		stream.Sync(partition.numTriangles);
		stream.Sync(partition.numBones);
		stream.Sync(partition.numStrips);
		stream.Sync(partition.numWeightsPerVertex);

		partition.bones.resize(partition.numBones);
		stream.Sync((char*) partition.bones.data(), partition.numBones * sizeof(uint16_t));

		stream.Sync(partition.hasVertexMap);
		if (partition.hasVertexMap) {
			partition.vertexMap.resize(partition.numVertices);
			stream.Sync((char*) partition.vertexMap.data(), partition.numVertices * sizeof(uint16_t));
		}

		stream.Sync(partition.hasVertexWeights);
		if (partition.hasVertexWeights) {
			partition.vertexWeights.resize(partition.numVertices);
			stream.Sync((char*) partition.vertexWeights.data(), partition.numVertices * sizeof(VertexWeight));
		}

		partition.stripLengths.resize(partition.numStrips);
		stream.Sync((char*) partition.stripLengths.data(), partition.numStrips * sizeof(uint16_t));

		stream.Sync(partition.hasFaces);
		if (partition.hasFaces) {
			partition.strips.resize(partition.numStrips);
			for (uint32_t i = 0; i < partition.numStrips; i++) {
				partition.strips[i].resize(partition.stripLengths[i]);
				stream.Sync((char*) partition.strips[i].data(), partition.stripLengths[i] * sizeof(uint16_t));
			}
		}

		if (partition.numStrips == 0 && partition.hasFaces) {
			partition.triangles.resize(partition.numTriangles);
			stream.Sync((char*) partition.triangles.data(), partition.numTriangles * sizeof(Triangle));
		}

		stream.Sync(partition.hasBoneIndices);
		if (partition.hasBoneIndices) {
			partition.boneIndices.resize(partition.numVertices);
			stream.Sync((char*) partition.boneIndices.data(), partition.numVertices * sizeof(BoneIndices));
		}

		if (stream.GetVersion().User() >= 12) {
			stream.Sync(partition.lodLevel);
			stream.Sync(partition.globalVB);
		}

		if (stream.GetVersion().User() >= 12 && stream.GetVersion().Stream() == 100) {
			partition.vertexDesc.Sync(stream);

			partition.trueTriangles.resize(partition.numTriangles);
			stream.Sync((char*) partition.trueTriangles.data(), partition.numTriangles * sizeof(Triangle));
		}
	}
}

void NiSkinPartition::notifyVerticesDelete(const std::vector<uint16_t>& vertIndices) {
	if (vertIndices.empty())
		return;

	NiObject::notifyVerticesDelete(vertIndices);

	// Prepare vertexMap and triangles.
	ConvertStripsToTriangles();
	PrepareVertexMapsAndTriangles();
	triParts.clear();

	// Determine maximum vertex index used so we can make a complete
	// collapse map.  (It would be nice if notifyVerticesDelete had a
	// numVertices parameter so we didn't have to calculate this.)
	uint16_t maxVertInd = 0;
	for (auto& p : partitions) {
		for (auto i : p.vertexMap)
			maxVertInd = std::max(maxVertInd, i);
		if (!bMappedIndices)
			maxVertInd = std::max(maxVertInd, CalcMaxTriangleIndex(p.triangles));
	}

	uint16_t mapSize = maxVertInd + 1;

	// Make collapse map for shape vertex indices
	std::vector<int> indexCollapse = GenerateIndexCollapseMap(vertIndices, mapSize);

	for (auto& p : partitions) {
		const size_t oldNumVertices = p.vertexMap.size();

		// Make list of deleted vertexMap indices
		std::vector<uint32_t> vertexMapDelList;
		for (uint32_t i = 0; i < static_cast<uint32_t>(p.vertexMap.size()); i++)
			if (indexCollapse[p.vertexMap[i]] == -1)
				vertexMapDelList.push_back(i);

		// Erase indices of vertexMap, vertexWeights, and boneIndices
		EraseVectorIndices(p.vertexMap, vertexMapDelList);
		if (p.hasVertexWeights)
			EraseVectorIndices(p.vertexWeights, vertexMapDelList);
		if (p.hasBoneIndices)
			EraseVectorIndices(p.boneIndices, vertexMapDelList);
		p.numVertices = static_cast<uint16_t>(p.vertexMap.size());

		// Compose vertexMap with indexCollapse to get new vertexMap
		for (uint16_t& i : p.vertexMap)
			i = static_cast<uint16_t>(indexCollapse[i]);

		if (!bMappedIndices) {
			// Apply shape vertex index collapse map to true triangles
			ApplyMapToTriangles(p.triangles, indexCollapse);
			p.trueTriangles = p.triangles;
		}
		else {
			// Generate collapse map for indices into (old) vertexMap.
			std::vector<int> mapCollapse = GenerateIndexCollapseMap(vertexMapDelList, oldNumVertices);
			// Apply vertexMap index collapse to mapped triangles
			ApplyMapToTriangles(p.triangles, mapCollapse);
			p.trueTriangles.clear();
		}
		p.numTriangles = static_cast<uint16_t>(p.triangles.size());
	}

	if (!vertData.empty()) {
		EraseVectorIndices(vertData, vertIndices);
		numVertices = static_cast<uint32_t>(vertData.size());
	}
}

void NiSkinPartition::DeletePartitions(const std::vector<uint32_t>& partInds) {
	if (partInds.empty())
		return;

	if (!triParts.empty()) {
		std::vector<int> piMap = GenerateIndexCollapseMap(partInds, numPartitions);
		const auto piMapSize = static_cast<int>(piMap.size());
		for (auto& pi : triParts) {
			if (pi >= 0 && pi < piMapSize)
				pi = piMap[pi];
		}
	}

	EraseVectorIndices(partitions, partInds);
	numPartitions = static_cast<uint32_t>(partitions.size());
}

uint32_t NiSkinPartition::RemoveEmptyPartitions(std::vector<uint32_t>& outDeletedIndices) {
	outDeletedIndices.clear();

	for (uint32_t i = 0; i < static_cast<uint32_t>(partitions.size()); ++i)
		if (partitions[i].numTriangles == 0)
			outDeletedIndices.push_back(i);

	if (!outDeletedIndices.empty())
		DeletePartitions(outDeletedIndices);

	return static_cast<uint32_t>(outDeletedIndices.size());
}

bool NiSkinPartition::PartitionBlock::ConvertStripsToTriangles() {
	if (numStrips == 0)
		return false;

	hasFaces = true;
	triangles = GenerateTrianglesFromStrips(strips);
	numTriangles = static_cast<uint16_t>(triangles.size());
	numStrips = 0;
	strips.clear();
	stripLengths.clear();
	trueTriangles.clear();
	return true;
}

bool NiSkinPartition::ConvertStripsToTriangles() {
	bool triangulated = false;
	for (PartitionBlock& p : partitions) {
		if (p.ConvertStripsToTriangles())
			triangulated = true;
	}
	return triangulated;
}

void NiSkinPartition::PartitionBlock::GenerateTrueTrianglesFromMappedTriangles() {
	if (vertexMap.empty() || triangles.empty()) {
		trueTriangles.clear();
		if (numStrips == 0)
			numTriangles = 0;
		return;
	}

	trueTriangles = triangles;
	ApplyMapToTriangles(trueTriangles, vertexMap);

	for (Triangle& t : trueTriangles)
		t.rot();

	if (triangles.size() != trueTriangles.size()) {
		triangles.clear();
		numTriangles = static_cast<uint16_t>(trueTriangles.size());
	}
}

void NiSkinPartition::PartitionBlock::GenerateMappedTrianglesFromTrueTrianglesAndVertexMap() {
	if (vertexMap.empty() || trueTriangles.empty()) {
		triangles.clear();
		if (numStrips == 0)
			numTriangles = 0;
		return;
	}

	std::vector<uint16_t> invmap(vertexMap.back() + 1);
	for (uint16_t mi = 0; mi < static_cast<uint16_t>(vertexMap.size()); ++mi) {
		if (vertexMap[mi] >= invmap.size())
			invmap.resize(vertexMap[mi] + 1);

		invmap[vertexMap[mi]] = mi;
	}

	triangles = trueTriangles;
	ApplyMapToTriangles(triangles, invmap);

	for (Triangle& t : triangles)
		t.rot();

	if (triangles.size() != trueTriangles.size()) {
		trueTriangles.clear();
		numTriangles = static_cast<uint16_t>(triangles.size());
	}
}

void NiSkinPartition::PartitionBlock::GenerateVertexMapFromTrueTriangles() {
	std::vector<bool> vertUsed(CalcMaxTriangleIndex(trueTriangles) + 1, false);
	for (auto& trueTriangle : trueTriangles) {
		vertUsed[trueTriangle.p1] = true;
		vertUsed[trueTriangle.p2] = true;
		vertUsed[trueTriangle.p3] = true;
	}

	vertexMap.clear();

	for (uint16_t i = 0; i < static_cast<uint16_t>(vertUsed.size()); ++i) {
		if (vertUsed[i])
			vertexMap.push_back(i);
	}

	numVertices = static_cast<uint16_t>(vertexMap.size());
}

void NiSkinPartition::PrepareTrueTriangles() {
	for (PartitionBlock& p : partitions) {
		if (!p.trueTriangles.empty())
			continue;

		if (p.numStrips)
			p.ConvertStripsToTriangles();

		if (bMappedIndices)
			p.GenerateTrueTrianglesFromMappedTriangles();
		else
			p.trueTriangles = p.triangles;
	}
}

void NiSkinPartition::PrepareVertexMapsAndTriangles() {
	for (PartitionBlock& p : partitions) {
		if (p.vertexMap.empty())
			p.GenerateVertexMapFromTrueTriangles();

		if (p.triangles.empty()) {
			if (bMappedIndices)
				p.GenerateMappedTrianglesFromTrueTrianglesAndVertexMap();
			else
				p.triangles = p.trueTriangles;
		}
	}
}

void NiSkinPartition::GenerateTriPartsFromTrueTriangles(const std::vector<Triangle>& shapeTris) {
	triParts.clear();
	triParts.resize(shapeTris.size());

	// Make a map from Triangles to their indices in shapeTris
	std::unordered_map<Triangle, int> shapeTriInds;

	int numTris = static_cast<int>(shapeTris.size());
	for (int triInd = 0; triInd < numTris; ++triInd) {
		Triangle t = shapeTris[triInd];
		t.rot();
		shapeTriInds[t] = triInd;
	}

	// Set triParts for each partition triangle
	int numParts = static_cast<int>(partitions.size());
	for (int partInd = 0; partInd < numParts; ++partInd) {
		for (const Triangle& pt : partitions[partInd].trueTriangles) {
			Triangle t = pt;
			t.rot();
			auto it = shapeTriInds.find(t);
			if (it != shapeTriInds.end())
				triParts[it->second] = partInd;
		}
	}
}

void NiSkinPartition::GenerateTrueTrianglesFromTriParts(const std::vector<Triangle>& shapeTris) {
	if (shapeTris.size() != triParts.size())
		return;

	for (PartitionBlock& p : partitions) {
		p.trueTriangles.clear();
		p.triangles.clear();
		p.numStrips = 0;
		p.strips.clear();
		p.stripLengths.clear();
		p.hasFaces = true;
		p.vertexMap.clear();
		p.vertexWeights.clear();
		p.boneIndices.clear();
	}

	for (size_t triInd = 0; triInd < shapeTris.size(); ++triInd) {
		const auto partitionsSize = static_cast<int>(partitions.size());
		const int partInd = triParts[triInd];
		if (partInd >= 0 && partInd < partitionsSize)
			partitions[partInd].trueTriangles.push_back(shapeTris[triInd]);
	}

	for (PartitionBlock& p : partitions)
		p.numTriangles = static_cast<uint16_t>(p.trueTriangles.size());
}

void NiSkinPartition::PrepareTriParts(const std::vector<Triangle>& shapeTris) {
	if (shapeTris.size() == triParts.size())
		return;
	PrepareTrueTriangles();
	GenerateTriPartsFromTrueTriangles(shapeTris);
}


void NiSkinInstance::Sync(NiStreamReversible& stream) {
	dataRef.Sync(stream);

	if (stream.GetVersion().File() >= V10_1_0_101)
		skinPartitionRef.Sync(stream);

	targetRef.Sync(stream);
	boneRefs.Sync(stream);
}

void NiSkinInstance::GetChildRefs(std::set<NiRef*>& refs) {
	NiObject::GetChildRefs(refs);

	refs.insert(&dataRef);
	refs.insert(&skinPartitionRef);
}

void NiSkinInstance::GetChildIndices(std::vector<uint32_t>& indices) {
	NiObject::GetChildIndices(indices);

	indices.push_back(dataRef.index);
	indices.push_back(skinPartitionRef.index);
}

void NiSkinInstance::GetPtrs(std::set<NiPtr*>& ptrs) {
	NiObject::GetPtrs(ptrs);

	ptrs.insert(&targetRef);
	boneRefs.GetIndexPtrs(ptrs);
}


void BSDismemberSkinInstance::Sync(NiStreamReversible& stream) {
	partitions.Sync(stream);
}

void BSDismemberSkinInstance::DeletePartitions(const std::vector<uint32_t>& partInds) {
	if (partInds.empty())
		return;

	EraseVectorIndices(partitions, partInds);
}


void BSSkinBoneData::Sync(NiStreamReversible& stream) {
	stream.Sync(nBones);
	boneXforms.resize(nBones);
	for (uint32_t i = 0; i < nBones; i++) {
		stream.Sync(boneXforms[i].bounds);
		stream.Sync(boneXforms[i].boneTransform.rotation);
		stream.Sync(boneXforms[i].boneTransform.translation);
		stream.Sync(boneXforms[i].boneTransform.scale);
	}
}


void BSSkinInstance::Sync(NiStreamReversible& stream) {
	boneRefs.SetKeepEmptyRefs(stream.GetVersion().IsSF());

	targetRef.Sync(stream);
	dataRef.Sync(stream);
	boneRefs.Sync(stream);
	scales.Sync(stream);
}

void BSSkinInstance::GetChildRefs(std::set<NiRef*>& refs) {
	NiObject::GetChildRefs(refs);

	refs.insert(&dataRef);
}

void BSSkinInstance::GetChildIndices(std::vector<uint32_t>& indices) {
	NiObject::GetChildIndices(indices);

	indices.push_back(dataRef.index);
}

void BSSkinInstance::GetPtrs(std::set<NiPtr*>& ptrs) {
	NiObject::GetPtrs(ptrs);

	ptrs.insert(&targetRef);
	boneRefs.GetIndexPtrs(ptrs);
}
