/*
nifly
C++ NIF library for the Gamebryo/NetImmerse File Format
See the included GPLv3 LICENSE file
*/

#include "NifFile.hpp"
#include "bhk.hpp"
#include "NifUtil.hpp"

#include <fstream>
#include <regex>
#include <set>
#include <unordered_set>
#include <queue>

using namespace nifly;

uint32_t NifFile::GetBlockID(NiObject* block) const {
	auto it = find_if(blocks, [&block](const auto& ptr) { return ptr.get() == block; });

	if (it != blocks.end())
		return static_cast<uint32_t>(std::distance(blocks.begin(), it));

	return NIF_NPOS;
}

NiNode* NifFile::GetParentNode(NiObject* childBlock) const {
	if (childBlock != nullptr) {
		int childId = GetBlockID(childBlock);
		for (auto& block : blocks) {
			auto node = dynamic_cast<NiNode*>(block.get());
			if (node) {
				auto children = node->childRefs;
				for (auto& c : children) {
					if (c == childId)
						return node;
				}
			}
		}
	}

	return nullptr;
}

void NifFile::SetParentNode(NiObject* childBlock, NiNode* newParent) {
	if (!childBlock)
		return;

	if (!newParent) {
		newParent = GetRootNode();

		if (!newParent)
			return;
	}

	if (childBlock == newParent)
		return;

	uint32_t childId = GetBlockID(childBlock);
	for (auto& block : blocks) {
		auto node = dynamic_cast<NiNode*>(block.get());
		if (!node)
			continue;

		auto& children = node->childRefs;
		for (uint32_t ci = 0; ci < children.GetSize(); ++ci) {
			if (childId != children.GetBlockRef(ci))
				continue;

			// We have now found the node's old parent
			if (newParent != node) {
				children.RemoveBlockRef(ci);
				newParent->childRefs.AddBlockRef(childId);
			}

			return;
		}
	}

	// If we get here, the node's old parent was not found.
	newParent->childRefs.AddBlockRef(childId);
}

std::vector<NiNode*> NifFile::GetNodes() const {
	std::vector<NiNode*> outList;
	for (auto& block : blocks) {
		auto node = dynamic_cast<NiNode*>(block.get());
		if (node)
			outList.push_back(node);
	}

	return outList;
}

void NifFile::CopyFrom(const NifFile& other) {
	// Copying a model onto itself would clear it before anything is copied
	if (this == &other)
		return;

	if (isValid)
		Clear();

	isValid = other.isValid;
	hasUnknown = other.hasUnknown;
	isTerrain = other.isTerrain;

	hdr = NiHeader(other.hdr);

	size_t nBlocks = other.blocks.size();
	blocks.resize(nBlocks);

	for (uint32_t i = 0; i < nBlocks; i++)
		blocks[i] = other.blocks[i]->Clone();

	hdr.SetBlockReference(&blocks);
	LinkGeomData();
}

void NifFile::LinkGeomData() {
	for (auto& block : blocks) {
		if (auto geom = dynamic_cast<NiGeometry*>(block.get())) {
			// NiGeometry refers to geometry data within the nif file
			auto geomData = hdr.GetBlock(geom->DataRef());
			if (geomData)
				geom->SetGeomData(geomData);
			
		}
		// NOTE: BSGeometry is it's own geometry data... need explicit linking here?
	}
}

void NifFile::RemoveInvalidTris() const {
	for (auto& shape : GetShapes()) {
		std::vector<Triangle> tris;
		if (shape->GetTriangles(tris)) {
			uint16_t numVerts = shape->GetNumVertices();
			tris.erase(std::remove_if(tris.begin(),
									  tris.end(),
									  [&](auto& t) {
										  return t.p1 >= numVerts || t.p2 >= numVerts || t.p3 >= numVerts;
									  }),
					   tris.end());

			shape->SetTriangles(tris);
		}
	}
}

size_t NifFile::GetVertexLimit() {
	constexpr size_t maxVertIndex = std::numeric_limits<uint16_t>::max();
	return maxVertIndex;
}

size_t NifFile::GetTriangleLimit() const {
	size_t maxTriIndex = std::numeric_limits<uint32_t>::max();
	if (hdr.GetVersion().User() >= 12 && hdr.GetVersion().Stream() < 130)
		maxTriIndex = std::numeric_limits<uint16_t>::max();

	return maxTriIndex;
}

void NifFile::Create(const NiVersion& version) {
	Clear();
	hdr.SetVersion(version);
	hdr.SetBlockReference(&blocks);

	auto rootNode = std::make_unique<NiNode>();
	rootNode->name.get() = "Scene Root";
	hdr.AddBlock(std::move(rootNode));

	isValid = true;
}

void NifFile::Clear() {
	isValid = false;
	hasUnknown = false;
	isTerrain = false;

	blocks.clear();
	hdr.Clear();
}

int NifFile::Load(const std::filesystem::path& fileName, const NifLoadOptions& options) {
	std::ifstream file(fileName, std::ios::in | std::ios::binary);
	return Load(file, options);
}

int NifFile::Load(std::istream& file, const NifLoadOptions& options) {
	Clear();

	isTerrain = options.isTerrain;

	if (file) {
		NiIStream stream(&file, &hdr);
		hdr.Get(stream);

		if (!hdr.IsValid()) {
			Clear();
			return 1;
		}

		NiVersion& version = hdr.GetVersion();
		if (!(version.IsOB() || version.IsFO3() || version.IsSK() || version.IsSSE() || version.IsFO4() || version.IsFO76() || version.IsSF() || version.IsSpecial())) {
			// Unsupported file version
			Clear();
			return 2;
		}

		uint32_t nBlocks = hdr.GetNumBlocks();
		blocks.resize(nBlocks);

		auto& nifactories = NiFactoryRegister::Get();
		for (uint32_t i = 0; i < nBlocks; i++) {
			std::string blockTypeStr = hdr.GetBlockTypeStringById(i);

			auto nifactory = nifactories.GetFactoryByName(blockTypeStr);
			if (nifactory) {
				blocks[i] = nifactory->Load(stream);
			}
			else {
				if (version.File() < V20_2_0_5) {
					// Loading unknown blocks w/o block sizes isn't possible
					Clear();
					return 3;
				}

				hasUnknown = true;
				blocks[i] = std::make_unique<NiUnknown>(stream, hdr.GetBlockSize(i));
			}
		}

		hdr.SetBlockReference(&blocks);
	}
	else {
		Clear();
		return 1;
	}

	PrepareData();
	isValid = true;
	return 0;
}

void NifFile::SetShapeOrder(const std::vector<std::string>& order) {
	if (hasUnknown)
		return;

	if (order.empty())
		return;

	auto shapes = GetShapes();
	if (order.size() != shapes.size())
		return;

	SortState sortState{};
	sortState.newIndices.resize(hdr.GetNumBlocks());
	for (size_t i = 0; i < sortState.newIndices.size(); i++)
		sortState.newIndices[i] = static_cast<uint32_t>(i);

	for (auto& s : order) {
		auto shape = FindBlockByName<NiShape>(s);
		if (shape)
			sortState.rootShapeOrder.push_back(GetBlockID(shape));
	}

	auto root = GetRootNode();
	if (root)
		SetSortIndices(GetBlockID(root), sortState);

	for (size_t i = 0; i < sortState.newIndices.size(); i++) {
		uint32_t index = static_cast<uint32_t>(i);
		if (sortState.visitedIndices.count(index) == 0) {
			sortState.newIndices[i] = sortState.newIndex++;
			sortState.visitedIndices.insert(index);
		}
	}

	hdr.SetBlockOrder(sortState.newIndices);
}

void NifFile::SetSortIndices(const NiRef& ref, SortState& sortState) {
	SetSortIndices(ref.index, sortState);
}

void NifFile::SetSortIndices(const NiRef* ref, SortState& sortState) {
	if (ref)
		SetSortIndices(ref->index, sortState);
}

void NifFile::SetSortIndices(uint32_t refIndex, SortState& sortState) {
	auto obj = hdr.GetBlock<NiObject>(refIndex);
	if (!obj)
		return;

	bool fullySorted = sortState.visitedIndices.count(refIndex) > 0;

	if (!fullySorted) {
		auto collision = dynamic_cast<NiCollisionObject*>(obj);
		if (collision) {
			SortCollision(collision, refIndex, sortState);
			fullySorted = true;
		}
		else {
			// Assign new sort index
			sortState.newIndices[refIndex] = sortState.newIndex++;
			sortState.visitedIndices.insert(refIndex);
		}
	}

	if (!fullySorted) {
		auto node = dynamic_cast<NiNode*>(obj);
		if (node) {
			SortGraph(node, sortState);
			fullySorted = true;
		}
	}

	if (!fullySorted) {
		auto shape = dynamic_cast<NiShape*>(obj);
		if (shape) {
			SortShape(shape, sortState);
			fullySorted = true;
		}
	}

	if (!fullySorted) {
		auto controller = dynamic_cast<NiTimeController*>(obj);
		if (controller) {
			SortController(controller, sortState);
			fullySorted = true;
		}
	}

	if (!fullySorted) {
		auto shader = dynamic_cast<NiShader*>(obj);
		if (shader) {
			SortNiObjectNET(shader, sortState);
			SetSortIndices(shader->TextureSetRef(), sortState);
			fullySorted = true;
		}
	}

	if (!fullySorted) {
		// Default child sorting
		std::vector<uint32_t> childIndices;
		obj->GetChildIndices(childIndices);

		for (auto& child : childIndices)
			SetSortIndices(child, sortState);

		fullySorted = true;
	}
}

void NifFile::SortNiObjectNET(NiObjectNET* objnet, SortState& sortState) {
	for (auto& r : objnet->extraDataRefs)
		SetSortIndices(r, sortState);

	SetSortIndices(objnet->controllerRef, sortState);

	auto controller = hdr.GetBlock<NiTimeController>(objnet->controllerRef);
	if (controller)
		SortController(controller, sortState);
}

void NifFile::SortAVObject(NiAVObject* avobj, SortState& sortState) {
	SortNiObjectNET(avobj, sortState);

	for (auto& r : avobj->propertyRefs)
		SetSortIndices(r, sortState);

	auto col = hdr.GetBlock<NiCollisionObject>(avobj->collisionRef);
	if (col)
		SortCollision(col, avobj->collisionRef.index, sortState);
}

void NifFile::SortController(NiTimeController* controller, SortState& sortState) {
	std::vector<uint32_t> childIndices;
	controller->GetChildIndices(childIndices);

	for (auto& index : childIndices) {
		SetSortIndices(index, sortState);

		auto controllerSequence = hdr.GetBlock<NiControllerSequence>(index);
		if (controllerSequence) {
			for (auto& cb : controllerSequence->controlledBlocks) {
				auto interp = hdr.GetBlock<NiInterpolator>(cb.interpolatorRef);
				if (interp)
					SetSortIndices(cb.interpolatorRef, sortState);

				auto subController = hdr.GetBlock<NiTimeController>(cb.controllerRef);
				if (subController)
					SetSortIndices(cb.controllerRef, sortState);
			}

			SetSortIndices(controllerSequence->textKeyRef, sortState);

			auto animNotes = hdr.GetBlock<BSAnimNotes>(controllerSequence->animNotesRef);
			if (animNotes) {
				SetSortIndices(controllerSequence->animNotesRef, sortState);

				for (auto& an : animNotes->animNoteRefs)
					SetSortIndices(an, sortState);
			}

			for (auto& ar : controllerSequence->animNotesRefs) {
				animNotes = hdr.GetBlock<BSAnimNotes>(ar);
				if (animNotes) {
					SetSortIndices(ar, sortState);

					for (auto& an : animNotes->animNoteRefs)
						SetSortIndices(an, sortState);
				}
			}
		}
	}
}

void NifFile::SortCollision(NiObject* parent, uint32_t parentIndex, SortState& sortState) {
	// A block that is already being sorted further up the call stack is part of a reference cycle
	if (!sortState.collisionIndicesInProgress.insert(parentIndex).second)
		return;

	auto constraint = dynamic_cast<bhkConstraint*>(parent);
	if (constraint) {
		for (auto& entityId : constraint->entityRefs) {
			auto entity = hdr.GetBlock<NiObject>(entityId);
			if (entity && sortState.visitedIndices.count(entityId.index) == 0)
				SortCollision(entity, entityId.index, sortState);
		}
	}

	auto constraintChain = dynamic_cast<bhkBallSocketConstraintChain*>(parent);
	if (constraintChain) {
		for (auto& entityId : constraintChain->chainedEntityRefs) {
			auto entity = hdr.GetBlock<NiObject>(entityId);
			if (entity && sortState.visitedIndices.count(entityId.index) == 0)
				SortCollision(entity, entityId.index, sortState);
		}

		auto entityA = hdr.GetBlock<NiObject>(constraintChain->entityARef);
		if (entityA && sortState.visitedIndices.count(constraintChain->entityARef.index) == 0)
			SortCollision(entityA, constraintChain->entityARef.index, sortState);

		auto entityB = hdr.GetBlock<NiObject>(constraintChain->entityBRef);
		if (entityB && sortState.visitedIndices.count(constraintChain->entityBRef.index) == 0)
			SortCollision(entityB, constraintChain->entityBRef.index, sortState);
	}

	std::vector<uint32_t> childIndices;
	parent->GetChildIndices(childIndices);

	for (auto& id : childIndices) {
		auto child = hdr.GetBlock<NiObject>(id);
		if (child && sortState.visitedIndices.count(id) == 0) {
			bool childBeforeParent = child->HasType<bhkRefObject>() && !child->HasType<bhkConstraint>()
									 && !child->HasType<bhkBallSocketConstraintChain>();
			if (childBeforeParent)
				SortCollision(child, id, sortState);
		}
	}

	// Assign new sort index
	if (sortState.visitedIndices.count(parentIndex) == 0) {
		sortState.newIndices[parentIndex] = sortState.newIndex++;
		sortState.visitedIndices.insert(parentIndex);
	}

	for (auto& id : childIndices) {
		auto child = hdr.GetBlock<NiObject>(id);
		if (child && sortState.visitedIndices.count(id) == 0) {
			bool childBeforeParent = child->HasType<bhkRefObject>() && !child->HasType<bhkConstraint>()
									 && !child->HasType<bhkBallSocketConstraintChain>();
			if (!childBeforeParent)
				SortCollision(child, id, sortState);
		}
	}

	sortState.collisionIndicesInProgress.erase(parentIndex);
}

void NifFile::SortShape(NiShape* shape, SortState& sortState) {
	SortAVObject(shape, sortState);

	SetSortIndices(shape->DataRef(), sortState);
	SetSortIndices(shape->SkinInstanceRef(), sortState);

	auto niSkinInst = hdr.GetBlock<NiSkinInstance>(shape->SkinInstanceRef());
	if (niSkinInst) {
		SetSortIndices(niSkinInst->dataRef, sortState);
		SetSortIndices(niSkinInst->skinPartitionRef, sortState);
	}

	auto bsSkinInst = hdr.GetBlock<BSSkinInstance>(shape->SkinInstanceRef());
	if (bsSkinInst)
		SetSortIndices(bsSkinInst->dataRef, sortState);

	SetSortIndices(shape->ShaderPropertyRef(), sortState);
	SetSortIndices(shape->AlphaPropertyRef(), sortState);

	std::vector<uint32_t> remainingChildIndices;
	shape->GetChildIndices(remainingChildIndices);

	// Sort remaining children
	for (auto& child : remainingChildIndices)
		SetSortIndices(child, sortState);
}

void NifFile::SortGraph(NiNode* root, SortState& sortState) {
	bool isRootNode = GetBlockID(root) == 0;
	SortAVObject(root, sortState);

	std::vector<uint32_t> childIndices;
	root->childRefs.GetIndices(childIndices);

	if (childIndices.empty())
		return;

	bool reorderChildRefs = !root->HasType<BSOrderedNode>();
	if (reorderChildRefs) {
		std::vector<uint32_t> newChildIndices;
		newChildIndices.reserve(childIndices.size());

		NiBlockRefArray<NiAVObject> newChildRefs;

		if (hdr.GetVersion().IsOB() || hdr.GetVersion().IsFO3()) {
			// Order for OB/FO3:
			// 1. Nodes with children
			// 2. Shapes
			// 3. other

			// Add nodes with children
			for (auto& index : childIndices) {
				auto node = hdr.GetBlock<NiNode>(index);
				if (node && node->childRefs.GetSize() > 0) {
					newChildIndices.push_back(index);
					newChildRefs.AddBlockRef(index);
				}
			}

			// Add shapes
			std::vector<uint32_t> shapeIndices;
			for (auto& index : childIndices) {
				auto shape = hdr.GetBlock<NiShape>(index);
				if (shape)
					shapeIndices.push_back(index);
			}

			if (isRootNode) {
				// Reorder shapes on root node if order is provided
				if (sortState.rootShapeOrder.size() == shapeIndices.size()
					&& std::is_permutation(sortState.rootShapeOrder.begin(), sortState.rootShapeOrder.end(), shapeIndices.begin())) {
					std::vector<uint32_t> newShapeIndices(shapeIndices.size());
					for (size_t si = 0; si < sortState.rootShapeOrder.size(); si++) {
						auto it = find(shapeIndices, sortState.rootShapeOrder[si]);
						if (it != shapeIndices.end())
							newShapeIndices[si] = shapeIndices[std::distance(shapeIndices.begin(), it)];
					}
					shapeIndices = newShapeIndices;
				}
			}

			for (auto& index : shapeIndices) {
				newChildIndices.push_back(index);
				newChildRefs.AddBlockRef(index);
			}
		}
		else {
			// Order:
			// 1. Nodes
			// 2. Shapes
			// 3. other

			// Add nodes
			for (auto& index : childIndices) {
				auto node = hdr.GetBlock<NiNode>(index);
				if (node) {
					newChildIndices.push_back(index);
					newChildRefs.AddBlockRef(index);
				}
			}

			// Add shapes
			std::vector<uint32_t> shapeIndices;
			for (auto& index : childIndices) {
				auto shape = hdr.GetBlock<NiShape>(index);
				if (shape)
					shapeIndices.push_back(index);
			}

			if (isRootNode) {
				// Reorder shapes on root node if order is provided
				if (sortState.rootShapeOrder.size() == shapeIndices.size()
					&& std::is_permutation(sortState.rootShapeOrder.begin(), sortState.rootShapeOrder.end(), shapeIndices.begin())) {
					std::vector<uint32_t> newShapeIndices(shapeIndices.size());
					for (size_t si = 0; si < sortState.rootShapeOrder.size(); si++) {
						auto it = find(shapeIndices, sortState.rootShapeOrder[si]);
						if (it != shapeIndices.end())
							newShapeIndices[si] = shapeIndices[std::distance(shapeIndices.begin(), it)];
					}
					shapeIndices = newShapeIndices;
				}
			}

			for (auto& index : shapeIndices) {
				newChildIndices.push_back(index);
				newChildRefs.AddBlockRef(index);
			}
		}

		// Add missing others
		for (auto& index : childIndices) {
			if (!contains(newChildIndices, index)) {
				auto obj = hdr.GetBlock<NiObject>(index);
				if (obj) {
					newChildIndices.push_back(index);
					newChildRefs.AddBlockRef(index);
				}
			}
		}

		// Add empty refs
		for (auto& index : childIndices) {
			if (index == NIF_NPOS) {
				newChildIndices.push_back(index);
				newChildRefs.AddBlockRef(index);
			}
		}

		// Assign child ref array with new order
		root->childRefs = newChildRefs;
	}

	std::vector<uint32_t> remainingChildIndices;
	root->GetChildIndices(remainingChildIndices);

	// Sort remaining children
	for (auto& child : remainingChildIndices)
		SetSortIndices(child, sortState);
}

void NifFile::PrettySortBlocks() {
	if (hasUnknown)
		return;

	SortState sortState{};
	sortState.newIndices.resize(hdr.GetNumBlocks());
	for (size_t i = 0; i < sortState.newIndices.size(); i++)
		sortState.newIndices[i] = static_cast<uint32_t>(i);

	if (sortState.newIndices.empty())
		return;

	for (auto& node : GetNodes()) {
		auto parentNode = GetParentNode(node);
		if (!parentNode) {
			// No parent, node is at the root level
			SetSortIndices(GetBlockID(node), sortState);
		}
	}

	for (size_t i = 0; i < sortState.newIndices.size(); i++) {
		uint32_t index = static_cast<uint32_t>(i);
		if (sortState.visitedIndices.count(index) == 0) {
			sortState.newIndices[i] = sortState.newIndex++;
			sortState.visitedIndices.insert(index);
		}
	}

	hdr.SetBlockOrder(sortState.newIndices);
}

void NifFile::FixBSXFlags() {
	auto bsx = FindBlockByName<BSXFlags>("BSX");
	if (bsx) {
		if (bsx->integerData & BSX_EXTERNAL_EMITTANCE) {
			// BSXFlags external emittance = on. Check if any shaders require that.
			bool flagUnnecessary = true;

			for (auto& block : blocks) {
				auto bssp = dynamic_cast<BSShaderProperty*>(block.get());
				if (bssp) {
					if (bssp->shaderFlags1 & SLSF1_EXTERNAL_EMITTANCE) { // Same flag in SK and FO4
						flagUnnecessary = false;
						break;
					}
				}
			}

			if (flagUnnecessary)
			{
				// Unset unnecessary external emittance flag on BSXFlags
				bsx->integerData &= (~BSX_EXTERNAL_EMITTANCE);
			}
		}
		else {
			// BSXFlags external emittance = off. Check if any shaders have it set regardless.
			bool flagMissing = false;

			for (auto& block : blocks) {
				auto bssp = dynamic_cast<BSShaderProperty*>(block.get());
				if (bssp) {
					if (bssp->shaderFlags1 & SLSF1_EXTERNAL_EMITTANCE) { // Same flag in SK and FO4
						flagMissing = true;
						break;
					}
				}
			}

			if (flagMissing)
			{
				// Set missing external emittance flag on BSXFlags
				bsx->integerData |= BSX_EXTERNAL_EMITTANCE;
			}
		}
	}
}

void NifFile::FixShaderFlags() {
	for (auto& block : blocks) {
		auto bslsp = dynamic_cast<BSLightingShaderProperty*>(block.get());
		if (bslsp) {
			if (bslsp->bslspShaderType != BSLSP_ENVMAP && (bslsp->shaderFlags1 & SLSF1_ENVIRONMENT_MAPPING)) { // Same flag in SK and FO4
				// Shader is no environment shader, remove unused shader flag
				bslsp->shaderFlags1 &= (~SLSF1_ENVIRONMENT_MAPPING);
			}
			else if (bslsp->bslspShaderType == BSLSP_ENVMAP && !(bslsp->shaderFlags1 & SLSF1_ENVIRONMENT_MAPPING)) { // Same flag in SK and FO4
				// Shader is environment shader, add missing shader flag
				bslsp->shaderFlags1 |= SLSF1_ENVIRONMENT_MAPPING;
			}
		}
	}
}

bool NifFile::DeleteUnreferencedNodes(int* deletionCount) {
	if (hasUnknown)
		return false;

	auto root = GetRootNode();
	if (!root)
		return false;

	for (auto& node : GetNodes()) {
		if (node == root)
			continue;

		uint32_t blockId = GetBlockID(node);
		if (blockId == NIF_NPOS)
			continue;

		if (!CanDeleteNode(node))
			continue;

		if (hdr.GetBlockRefCount(blockId) < 2) {
			hdr.DeleteBlock(blockId);

			if (deletionCount)
				(*deletionCount)++;

			// Deleting a block can cause others to become unreferenced
			return DeleteUnreferencedNodes(deletionCount);
		}
	}

	return true;
}

NiNode* NifFile::AddNode(const std::string& nodeName, const MatTransform& xformToParent, NiNode* parent) {
	if (!parent)
		parent = GetRootNode();
	if (!parent)
		return nullptr;

	auto newNode = std::make_unique<NiNode>();
	newNode->name.get() = nodeName;
	newNode->SetTransformToParent(xformToParent);

	uint32_t newNodeId = hdr.AddBlock(std::move(newNode));
	if (newNodeId != NIF_NPOS)
		parent->childRefs.AddBlockRef(newNodeId);

	return hdr.GetBlockUnsafe<NiNode>(newNodeId);
}

void NifFile::DeleteNode(const std::string& nodeName) {
	hdr.DeleteBlock(GetBlockID(FindBlockByName<NiNode>(nodeName)));
}

bool NifFile::CanDeleteNode(NiNode* node) {
	if (!node)
		return false;

	std::set<NiRef*> refs;
	node->GetChildRefs(refs);

	// Only delete if the node has no child refs
	return std::all_of(refs.cbegin(), refs.cend(), [](auto&& ref) { return ref->IsEmpty(); });
}

bool NifFile::CanDeleteNode(const std::string& nodeName) const {
	auto node = FindBlockByName<NiNode>(nodeName);
	return CanDeleteNode(node);
}

std::string NifFile::GetNodeName(const uint32_t blockID) const {
	std::string name;

	auto n = hdr.GetBlock<NiNode>(blockID);
	if (n) {
		name = n->name.get();
		if (name.empty())
			name = "_unnamed_";
	}

	return name;
}

void NifFile::SetNodeName(const uint32_t blockID, const std::string& newName) {
	auto node = hdr.GetBlock<NiNode>(blockID);
	if (!node)
		return;

	node->name.get() = newName;
}

uint32_t NifFile::AssignExtraData(NiAVObject* target, std::unique_ptr<NiExtraData> extraData) {
	uint32_t extraDataId = hdr.AddBlock(std::move(extraData));
	target->extraDataRefs.AddBlockRef(extraDataId);
	return extraDataId;
}

NiShader* NifFile::GetShader(NiShape* shape) const {
	auto shader = hdr.GetBlock<NiShader>(shape->ShaderPropertyRef());
	if (shader)
		return shader;

	for (auto& prop : shape->propertyRefs) {
		auto shaderProp = hdr.GetBlock<NiShader>(prop);
		if (shaderProp) {
			shader = shaderProp;

			// Only return NiMaterialProperty if no other shader blocks are found
			if (!shaderProp->HasType<NiMaterialProperty>())
				return shaderProp;
		}
	}

	return shader;
}

NiMaterialProperty* NifFile::GetMaterialProperty(NiShape* shape) const {
	for (auto& prop : shape->propertyRefs) {
		auto material = hdr.GetBlock<NiMaterialProperty>(prop);
		if (material)
			return material;
	}

	return nullptr;
}

NiStencilProperty* NifFile::GetStencilProperty(NiShape* shape) const {
	for (auto& prop : shape->propertyRefs) {
		auto stencil = hdr.GetBlock<NiStencilProperty>(prop);
		if (stencil)
			return stencil;
	}

	return nullptr;
}

NiTexturingProperty* NifFile::GetTexturingProperty(NiShape* shape) const {
	for (auto& prop : shape->propertyRefs) {
		auto texturingProp = hdr.GetBlock<NiTexturingProperty>(prop);
		if (texturingProp)
			return texturingProp;
	}

	return nullptr;
}


NiGeometryData* NifFile::GetGeometryData(NiShape* shape) const {
	if (shape->HasType<NiTriBasedGeom>()) {
		return hdr.GetBlock<NiGeometryData>(shape->DataRef());
	}
	else if (shape->HasType<BSGeometry>()) {
		return static_cast<BSGeometry*>(shape)->GetGeomData();
	}
	return nullptr;
}

std::vector<std::reference_wrapper<std::string>> NifFile::GetExternalGeometryPathRefs(NiShape* shape) const {
	std::vector<std::reference_wrapper<std::string>> meshPaths;
	auto bsgeo = dynamic_cast<BSGeometry*>(shape);
	if (bsgeo) {
		for (uint8_t i = 0; i < bsgeo->MeshCount(); i++) {
			auto mesh = bsgeo->SelectMesh(i);
			meshPaths.push_back(mesh->meshName.get());
			bsgeo->ReleaseMesh();
		}
	}
	return meshPaths;
}

bool NifFile::LoadExternalShapeData(NiShape* shape, std::istream& infile, uint8_t shapeIndex) {
	auto bsgeo = dynamic_cast<BSGeometry*>(shape);
	if (bsgeo && (shapeIndex < bsgeo->MeshCount())) {
		NiIStream meshStream(&infile, nullptr);
		NiStreamReversible s(&meshStream, nullptr, NiStreamReversible::Mode::Reading);
		auto mesh = bsgeo->SelectMesh(shapeIndex);
		mesh->meshData.Sync(s);
		bsgeo->ReleaseMesh();
	}
	return true;
}

bool NifFile::SaveExternalShapeData(NiShape* shape, std::ostream& outfile, uint8_t shapeIndex) {
	auto bsgeo = dynamic_cast<BSGeometry*>(shape);
	if (bsgeo && (shapeIndex < bsgeo->MeshCount())) {
		NiOStream meshStream(&outfile, nullptr);
		NiStreamReversible s(nullptr, &meshStream,NiStreamReversible::Mode::Reading);
		auto mesh = bsgeo->SelectMesh(shapeIndex);
		mesh->Sync(s);
		bsgeo->ReleaseMesh();
	}
	return true;
}


std::vector<std::reference_wrapper<std::string>> NifFile::GetTexturePathRefs(NiShape* shape) const {
	std::vector<std::reference_wrapper<std::string>> texturePaths;

	auto shader = GetShader(shape);
	if (shader) {
		auto textureSet = hdr.GetBlock(shader->TextureSetRef());
		if (textureSet) {
			for (auto& t : textureSet->textures)
				texturePaths.push_back(t.get());
		}

		auto effectShader = dynamic_cast<BSEffectShaderProperty*>(shader);
		if (effectShader) {
			texturePaths.push_back(effectShader->sourceTexture.get());
			texturePaths.push_back(effectShader->normalTexture.get());
			texturePaths.push_back(effectShader->greyscaleTexture.get());
			texturePaths.push_back(effectShader->envMapTexture.get());
			texturePaths.push_back(effectShader->envMaskTexture.get());
		}
	}

	// Get texture path from referenced NiSourceTexture block
	auto pushSourceTexturePath = [&hdr = hdr, &texturePaths](const NiBlockRef<NiSourceTexture>& sourceRef) {
		auto sourceTexture = hdr.GetBlock(sourceRef);
		if (sourceTexture)
			texturePaths.push_back(sourceTexture->fileName.get());
	};

	// NiTexturingProperty and NiSourceTexture for OB
	auto texturingProp = GetTexturingProperty(shape);
	if (texturingProp) {
		if (texturingProp->hasBaseTex)
			pushSourceTexturePath(texturingProp->baseTex.sourceRef);

		if (texturingProp->hasDarkTex)
			pushSourceTexturePath(texturingProp->darkTex.sourceRef);

		if (texturingProp->hasDetailTex)
			pushSourceTexturePath(texturingProp->detailTex.sourceRef);

		if (texturingProp->hasGlossTex)
			pushSourceTexturePath(texturingProp->glossTex.sourceRef);

		if (texturingProp->hasGlowTex)
			pushSourceTexturePath(texturingProp->glowTex.sourceRef);

		if (texturingProp->hasBumpTex)
			pushSourceTexturePath(texturingProp->bumpTex.sourceRef);

		if (texturingProp->hasDecalTex0)
			pushSourceTexturePath(texturingProp->decalTex0.sourceRef);

		if (texturingProp->hasDecalTex1)
			pushSourceTexturePath(texturingProp->decalTex1.sourceRef);

		if (texturingProp->hasDecalTex2)
			pushSourceTexturePath(texturingProp->decalTex2.sourceRef);

		if (texturingProp->hasDecalTex3)
			pushSourceTexturePath(texturingProp->decalTex3.sourceRef);
	}

	return texturePaths;
}

uint32_t NifFile::GetTextureSlot(NiShape* shape, std::string& outTexFile, uint32_t texIndex) const {
	outTexFile.clear();

	auto shader = GetShader(shape);
	if (shader) {
		auto textureSet = hdr.GetBlock(shader->TextureSetRef());
		if (textureSet && texIndex + 1 <= textureSet->textures.size()) {
			outTexFile = textureSet->textures[texIndex].get();
			return 1;
		}

		if (!textureSet) {
			auto effectShader = dynamic_cast<BSEffectShaderProperty*>(shader);
			if (effectShader) {
				switch (texIndex) {
					case 0: outTexFile = effectShader->sourceTexture.get(); break;
					case 1: outTexFile = effectShader->normalTexture.get(); break;
					case 3: outTexFile = effectShader->greyscaleTexture.get(); break;
					case 4: outTexFile = effectShader->envMapTexture.get(); break;
					case 5: outTexFile = effectShader->envMaskTexture.get(); break;
				}

				return 2;
			}
		}
	}

	// Get texture path from referenced NiSourceTexture block
	auto getSourceTexturePath = [&hdr = hdr](const NiBlockRef<NiSourceTexture>& sourceRef) -> std::string {
		auto sourceTexture = hdr.GetBlock(sourceRef);
		if (sourceTexture)
			return sourceTexture->fileName.get();

		return std::string();
	};

	// NiTexturingProperty and NiSourceTexture for OB
	auto texturingProp = GetTexturingProperty(shape);
	if (texturingProp && texturingProp->textureCount > texIndex) {
		switch (texIndex) {
			case 0:
				if (texturingProp->hasBaseTex)
					outTexFile = getSourceTexturePath(texturingProp->baseTex.sourceRef);
				break;
			case 1:
				if (texturingProp->hasDarkTex)
					outTexFile = getSourceTexturePath(texturingProp->darkTex.sourceRef);
				break;
			case 2:
				if (texturingProp->hasDetailTex)
					outTexFile = getSourceTexturePath(texturingProp->detailTex.sourceRef);
				break;
			case 3:
				if (texturingProp->hasGlossTex)
					outTexFile = getSourceTexturePath(texturingProp->glossTex.sourceRef);
				break;
			case 4:
				if (texturingProp->hasGlowTex)
					outTexFile = getSourceTexturePath(texturingProp->glowTex.sourceRef);
				break;
			case 5:
				if (texturingProp->hasBumpTex)
					outTexFile = getSourceTexturePath(texturingProp->bumpTex.sourceRef);
				break;
			case 6:
				if (texturingProp->hasDecalTex0)
					outTexFile = getSourceTexturePath(texturingProp->decalTex0.sourceRef);
				break;
			case 7:
				if (texturingProp->hasDecalTex1)
					outTexFile = getSourceTexturePath(texturingProp->decalTex1.sourceRef);
				break;
			case 8:
				if (texturingProp->hasDecalTex2)
					outTexFile = getSourceTexturePath(texturingProp->decalTex2.sourceRef);
				break;
			case 9:
				if (texturingProp->hasDecalTex3)
					outTexFile = getSourceTexturePath(texturingProp->decalTex3.sourceRef);
				break;
		}

		if (!outTexFile.empty())
			return 3;
	}

	return 0;
}

void NifFile::SetTextureSlot(NiShape* shape, std::string& inTexFile, uint32_t texIndex) {
	auto shader = GetShader(shape);
	if (shader) {
		auto textureSet = hdr.GetBlock(shader->TextureSetRef());
		if (textureSet && texIndex + 1 <= textureSet->textures.size()) {
			textureSet->textures[texIndex].get() = inTexFile;
			return;
		}

		if (!textureSet) {
			auto effectShader = dynamic_cast<BSEffectShaderProperty*>(shader);
			if (effectShader) {
				switch (texIndex) {
					case 0: effectShader->sourceTexture.get() = inTexFile; break;
					case 1: effectShader->normalTexture.get() = inTexFile; break;
					case 3: effectShader->greyscaleTexture.get() = inTexFile; break;
					case 4: effectShader->envMapTexture.get() = inTexFile; break;
					case 5: effectShader->envMaskTexture.get() = inTexFile; break;
				}
				return;
			}
		}
	}

	// Set texture path in referenced NiSourceTexture block
	auto setSourceTexturePath = [&hdr = hdr](const NiBlockRef<NiSourceTexture>& sourceRef,
											 const std::string& texturePath) {
		auto sourceTexture = hdr.GetBlock(sourceRef);
		if (sourceTexture)
			sourceTexture->fileName.get() = texturePath;
	};

	// NiTexturingProperty and NiSourceTexture for OB
	auto texturingProp = GetTexturingProperty(shape);
	if (texturingProp) {
		texturingProp->textureCount = texIndex + 1;

		switch (texIndex) {
			case 0:
				texturingProp->hasBaseTex = true;
				setSourceTexturePath(texturingProp->baseTex.sourceRef, inTexFile);
				break;
			case 1:
				texturingProp->hasDarkTex = true;
				setSourceTexturePath(texturingProp->darkTex.sourceRef, inTexFile);
				break;
			case 2:
				texturingProp->hasDetailTex = true;
				setSourceTexturePath(texturingProp->detailTex.sourceRef, inTexFile);
				break;
			case 3:
				texturingProp->hasGlossTex = true;
				setSourceTexturePath(texturingProp->glossTex.sourceRef, inTexFile);
				break;
			case 4:
				texturingProp->hasGlowTex = true;
				setSourceTexturePath(texturingProp->glowTex.sourceRef, inTexFile);
				break;
			case 5:
				texturingProp->hasBumpTex = true;
				setSourceTexturePath(texturingProp->bumpTex.sourceRef, inTexFile);
				break;
			case 6:
				texturingProp->hasDecalTex0 = true;
				setSourceTexturePath(texturingProp->decalTex0.sourceRef, inTexFile);
				break;
			case 7:
				texturingProp->hasDecalTex1 = true;
				setSourceTexturePath(texturingProp->decalTex1.sourceRef, inTexFile);
				break;
			case 8:
				texturingProp->hasDecalTex2 = true;
				setSourceTexturePath(texturingProp->decalTex2.sourceRef, inTexFile);
				break;
			case 9:
				texturingProp->hasDecalTex3 = true;
				setSourceTexturePath(texturingProp->decalTex3.sourceRef, inTexFile);
				break;
		}
	}
}

void NifFile::TrimTexturePaths() {
	auto fTrimPath = [&hdr = hdr, &isTerrain = isTerrain](std::string& tex) -> std::string& {
		if (tex.empty())
			return tex;

		// Trim whitespace characters (including newlines)
		trim_whitespace(tex);

		if (tex.empty())
			return tex;

		// Replace multiple slashes or forward slashes with one backslash
		tex = std::regex_replace(tex, std::regex("[/\\\\]+"), "\\");

		// Search for the first occurrence of "\textures\" (only if "textures\" isn't at the start)
		std::smatch match;
		std::regex pattern(R"(^(?!textures\\).*?\\textures\\)", std::regex_constants::icase);
	
		if (std::regex_search(tex, match, pattern))
			tex = tex.substr(match[0].length()); // Remove matched string

		// Remove all backslashes from the front
		tex = std::regex_replace(tex, std::regex("^\\\\+"), "");

		if (!hdr.GetVersion().IsOB() && !hdr.GetVersion().IsSpecial() && is_relative_path(tex)) {
			// If the path doesn't start with "textures\", add it to the front
			tex = std::regex_replace(tex,
									 std::regex("^(?!^textures\\\\)", std::regex_constants::icase),
									 "textures\\");
		}

		// If the path doesn't start with "Data\", add it to the front
		if (isTerrain && is_relative_path(tex)) {
			tex = std::regex_replace(tex, std::regex("^(?!^Data\\\\)", std::regex_constants::icase), "Data\\");
		}
		return tex;
	};

	// Trim texture path in referenced NiSourceTexture block
	auto trimSourceTexturePath = [&hdr = hdr,
								  &fTrimPath = fTrimPath](const NiBlockRef<NiSourceTexture>& sourceRef) {
		auto sourceTexture = hdr.GetBlock(sourceRef);
		if (sourceTexture) {
			std::string tex = sourceTexture->fileName.get();
			sourceTexture->fileName.get() = fTrimPath(tex);
		}
	};

	for (auto& shape : GetShapes()) {
		auto shader = GetShader(shape);
		if (shader) {
			auto textureSet = hdr.GetBlock(shader->TextureSetRef());
			if (textureSet) {
				for (auto& i : textureSet->textures) {
					std::string tex = i.get();
					i.get() = fTrimPath(tex);
				}
			}

			// BSEffectShaderProperty has no texture set, its paths are stored in the shader itself
			auto effectShader = dynamic_cast<BSEffectShaderProperty*>(shader);
			if (effectShader) {
				std::string tex = effectShader->sourceTexture.get();
				effectShader->sourceTexture.get() = fTrimPath(tex);

				tex = effectShader->normalTexture.get();
				effectShader->normalTexture.get() = fTrimPath(tex);

				tex = effectShader->greyscaleTexture.get();
				effectShader->greyscaleTexture.get() = fTrimPath(tex);

				tex = effectShader->envMapTexture.get();
				effectShader->envMapTexture.get() = fTrimPath(tex);

				tex = effectShader->envMaskTexture.get();
				effectShader->envMaskTexture.get() = fTrimPath(tex);
			}
		}

		// NiTexturingProperty and NiSourceTexture for OB
		auto texturingProp = GetTexturingProperty(shape);
		if (texturingProp) {
			if (texturingProp->hasBaseTex)
				trimSourceTexturePath(texturingProp->baseTex.sourceRef);
			if (texturingProp->hasDarkTex)
				trimSourceTexturePath(texturingProp->darkTex.sourceRef);
			if (texturingProp->hasDetailTex)
				trimSourceTexturePath(texturingProp->detailTex.sourceRef);
			if (texturingProp->hasGlossTex)
				trimSourceTexturePath(texturingProp->glossTex.sourceRef);
			if (texturingProp->hasGlowTex)
				trimSourceTexturePath(texturingProp->glowTex.sourceRef);
			if (texturingProp->hasBumpTex)
				trimSourceTexturePath(texturingProp->bumpTex.sourceRef);
			if (texturingProp->hasDecalTex0)
				trimSourceTexturePath(texturingProp->decalTex0.sourceRef);
			if (texturingProp->hasDecalTex1)
				trimSourceTexturePath(texturingProp->decalTex1.sourceRef);
			if (texturingProp->hasDecalTex2)
				trimSourceTexturePath(texturingProp->decalTex2.sourceRef);
			if (texturingProp->hasDecalTex3)
				trimSourceTexturePath(texturingProp->decalTex3.sourceRef);
		}
	}
}

void NifFile::CloneChildren(NiObject* block, NifFile* srcNif) {
	if (!srcNif)
		srcNif = this;

	// Assign new refs and strings, rebind ptrs where possible
	std::function<void(NiObject*, uint32_t, uint32_t)> cloneBlock =
		[&](NiObject* b, uint32_t parentOldId, uint32_t parentNewId) -> void {
		std::set<NiRef*> refs;
		b->GetChildRefs(refs);

		for (auto& r : refs) {
			auto srcChild = srcNif->hdr.GetBlock<NiObject>(r);
			if (srcChild) {
				auto destChildS = srcChild->Clone();
				auto destChild = destChildS.get();
				uint32_t destId = hdr.AddBlock(std::move(destChildS));

				uint32_t oldId = r->index;
				r->index = destId;

				std::vector<NiStringRef*> strRefs;
				destChild->GetStringRefs(strRefs);

				for (auto& str : strRefs) {
					int strId = hdr.AddOrFindStringId(str->get());
					str->SetIndex(strId);
				}

				if (parentOldId != NIF_NPOS) {
					std::set<NiRef*> ptrs;
					destChild->GetPtrs(ptrs);

					for (auto& p : ptrs)
						if (p->index == parentOldId)
							p->index = parentNewId;

					cloneBlock(destChild, parentOldId, parentNewId);
				}
				else
					cloneBlock(destChild, oldId, destId);
			}
		}
	};

	cloneBlock(block, NIF_NPOS, NIF_NPOS);
}

NiShape* NifFile::CloneShape(NiShape* srcShape, const std::string& destShapeName, NifFile* srcNif) {
	if (!srcNif)
		srcNif = this;

	if (!srcShape)
		return nullptr;

	auto rootNode = GetRootNode();
	auto srcRootNode = srcNif->GetRootNode();

	// Geometry
	auto destShapeS = srcShape->Clone();
	auto destShape = destShapeS.get();
	destShape->name.get() = destShapeName;

	int destId = hdr.AddBlock(std::move(destShapeS));
	if (srcNif == this) {
		// Assign copied geometry to the same parent
		auto parentNode = GetParentNode(srcShape);
		if (parentNode)
			parentNode->childRefs.AddBlockRef(destId);
	}
	else if (rootNode)
		rootNode->childRefs.AddBlockRef(destId);

	// Children
	CloneChildren(destShape, srcNif);

	// Geometry Data
	auto destGeomData = hdr.GetBlock<NiTriBasedGeomData>(destShape->DataRef());
	if (destGeomData)
		destShape->SetGeomData(destGeomData);

	// Shader
	auto destShader = GetShader(destShape);
	if (destShader) {
		if (hdr.GetVersion().IsSK() || hdr.GetVersion().IsSSE()) {
			// Kill normals and tangents
			if (destShader->IsModelSpace()) {
				destShape->SetNormals(false);
				destShape->SetTangents(false);
			}
		}
	}

	// Bones
	std::vector<std::string> srcBoneList;
	srcNif->GetShapeBoneList(srcShape, srcBoneList);

	auto destBoneCont = hdr.GetBlock(destShape->SkinInstanceRef());
	if (destBoneCont) {
		destBoneCont->boneRefs.Clear();

		if (srcNif != this) {
			// The skeleton root pointer still holds a block index of the source file
			uint32_t rootId = GetBlockID(rootNode);
			if (auto skinInst = dynamic_cast<NiSkinInstance*>(destBoneCont))
				skinInst->targetRef.index = rootId;
			else if (auto bsSkinInst = dynamic_cast<BSSkinInstance*>(destBoneCont))
				bsSkinInst->targetRef.index = rootId;
		}
	}

	if (rootNode && srcRootNode) {
		std::function<void(NiNode*)> cloneNodes = [&](NiNode* srcNode) -> void {
			std::string boneName = srcNode->name.get();

			// Insert as root child by default
			NiNode* nodeParent = rootNode;

			// Look for existing node to use as parent instead
			auto srcNodeParent = srcNif->GetParentNode(srcNode);
			if (srcNodeParent) {
				auto parent = FindBlockByName<NiNode>(srcNodeParent->name.get());
				if (parent)
					nodeParent = parent;
			}

			auto node = FindBlockByName<NiNode>(boneName);
			uint32_t boneID = GetBlockID(node);
			if (!node) {
				// Clone missing node into the right parent
				boneID = CloneNamedNode(boneName, srcNif);
				nodeParent->childRefs.AddBlockRef(boneID);
			}
			else {
				// Move existing node to non-root parent
				auto oldParent = GetParentNode(node);
				if (oldParent && oldParent != nodeParent && nodeParent != rootNode) {
					MatTransform xformToParent;
					srcNif->GetNodeTransformToParent(boneName, xformToParent);

					std::set<NiRef*> childRefs;
					oldParent->GetChildRefs(childRefs);
					for (auto& ref : childRefs)
						if (ref->index == boneID)
							ref->Clear();

					nodeParent->childRefs.AddBlockRef(boneID);
					SetNodeTransformToParent(boneName, xformToParent);
				}
			}

			// Recurse children
			for (auto& child : srcNode->childRefs) {
				auto childNode = srcNif->hdr.GetBlock<NiNode>(child);
				if (childNode)
					cloneNodes(childNode);
			}
		};

		for (auto& child : srcRootNode->childRefs) {
			auto srcChildNode = srcNif->hdr.GetBlock<NiNode>(child);
			if (srcChildNode)
				cloneNodes(srcChildNode);
		}
	}

	// Add bones to container if used in skin
	if (destBoneCont) {
		for (auto& boneName : srcBoneList) {
			auto node = FindBlockByName<NiNode>(boneName);
			int boneID = GetBlockID(node);
			if (node)
				destBoneCont->boneRefs.AddBlockRef(boneID);
		}
	}
	return destShape;
}

uint32_t NifFile::CloneNamedNode(const std::string& nodeName, NifFile* srcNif) {
	if (!srcNif)
		srcNif = this;

	auto srcNode = srcNif->FindBlockByName<NiNode>(nodeName);
	if (!srcNode)
		return NIF_NPOS;

	auto destNode = srcNode->Clone();
	destNode->name.get() = nodeName;
	destNode->collisionRef.Clear();
	destNode->controllerRef.Clear();
	destNode->childRefs.Clear();
	destNode->effectRefs.Clear();

	return hdr.AddBlock(std::move(destNode));
}

int NifFile::Save(const std::filesystem::path& fileName, const NifSaveOptions& options) {
	std::ofstream file(fileName, std::ios::out | std::ios::binary);
	return Save(file, options);
}

int NifFile::Save(std::ostream& file, const NifSaveOptions& options) {
	// Nothing was loaded or created (or loading failed): the header refers to no block list
	if (!isValid)
		return 1;

	if (file) {
		NiOStream stream(&file, &hdr);
		FinalizeData();

		if (options.optimize) {
			Optimize();

			// Strings of blocks that were just pruned must not stay in the string table
			hdr.UpdateHeaderStrings(hasUnknown);
		}

		if (options.sortBlocks)
			PrettySortBlocks();

		hdr.Put(stream);
		stream.InitBlockSize();

		// Retrieve block sizes from NiStream while writing
		std::vector<std::streamsize> blockSizes(hdr.GetNumBlocks());
		for (uint32_t i = 0; i < hdr.GetNumBlocks(); i++) {
			blocks[i]->Put(stream);
			blockSizes[i] = stream.GetBlockSize();
			stream.InitBlockSize();
		}

		uint32_t endPad = 1;
		stream << endPad;
		endPad = 0;
		stream << endPad;

		// Get previous stream pos of block size array and overwrite
		std::streampos blockSizePos = hdr.GetBlockSizeStreamPos();
		if (blockSizePos != std::streampos()) {
			file.seekp(blockSizePos);

			for (uint32_t i = 0; i < hdr.GetNumBlocks(); i++)
				stream << static_cast<uint32_t>(blockSizes[i]);

			hdr.ResetBlockSizeStreamPos();
		}
	}
	else
		return 1;

	return 0;
}

void NifFile::Optimize() {
	for (auto& s : GetShapes())
		s->UpdateBounds();

	DeleteUnreferencedBlocks();
}

OptResult NifFile::OptimizeFor(OptOptions& options) {
	OptResult result;

	const bool toSSE = options.targetVersion.IsSSE() && hdr.GetVersion().IsSK();
	const bool toLE = options.targetVersion.IsSK() && hdr.GetVersion().IsSSE();

	if (!toSSE && !toLE) {
		result.versionMismatch = true;
		return result;
	}

	if (!isTerrain)
		result.dupesRenamed = RenameDuplicateShapes();

	hdr.SetVersion(options.targetVersion);

	auto shapes = GetShapes();
	if (toSSE) {
		for (auto* shape : shapes) {
			std::string shapeName = shape->name.get();

			auto geomData = hdr.GetBlock<NiGeometryData>(shape->DataRef());

			if (!geomData)
				continue;

			bool removeVertexColors = true;
			bool hasTangents = geomData->HasTangents();
			std::vector<Vector3>* vertices = &geomData->vertices;
			std::vector<Vector3>* normals = &geomData->normals;
			const std::vector<Color4>& colors = geomData->vertexColors;
			std::vector<Vector2>* uvs = nullptr;
			if (!geomData->uvSets.empty())
				uvs = &geomData->uvSets[0];

			std::vector<Triangle> triangles;
			geomData->GetTriangles(triangles);

			if (!options.removeParallax)
				removeVertexColors = false;

			// Only remove vertex colors if all are 0xFFFFFFFF
			if (removeVertexColors) {
				Color4 white(1.0f, 1.0f, 1.0f, 1.0f);
				for (auto& c : colors) {
					if (white != c) {
						removeVertexColors = false;
						break;
					}
				}
			}

			bool headPartEyes = false;
			NiShader* shader = GetShader(shape);
			if (shader) {
				auto bslsp = dynamic_cast<BSLightingShaderProperty*>(shader);
				if (bslsp) {
					// Remember eyes flag for later
					if ((bslsp->shaderFlags1 & (1 << 17)) != 0)
						headPartEyes = true;

					// No normals and tangents with model space maps
					if (bslsp->IsModelSpace()) {
						if (!normals->empty())
							result.shapesNormalsRemoved.push_back(shapeName);

						normals = nullptr;
					}

					// Check tree anim flag
					if ((bslsp->shaderFlags2 & (1 << 29)) != 0)
						removeVertexColors = false;

					// Disable flags if vertex colors were removed
					if (removeVertexColors) {
						bslsp->SetVertexColors(false);
						bslsp->SetVertexAlpha(false);
					}

					if (options.removeParallax) {
						if (bslsp->GetShaderType() == BSLSP_PARALLAX) {
							// Change type from parallax to default
							bslsp->SetShaderType(BSLSP_DEFAULT);

							// Remove parallax flag
							bslsp->shaderFlags1 &= ~(1 << 11);

							// Remove parallax texture from set
							auto textureSet = hdr.GetBlock(shader->TextureSetRef());
							if (textureSet && textureSet->textures.size() >= 4)
								textureSet->textures[3].clear();

							result.shapesParallaxRemoved.push_back(shapeName);
						}
					}
				}

				auto bsesp = dynamic_cast<BSEffectShaderProperty*>(shader);
				if (bsesp) {
					// Remember eyes flag for later
					if ((bsesp->shaderFlags1 & (1 << 17)) != 0)
						headPartEyes = true;

					// Check tree anim flag
					if ((bsesp->shaderFlags2 & (1 << 29)) != 0)
						removeVertexColors = false;

					// Disable flags if vertex colors were removed
					if (removeVertexColors) {
						bsesp->SetVertexColors(false);
						bsesp->SetVertexAlpha(false);
					}
				}
			}

			if (!colors.empty() && removeVertexColors)
				result.shapesVColorsRemoved.push_back(shapeName);

			std::unique_ptr<BSTriShape> bsOptShape = nullptr;

			auto bsSegmentShape = dynamic_cast<BSSegmentedTriShape*>(shape);
			if (bsSegmentShape) {
				bsOptShape = std::make_unique<BSSubIndexTriShape>();
			}
			else {
				if (options.headParts)
					bsOptShape = std::make_unique<BSDynamicTriShape>();
				else
					bsOptShape = std::make_unique<BSTriShape>();
			}

			bsOptShape->name.get() = shape->name.get();
			bsOptShape->controllerRef = shape->controllerRef;

			if (shape->HasSkinInstance())
				bsOptShape->SkinInstanceRef()->index = shape->SkinInstanceRef()->index;

			if (shape->HasShaderProperty())
				bsOptShape->ShaderPropertyRef()->index = shape->ShaderPropertyRef()->index;

			if (shape->HasAlphaProperty())
				bsOptShape->AlphaPropertyRef()->index = shape->AlphaPropertyRef()->index;

			bsOptShape->collisionRef = shape->collisionRef;
			bsOptShape->propertyRefs = shape->propertyRefs;
			bsOptShape->extraDataRefs = shape->extraDataRefs;

			bsOptShape->SetTransformToParent(shape->GetTransformToParent());

			bsOptShape->Create(hdr.GetVersion(), vertices, &triangles, uvs, normals);
			bsOptShape->flags = shape->flags;

			// Move segments to new shape
			if (bsSegmentShape) {
				auto bsSITS = static_cast<BSSubIndexTriShape*>(bsOptShape.get());
				bsSITS->SetSegments(bsSegmentShape->GetSegments());
			}

			// Restore old bounds for static meshes or when calc bounds is off
			if (!shape->IsSkinned() || !options.calcBounds)
				bsOptShape->SetBounds(geomData->GetBounds());

			// Vertex Colors
			if (bsOptShape->GetNumVertices() > 0) {
				if (!removeVertexColors && !colors.empty()) {
					bsOptShape->SetVertexColors(true);
					for (uint16_t i = 0; i < bsOptShape->GetNumVertices(); i++) {
						auto& vertex = bsOptShape->vertData[i];

						float f = std::max(0.0f, std::min(1.0f, colors[i].r));
						vertex.colorData[0] = static_cast<uint8_t>(std::floor(f == 1.0f ? 255 : f * 256.0));

						f = std::max(0.0f, std::min(1.0f, colors[i].g));
						vertex.colorData[1] = static_cast<uint8_t>(std::floor(f == 1.0f ? 255 : f * 256.0));

						f = std::max(0.0f, std::min(1.0f, colors[i].b));
						vertex.colorData[2] = static_cast<uint8_t>(std::floor(f == 1.0f ? 255 : f * 256.0));

						f = std::max(0.0f, std::min(1.0f, colors[i].a));
						vertex.colorData[3] = static_cast<uint8_t>(std::floor(f == 1.0f ? 255 : f * 256.0));
					}
				}

				// Find NiOptimizeKeep string
				for (auto& extraData : bsOptShape->extraDataRefs) {
					auto stringData = hdr.GetBlock<NiStringExtraData>(extraData);
					if (stringData) {
						if (stringData->stringData.get().find("NiOptimizeKeep") != std::string::npos) {
							bsOptShape->particleDataSize = bsOptShape->GetNumVertices() * 6
														   + static_cast<uint32_t>(triangles.size()) * 3;
							bsOptShape->particleVerts = *vertices;

							bsOptShape->particleNorms.resize(vertices->size(), Vector3(1.0f, 0.0f, 0.0f));
							if (normals && normals->size() == vertices->size())
								bsOptShape->particleNorms = *normals;

							bsOptShape->particleTris = triangles;
						}
					}
				}

				// Skinning and partitions
				if (shape->IsSkinned()) {
					bsOptShape->SetSkinned(true);

					auto skinInst = hdr.GetBlock<NiSkinInstance>(shape->SkinInstanceRef());
					if (skinInst) {
						auto skinPart = hdr.GetBlock(skinInst->skinPartitionRef);
						if (skinPart) {
							bool triangulated = skinPart->ConvertStripsToTriangles();
							if (triangulated)
								result.shapesPartTriangulated.push_back(shapeName);

							for (uint32_t partID = 0; partID < skinPart->numPartitions; partID++) {
								NiSkinPartition::PartitionBlock& part = skinPart->partitions[partID];

								for (uint32_t i = 0; i < part.numVertices; i++) {
									const uint16_t v = part.vertexMap[i];

									if (bsOptShape->vertData.size() > v) {
										auto& vertex = bsOptShape->vertData[v];

										if (part.hasVertexWeights) {
											auto& weights = part.vertexWeights[i];
											vertex.weights[0] = weights.w1;
											vertex.weights[1] = weights.w2;
											vertex.weights[2] = weights.w3;
											vertex.weights[3] = weights.w4;
										}

										if (part.hasBoneIndices) {
											// A partition can list fewer bones than its bone indices refer to
											auto partBone = [&part](const uint8_t boneIndex) {
												return boneIndex < part.bones.size() ? static_cast<uint8_t>(part.bones[boneIndex])
																					 : static_cast<uint8_t>(0);
											};

											auto& boneIndices = part.boneIndices[i];
											vertex.weightBones[0] = partBone(boneIndices.i1);
											vertex.weightBones[1] = partBone(boneIndices.i2);
											vertex.weightBones[2] = partBone(boneIndices.i3);
											vertex.weightBones[3] = partBone(boneIndices.i4);
										}
									}
								}

								part.GenerateTrueTrianglesFromMappedTriangles();
								part.triangles = part.trueTriangles;
							}
							skinPart->bMappedIndices = false;
						}
					}
				}
				else
					bsOptShape->SetSkinned(false);
			}
			else
				bsOptShape->SetVertices(false);

			// Check if tangents were added
			if (!hasTangents && bsOptShape->HasTangents())
				result.shapesTangentsAdded.push_back(shapeName);

			// Enable eye data flag
			if (!bsSegmentShape) {
				if (options.headParts) {
					if (headPartEyes)
						bsOptShape->SetEyeData(true);
				}
			}

			auto bsOptShapeObserver = bsOptShape.get();
			hdr.ReplaceBlock(GetBlockID(shape), std::move(bsOptShape));
			UpdateSkinPartitions(bsOptShapeObserver);
		}

		DeleteUnreferencedBlocks();

		// For files without a root node, remove the leftover data blocks anyway
		hdr.DeleteBlockByType("NiTriStripsData", true);
		hdr.DeleteBlockByType("NiTriShapeData", true);
	}
	else {
		for (auto* shape : shapes) {
			std::string shapeName = shape->name.get();

			auto bsTriShape = dynamic_cast<BSTriShape*>(shape);
			if (!bsTriShape)
				continue;

			bool removeVertexColors = true;
			bool removeNormals = false;
			bool hasTangents = bsTriShape->HasTangents();
			const std::vector<Vector3>& vertices = bsTriShape->UpdateRawVertices();
			const std::vector<Vector3>& normals = bsTriShape->UpdateRawNormals();
			const std::vector<Color4>& colors = bsTriShape->UpdateRawColors();
			const std::vector<Vector2>& uvs = bsTriShape->UpdateRawUvs();

			std::vector<Triangle> triangles;
			bsTriShape->GetTriangles(triangles);

			if (!options.removeParallax)
				removeVertexColors = false;

			// Only remove vertex colors if all are 0xFFFFFFFF
			if (bsTriShape->HasVertexColors() && removeVertexColors) {
				Color4 white(1.0f, 1.0f, 1.0f, 1.0f);
				for (auto& c : colors) {
					if (white != c) {
						removeVertexColors = false;
						break;
					}
				}
			}

			NiShader* shader = GetShader(shape);
			if (shader) {
				auto bslsp = dynamic_cast<BSLightingShaderProperty*>(shader);
				if (bslsp) {
					// No normals and tangents with model space maps
					if (bslsp->IsModelSpace()) {
						if (!normals.empty())
							result.shapesNormalsRemoved.push_back(shapeName);

						removeNormals = true;
					}

					// Check tree anim flag
					if ((bslsp->shaderFlags2 & (1 << 29)) != 0)
						removeVertexColors = false;

					// Disable flags if vertex colors were removed
					if (removeVertexColors) {
						bslsp->SetVertexColors(false);
						bslsp->SetVertexAlpha(false);
					}

					// this flag breaks LE headparts
					if (options.headParts) {
						bslsp->shaderFlags2 &= ~SLSF2_PACKED_TANGENT;
					}

					if (options.removeParallax) {
						if (bslsp->GetShaderType() == BSLSP_PARALLAX) {
							// Change type from parallax to default
							bslsp->SetShaderType(BSLSP_DEFAULT);

							// Remove parallax flag
							bslsp->shaderFlags1 &= ~(1 << 11);

							// Remove parallax texture from set
							auto textureSet = hdr.GetBlock(shader->TextureSetRef());
							if (textureSet && textureSet->textures.size() >= 4)
								textureSet->textures[3].clear();

							result.shapesParallaxRemoved.push_back(shapeName);
						}
					}
				}

				auto bsesp = dynamic_cast<BSEffectShaderProperty*>(shader);
				if (bsesp) {
					// Check tree anim flag
					if ((bsesp->shaderFlags2 & (1 << 29)) != 0)
						removeVertexColors = false;

					// Disable flags if vertex colors were removed
					if (removeVertexColors) {
						bsesp->SetVertexColors(false);
						bsesp->SetVertexAlpha(false);
					}
				}
			}

			if (!colors.empty() && removeVertexColors)
				result.shapesVColorsRemoved.push_back(shapeName);

			std::unique_ptr<NiTriShape> bsOptShape = nullptr;
			auto [bsOptShapeDataS, bsOptShapeData] = make_unique<NiTriShapeData>();
			auto bsSITS = dynamic_cast<BSSubIndexTriShape*>(shape);
			if (bsSITS)
				bsOptShape = std::make_unique<BSSegmentedTriShape>();
			else
				bsOptShape = std::make_unique<NiTriShape>();

			int dataId = hdr.AddBlock(std::move(bsOptShapeDataS));
			bsOptShape->DataRef()->index = dataId;
			bsOptShape->SetGeomData(bsOptShapeData);
			bsOptShapeData->Create(hdr.GetVersion(),
								   &vertices,
								   &triangles,
								   &uvs,
								   !removeNormals ? &normals : nullptr);

			bsOptShape->name.get() = shape->name.get();

			if (shape->HasSkinInstance())
				bsOptShape->SkinInstanceRef()->index = shape->SkinInstanceRef()->index;

			if (shape->HasShaderProperty())
				bsOptShape->ShaderPropertyRef()->index = shape->ShaderPropertyRef()->index;

			if (shape->HasAlphaProperty())
				bsOptShape->AlphaPropertyRef()->index = shape->AlphaPropertyRef()->index;

			bsOptShape->controllerRef = shape->controllerRef;
			bsOptShape->collisionRef = shape->collisionRef;
			bsOptShape->propertyRefs = shape->propertyRefs;
			bsOptShape->extraDataRefs = shape->extraDataRefs;

			bsOptShape->SetTransformToParent(shape->GetTransformToParent());
			bsOptShape->flags = shape->flags;

			// Move segments to new shape
			if (bsSITS) {
				auto bsSegmentShape = static_cast<BSSegmentedTriShape*>(bsOptShape.get());
				bsSegmentShape->SetSegments(bsSITS->GetSegments());
			}

			// Restore old bounds for static meshes or when calc bounds is off
			if (!shape->IsSkinned() || !options.calcBounds)
				bsOptShape->SetBounds(bsTriShape->GetBounds());

			// Vertex Colors
			if (bsOptShape->GetNumVertices() > 0) {
				if (!removeVertexColors && !colors.empty()) {
					bsOptShape->SetVertexColors(true);
					for (uint16_t i = 0; i < bsOptShape->GetNumVertices(); i++)
						bsOptShapeData->vertexColors[i] = colors[i];
				}

				// Skinning and partitions
				if (shape->IsSkinned()) {
					auto skinInst = hdr.GetBlock<NiSkinInstance>(shape->SkinInstanceRef());
					if (skinInst) {
						auto skinData = hdr.GetBlock(skinInst->dataRef);
						if (skinData && !skinData->hasVertWeights) {
							// The weights are only stored in the vertex data of the shape, LE reads them from NiSkinData
							for (auto& bone : skinData->bones) {
								bone.vertexWeights.clear();
								bone.numVertices = 0;
							}

							for (size_t vi = 0; vi < bsTriShape->vertData.size(); vi++) {
								auto& vertex = bsTriShape->vertData[vi];
								for (size_t wi = 0; wi < 4; wi++) {
									if (vertex.weights[wi] != 0.0f && vertex.weightBones[wi] < skinData->bones.size()) {
										auto& bone = skinData->bones[vertex.weightBones[wi]];
										bone.vertexWeights.emplace_back(static_cast<uint16_t>(vi), vertex.weights[wi]);
										bone.numVertices++;
									}
								}
							}

							skinData->hasVertWeights = 1;
						}

						auto skinPart = hdr.GetBlock(skinInst->skinPartitionRef);
						if (skinPart) {
							bool triangulated = skinPart->ConvertStripsToTriangles();
							if (triangulated)
								result.shapesPartTriangulated.push_back(shapeName);

							for (uint32_t partID = 0; partID < skinPart->numPartitions; partID++) {
								NiSkinPartition::PartitionBlock& part = skinPart->partitions[partID];

								part.GenerateMappedTrianglesFromTrueTrianglesAndVertexMap();
							}
							skinPart->bMappedIndices = true;
						}
					}
				}
			}
			else
				bsOptShape->SetVertices(false);

			// Check if tangents were added
			if (!hasTangents && bsOptShape->HasTangents())
				result.shapesTangentsAdded.push_back(shapeName);

			auto bsOptShapeObserver = bsOptShape.get();
			hdr.ReplaceBlock(GetBlockID(shape), std::move(bsOptShape));
			UpdateSkinPartitions(bsOptShapeObserver);
		}

		DeleteUnreferencedBlocks();
		PrettySortBlocks();
	}

	if (options.fixBSXFlags)
		FixBSXFlags();

	if (options.fixShaderFlags)
		FixShaderFlags();

	return result;
}

void NifFile::PrepareData() {
	hdr.FillStringRefs();
	LinkGeomData();
	TrimTexturePaths();

	for (auto& shape : GetShapes()) {
		// Move triangle and vertex data from partition to shape
		if (hdr.GetVersion().IsSSE()) {
			auto* bsTriShape = dynamic_cast<BSTriShape*>(shape);
			if (!bsTriShape)
				continue;

			auto skinInst = hdr.GetBlock<NiSkinInstance>(shape->SkinInstanceRef());
			if (!skinInst)
				continue;

			auto skinPart = hdr.GetBlock(skinInst->skinPartitionRef);
			if (!skinPart)
				continue;

			bsTriShape->SetVertexData(skinPart->vertData);

			std::vector<Triangle> tris;
			for (int pi = 0; pi < static_cast<int>(skinPart->partitions.size()); ++pi)
				for (auto& tri : skinPart->partitions[pi].trueTriangles) {
					tris.push_back(tri);
					skinPart->triParts.push_back(pi);
				}

			bsTriShape->SetTriangles(tris);

			auto dynamicShape = dynamic_cast<BSDynamicTriShape*>(bsTriShape);
			if (dynamicShape) {
				for (uint16_t i = 0; i < dynamicShape->GetNumVertices(); i++) {
					dynamicShape->vertData[i].vert.x = dynamicShape->dynamicData[i].x;
					dynamicShape->vertData[i].vert.y = dynamicShape->dynamicData[i].y;
					dynamicShape->vertData[i].vert.z = dynamicShape->dynamicData[i].z;
					dynamicShape->vertData[i].bitangentX = dynamicShape->dynamicData[i].w;
				}
			}
		}

		// Move tangents and bitangents from binary extra data to shape
		if (hdr.GetVersion().IsOB()) {
			std::vector<Vector3> tangents;
			std::vector<Vector3> bitangents;
			if (GetBinaryTangentData(shape, &tangents, &bitangents)) {
				SetTangentsForShape(shape, tangents);
				SetBitangentsForShape(shape, bitangents);
			}
		}
	}

	RemoveInvalidTris();
}

void NifFile::FinalizeData() {
	for (auto& shape : GetShapes()) {
		auto bsTriShape = dynamic_cast<BSTriShape*>(shape);
		if (bsTriShape) {
			auto bsDynTriShape = dynamic_cast<BSDynamicTriShape*>(shape);
			if (bsDynTriShape)
				bsDynTriShape->CalcDynamicData();

			bsTriShape->CalcDataSizes(hdr.GetVersion());

			if (hdr.GetVersion().IsSSE()) {
				// Move triangle and vertex data from shape to partition
				auto skinInst = hdr.GetBlock<NiSkinInstance>(shape->SkinInstanceRef());
				if (skinInst) {
					auto skinPart = hdr.GetBlock(skinInst->skinPartitionRef);
					if (skinPart) {
						skinPart->numVertices = bsTriShape->GetNumVertices();
						skinPart->dataSize = bsTriShape->dataSize;
						skinPart->vertexSize = bsTriShape->vertexSize;
						skinPart->vertData = bsTriShape->vertData;
						skinPart->vertexDesc = bsTriShape->vertexDesc;

						for (uint32_t partInd = 0; partInd < skinPart->numPartitions; ++partInd) {
							NiSkinPartition::PartitionBlock& part = skinPart->partitions[partInd];

							// Copy relevant data from shape to each partition
							part.vertexDesc = bsTriShape->vertexDesc;
						}
					}
				}
			}
		}

		if (hdr.GetVersion().IsOB()) {
			// Move tangents and bitangents from shape back to binary extra data
			if (shape->HasTangents()) {
				auto tangents = GetTangentsForShape(shape);
				auto bitangents = GetBitangentsForShape(shape);
				SetBinaryTangentData(shape, tangents, bitangents);
			}
			else
				DeleteBinaryTangentData(shape);
		}
	}

	hdr.UpdateHeaderStrings(hasUnknown);
}

bool NifFile::IsSSECompatible() const {
	auto shapes = GetShapes();
	return std::all_of(shapes.cbegin(), shapes.cend(), [this](auto&& shape) {
		return IsSSECompatible(shape);
	});
}

bool NifFile::IsSSECompatible(NiShape* shape) const {
	// Check if shape has strips in the geometry or skin partition
	if (shape->HasType<NiTriStrips>())
		return false;

	auto skinInst = hdr.GetBlock<NiSkinInstance>(shape->SkinInstanceRef());
	if (skinInst) {
		auto skinPart = hdr.GetBlock(skinInst->skinPartitionRef);
		if (skinPart) {
			for (auto& partition : skinPart->partitions) {
				if (partition.numStrips > 0)
					return false;
			}
		}
	}

	return true;
}

NiShape* NifFile::CreateShapeFromData(const std::string& shapeName,
									  const std::vector<Vector3>* v,
									  const std::vector<Triangle>* t,
									  const std::vector<Vector2>* uv,
									  const std::vector<Vector3>* norms) {
	auto rootNode = GetRootNode();
	if (!rootNode)
		return nullptr;

	const NiVersion& version = hdr.GetVersion();

	NiShape* shapeResult = nullptr;
	if (version.IsSSE()) {
		auto triShape = std::make_unique<BSTriShape>();
		triShape->Create(hdr.GetVersion(), v, t, uv, norms);
		triShape->SetSkinned(false);

		auto nifTexset = std::make_unique<BSShaderTextureSet>(hdr.GetVersion());

		auto nifShader = std::make_unique<BSLightingShaderProperty>(hdr.GetVersion());
		nifShader->TextureSetRef()->index = hdr.AddBlock(std::move(nifTexset));
		nifShader->SetSkinned(false);

		triShape->name.get() = shapeName;

		int shaderID = hdr.AddBlock(std::move(nifShader));
		triShape->ShaderPropertyRef()->index = shaderID;

		shapeResult = triShape.get();

		int shapeID = hdr.AddBlock(std::move(triShape));
		rootNode->childRefs.AddBlockRef(shapeID);
	}
	else if (version.IsFO4() || version.IsFO76()) {
		auto nifBSTriShape = std::make_unique<BSSubIndexTriShape>();
		nifBSTriShape->Create(hdr.GetVersion(), v, t, uv, norms);
		nifBSTriShape->SetSkinned(false);

		auto nifTexset = std::make_unique<BSShaderTextureSet>(hdr.GetVersion());

		auto nifShader = std::make_unique<BSLightingShaderProperty>(hdr.GetVersion());
		nifShader->TextureSetRef()->index = hdr.AddBlock(std::move(nifTexset));

		std::string wetShaderName = "template/OutfitTemplate_Wet.bgsm";
		nifShader->SetWetMaterialName(wetShaderName);
		nifShader->SetSkinned(false);

		nifBSTriShape->name.get() = shapeName;

		int shaderID = hdr.AddBlock(std::move(nifShader));
		nifBSTriShape->ShaderPropertyRef()->index = shaderID;

		shapeResult = nifBSTriShape.get();

		int shapeID = hdr.AddBlock(std::move(nifBSTriShape));
		rootNode->childRefs.AddBlockRef(shapeID);
	}
	else {
		auto nifTexset = std::make_unique<BSShaderTextureSet>(hdr.GetVersion());

		int shaderID{};
		std::unique_ptr<BSLightingShaderProperty> nifShader = nullptr;
		std::unique_ptr<BSShaderPPLightingProperty> nifShaderPP = nullptr;

		if (version.IsSK()) {
			nifShader = std::make_unique<BSLightingShaderProperty>(hdr.GetVersion());
			nifShader->TextureSetRef()->index = hdr.AddBlock(std::move(nifTexset));
			nifShader->SetSkinned(false);
			shaderID = hdr.AddBlock(std::move(nifShader));
		}
		else {
			nifShaderPP = std::make_unique<BSShaderPPLightingProperty>();
			nifShaderPP->TextureSetRef()->index = hdr.AddBlock(std::move(nifTexset));
			nifShaderPP->SetSkinned(false);
			shaderID = hdr.AddBlock(std::move(nifShaderPP));
		}

		auto nifTriShape = std::make_unique<NiTriShape>();
		if (version.IsSK())
			nifTriShape->ShaderPropertyRef()->index = shaderID;
		else
			nifTriShape->propertyRefs.AddBlockRef(shaderID);

		nifTriShape->name.get() = shapeName;

		auto nifShapeData = std::make_unique<NiTriShapeData>();
		nifShapeData->Create(hdr.GetVersion(), v, t, uv, norms);
		nifTriShape->SetGeomData(nifShapeData.get());

		int dataID = hdr.AddBlock(std::move(nifShapeData));
		nifTriShape->DataRef()->index = dataID;
		nifTriShape->SetSkinned(false);

		shapeResult = nifTriShape.get();

		int shapeID = hdr.AddBlock(std::move(nifTriShape));
		rootNode->childRefs.AddBlockRef(shapeID);
	}

	return shapeResult;
}

std::vector<std::string> NifFile::GetShapeNames() const {
	std::vector<std::string> outList;
	for (auto& block : blocks) {
		auto shape = dynamic_cast<NiShape*>(block.get());
		if (shape)
			outList.push_back(shape->name.get());
	}
	return outList;
}

std::vector<NiShape*> NifFile::GetShapes() const {
	std::vector<NiShape*> outList;
	for (auto& block : blocks) {
		auto shape = dynamic_cast<NiShape*>(block.get());
		if (shape)
			outList.push_back(shape);
	}
	return outList;
}

bool NifFile::RenameShape(NiShape* shape, const std::string& newName) {
	if (shape) {
		shape->name.get() = newName;
		return true;
	}

	return false;
}

bool NifFile::RenameDuplicateShapes() {
	auto countDupes = [this](NiNode* parent, const std::string& name) {
		if (name.empty())
			return ptrdiff_t(0);

		std::vector<std::string> names;
		std::set<int> uniqueRefs;
		for (auto& child : parent->childRefs) {
			auto obj = hdr.GetBlock<NiAVObject>(child);
			if (obj) {
				if (uniqueRefs.find(child.index) == uniqueRefs.end()) {
					names.push_back(obj->name.get());
					uniqueRefs.insert(child.index);
				}
			}
		}

		return std::count(names.begin(), names.end(), name);
	};

	bool renamed = false;
	auto nodes = GetChildren<NiNode>();

	auto root = GetRootNode();
	if (root)
		nodes.push_back(root);

	for (auto& node : nodes) {
		int dupCount = 0;

		for (auto& child : node->childRefs) {
			auto shape = hdr.GetBlock<NiShape>(child);
			if (shape) {
				// Skip first child
				if (dupCount == 0) {
					dupCount++;
					continue;
				}

				std::string shapeName = shape->name.get();

				bool duped = countDupes(node, shapeName) > 1;
				if (duped) {
					std::string dup = "_" + std::to_string(dupCount);

					while (countDupes(node, shapeName + dup) > 0) {
						dupCount++;
						dup = "_" + std::to_string(dupCount);
					}

					shape->name.get() = shapeName + dup;
					dupCount++;
					renamed = true;
				}
			}
		}
	}

	return renamed;
}

void NifFile::TriangulateShape(NiShape* shape) {
	if (shape->HasType<NiTriStrips>()) {
		auto stripsData = hdr.GetBlock<NiTriStripsData>(shape->DataRef());
		if (stripsData) {
			std::vector<Triangle> tris = stripsData->StripsToTris();

			if (!tris.empty()) {
				auto [triShapeS, triShape] = make_unique<NiTriShape>();
				*static_cast<NiTriBasedGeom*>(triShape) = *static_cast<NiTriBasedGeom*>(shape);
				hdr.ReplaceBlock(GetBlockID(shape), std::move(triShapeS));

				auto [triShapeDataS, triShapeData] = make_unique<NiTriShapeData>();
				*static_cast<NiTriBasedGeomData*>(triShapeData) = *static_cast<NiTriBasedGeomData*>(
					stripsData);
				triShapeData->SetTriangles(tris);
				hdr.ReplaceBlock(GetBlockID(stripsData), std::move(triShapeDataS));
				triShape->SetGeomData(triShapeData);
			}
		}
	}
}

NiNode* NifFile::GetRootNode() const {
	// Check if block at index 0 is a node
	auto root = hdr.GetBlock<NiNode>(0u);
	if (!root) {
		// Not a node, look for first node block
		for (auto& block : blocks) {
			auto node = dynamic_cast<NiNode*>(block.get());
			if (node) {
				root = node;
				break;
			}
		}
	}
	return root;
}

void NifFile::GetTree(std::vector<NiObject*>& result, NiObject* parent) const {
	if (parent == nullptr) {
		parent = GetRootNode();
		if (parent == nullptr)
			return;
	}

	result.push_back(parent);

	std::vector<uint32_t> indices;
	parent->GetChildIndices(indices);

	for (auto& i : indices) {
		auto child = hdr.GetBlock<NiObject>(i);
		if (child && !contains(result, child))
			GetTree(result, child);
	}
}

bool NifFile::GetNodeTransformToParent(const std::string& nodeName, MatTransform& outTransform) const {
	for (auto& block : blocks) {
		auto node = dynamic_cast<NiNode*>(block.get());
		if (node && node->name == nodeName) {
			outTransform = node->GetTransformToParent();
			return true;
		}
	}
	return false;
}

bool NifFile::GetNodeTransformToGlobal(const std::string& nodeName, MatTransform& outTransform) const {
	for (auto& block : blocks) {
		auto* node = dynamic_cast<NiNode*>(block.get());
		if (!node || node->name != nodeName)
			continue;

		MatTransform xform = node->GetTransformToParent();
		NiNode* parent = GetParentNode(node);

		// A node that is (indirectly) its own parent would keep this loop going forever
		std::unordered_set<NiNode*> visited{node};
		while (parent && visited.insert(parent).second) {
			xform = parent->GetTransformToParent().ComposeTransforms(xform);
			parent = GetParentNode(parent);
		}
		outTransform = xform;
		return true;
	}

	return false;
}

bool NifFile::SetNodeTransformToParent(const std::string& nodeName,
									   const MatTransform& inTransform,
									   const bool rootChildrenOnly) {
	if (rootChildrenOnly) {
		auto root = GetRootNode();
		if (root) {
			for (auto& child : root->childRefs) {
				auto node = hdr.GetBlock<NiNode>(child);
				if (node) {
					if (node->name == nodeName) {
						node->SetTransformToParent(inTransform);
						return true;
					}
				}
			}
		}
	}
	else {
		for (auto& block : blocks) {
			auto node = dynamic_cast<NiNode*>(block.get());
			if (node && node->name == nodeName) {
				node->SetTransformToParent(inTransform);
				return true;
			}
		}
	}

	return false;
}

uint32_t NifFile::GetShapeBoneList(NiShape* shape, std::vector<std::string>& outList) const {
	outList.clear();

	if (!shape)
		return 0;

	auto skinInst = hdr.GetBlock<NiBoneContainer>(shape->SkinInstanceRef());
	if (!skinInst)
		return 0;

	for (auto& bone : skinInst->boneRefs) {
		auto node = hdr.GetBlock(bone);
		if (node)
			outList.push_back(node->name.get());
	}

	return static_cast<uint32_t>(outList.size());
}

uint32_t NifFile::GetShapeBoneIDList(NiShape* shape, std::vector<int>& outList) const {
	outList.clear();

	if (!shape)
		return 0;

	auto skinInst = hdr.GetBlock<NiBoneContainer>(shape->SkinInstanceRef());
	if (!skinInst)
		return 0;

	for (auto& bone : skinInst->boneRefs)
		if (!bone.IsEmpty())
			outList.push_back(bone.index);

	return static_cast<uint32_t>(outList.size());
}

void NifFile::SetShapeBoneIDList(NiShape* shape, std::vector<int>& inList) {
	if (!shape)
		return;

	BSSkinBoneData* boneData = nullptr;
	if (shape->HasType<BSTriShape>()) {
		auto skinForBoneRef = hdr.GetBlock<BSSkinInstance>(shape->SkinInstanceRef());
		if (skinForBoneRef)
			boneData = hdr.GetBlock(skinForBoneRef->dataRef);
	}

	auto boneCont = hdr.GetBlock<NiBoneContainer>(shape->SkinInstanceRef());
	if (!boneCont)
		return;

	boneCont->boneRefs.Clear();

	bool feedBoneData = false;
	if (boneData && boneData->nBones != inList.size()) {
		// Clear if size doesn't match
		boneData->nBones = 0;
		boneData->boneXforms.clear();
		feedBoneData = true;
	}

	for (auto& i : inList) {
		boneCont->boneRefs.AddBlockRef(i);
		if (boneData && feedBoneData) {
			boneData->boneXforms.emplace_back();
			boneData->nBones++;
		}
	}

	auto skinInst = dynamic_cast<NiSkinInstance*>(boneCont);
	if (skinInst) {
		auto skinData = hdr.GetBlock(skinInst->dataRef);
		if (skinData) {
			feedBoneData = false;

			if (skinData->numBones != inList.size()) {
				// Clear if size doesn't match
				skinData->numBones = 0;
				skinData->bones.clear();
				feedBoneData = true;
			}

			if (feedBoneData) {
				skinData->bones.resize(inList.size());
				skinData->numBones = static_cast<uint32_t>(skinData->bones.size());
			}
		}
	}
}

uint32_t NifFile::GetShapeBoneWeights(NiShape* shape,
									  const uint32_t boneIndex,
									  std::unordered_map<uint16_t, float>& outWeights) const {
	outWeights.clear();

	if (!shape)
		return 0;

	auto bsTriShape = dynamic_cast<BSTriShape*>(shape);
	if (bsTriShape) {
		outWeights.reserve(bsTriShape->GetNumVertices());
		for (uint16_t vid = 0; vid < bsTriShape->GetNumVertices(); vid++) {
			auto& vertex = bsTriShape->vertData[vid];
			for (size_t i = 0; i < 4; i++) {
				if (vertex.weightBones[i] == boneIndex && vertex.weights[i] != 0.0f)
					outWeights.emplace(vid, vertex.weights[i]);
			}
		}

		return static_cast<uint32_t>(outWeights.size());
	}

	auto skinInst = hdr.GetBlock<NiSkinInstance>(shape->SkinInstanceRef());
	if (!skinInst)
		return 0;

	auto skinData = hdr.GetBlock(skinInst->dataRef);
	if (!skinData || boneIndex >= skinData->numBones)
		return 0;

	NiSkinData::BoneData* bone = &skinData->bones[boneIndex];
	for (auto& sw : bone->vertexWeights)
		if (sw.weight >= EPSILON)
			outWeights.emplace(sw.index, sw.weight);

	return static_cast<uint32_t>(outWeights.size());
}

bool NifFile::CalcShapeTransformGlobalToSkin(NiShape* shape, MatTransform& outTransform) const {
	if (!shape)
		return false;
	if (GetShapeTransformGlobalToSkin(shape, outTransform))
		return true;

	// Now the nif doesn't have this transform, probably because it's
	// a FO4 nif, so we will try to calculate it, since FO4 shapes almost
	// always have a non-identity global-to-skin transform.
	// Ideally, we'd use bone transforms from the skeleton file, but we
	// don't have access to that here.
	std::vector<std::string> bones;
	GetShapeBoneList(shape, bones);
	for (const std::string& bone : bones) {
		MatTransform xformBoneToGlobal;
		if (!GetNodeTransformToGlobal(bone, xformBoneToGlobal))
			continue;
		MatTransform xformSkinToBone;
		if (!GetShapeTransformSkinToBone(shape, bone, xformSkinToBone))
			continue;
		// compose: skin -> bone -> global and invert
		outTransform = xformBoneToGlobal.ComposeTransforms(xformSkinToBone).InverseTransform();
		return true;
	}
	return false;
}

bool NifFile::GetShapeTransformGlobalToSkin(NiShape* shape, MatTransform& outTransform) const {
	if (!shape)
		return false;

	// For FO4 meshes, the skin instance is a BSSkinInstance instead of
	// an NiSkinInstance, so skinInst will be nullptr.  FO4 meshes do not
	// have this transform.
	auto skinInst = hdr.GetBlock<NiSkinInstance>(shape->SkinInstanceRef());
	if (!skinInst)
		return false;

	auto skinData = hdr.GetBlock(skinInst->dataRef);
	if (!skinData)
		return false;

	outTransform = skinData->skinTransform;
	return true;
}

void NifFile::SetShapeTransformGlobalToSkin(NiShape* shape, const MatTransform& inTransform) {
	if (!shape)
		return;

	// For FO4 meshes, the skin instance is a BSSkinInstance instead of
	// an NiSkinInstance, so skinInst will be nullptr.  FO4 meshes do not
	// have this transform.
	auto skinInst = hdr.GetBlock<NiSkinInstance>(shape->SkinInstanceRef());
	if (!skinInst)
		return;

	auto skinData = hdr.GetBlock(skinInst->dataRef);
	if (!skinData)
		return;

	// Set the overall skin transform
	skinData->skinTransform = inTransform;
}

bool NifFile::GetShapeTransformSkinToBone(NiShape* shape,
										  const std::string& boneName,
										  MatTransform& outTransform) const {
	if (!shape)
		return false;

	return GetShapeTransformSkinToBone(shape, shape->GetBoneID(hdr, boneName), outTransform);
}

bool NifFile::GetShapeTransformSkinToBone(NiShape* shape,
										  const uint32_t boneIndex,
										  MatTransform& outTransform) const {
	if (!shape)
		return false;

	auto skinForBoneRef = hdr.GetBlock<BSSkinInstance>(shape->SkinInstanceRef());
	if (skinForBoneRef) {
		auto boneData = hdr.GetBlock(skinForBoneRef->dataRef);
		if (boneData) {
			if (boneIndex >= boneData->nBones)
				return false;

			outTransform = boneData->boneXforms[boneIndex].boneTransform;
			return true;
		}
	}

	auto skinInst = hdr.GetBlock<NiSkinInstance>(shape->SkinInstanceRef());
	if (!skinInst)
		return false;

	auto skinData = hdr.GetBlock(skinInst->dataRef);
	if (!skinData)
		return false;

	if (boneIndex >= skinData->numBones)
		return false;

	NiSkinData::BoneData* bone = &skinData->bones[boneIndex];
	outTransform = bone->boneTransform;
	return true;
}

void NifFile::SetShapeTransformSkinToBone(NiShape* shape,
										  const uint32_t boneIndex,
										  const MatTransform& inTransform) {
	if (!shape)
		return;

	auto skinForBoneRef = hdr.GetBlock<BSSkinInstance>(shape->SkinInstanceRef());
	if (skinForBoneRef) {
		auto bsSkin = hdr.GetBlock(skinForBoneRef->dataRef);
		if (!bsSkin)
			return;

		if (boneIndex >= bsSkin->nBones)
			return;
		bsSkin->boneXforms[boneIndex].boneTransform = inTransform;
		return;
	}

	auto skinInst = hdr.GetBlock<NiSkinInstance>(shape->SkinInstanceRef());
	if (!skinInst)
		return;

	auto skinData = hdr.GetBlock(skinInst->dataRef);
	if (!skinData)
		return;

	if (boneIndex >= skinData->numBones)
		return;

	NiSkinData::BoneData* bone = &skinData->bones[boneIndex];
	bone->boneTransform = inTransform;
}

bool NifFile::GetShapeBoneTransform(NiShape* shape,
									const std::string& boneName,
									MatTransform& outTransform) const {
	if (boneName.empty())
		return GetShapeTransformGlobalToSkin(shape, outTransform);
	return GetShapeTransformSkinToBone(shape, boneName, outTransform);
}

bool NifFile::GetShapeBoneTransform(NiShape* shape,
									const uint32_t boneIndex,
									MatTransform& outTransform) const {
	if (boneIndex == 0xFFFFFFFF)
		return GetShapeTransformGlobalToSkin(shape, outTransform);

	return GetShapeTransformSkinToBone(shape, boneIndex, outTransform);
}

bool NifFile::SetShapeBoneTransform(NiShape* shape, const uint32_t boneIndex, MatTransform& inTransform) {
	if (boneIndex == 0xFFFFFFFF)
		SetShapeTransformGlobalToSkin(shape, inTransform);
	else
		SetShapeTransformSkinToBone(shape, boneIndex, inTransform);
	return true;
}

bool NifFile::SetShapeBoneBounds(const std::string& shapeName,
								 const uint32_t boneIndex,
								 BoundingSphere& inBounds) {
	auto shape = FindBlockByName<NiShape>(shapeName);
	if (!shape)
		return false;

	auto skinForBoneRef = hdr.GetBlock<BSSkinInstance>(shape->SkinInstanceRef());
	if (skinForBoneRef && boneIndex != 0xFFFFFFFF) {
		auto bsSkin = hdr.GetBlock(skinForBoneRef->dataRef);
		if (!bsSkin)
			return false;

		bsSkin->boneXforms[boneIndex].bounds = inBounds;
		return true;
	}

	auto skinInst = hdr.GetBlock<NiSkinInstance>(shape->SkinInstanceRef());
	if (!skinInst)
		return false;

	auto skinData = hdr.GetBlock(skinInst->dataRef);
	if (!skinData)
		return false;

	if (boneIndex >= skinData->numBones)
		return false;

	NiSkinData::BoneData* bone = &skinData->bones[boneIndex];
	bone->bounds = inBounds;
	return true;
}

bool NifFile::GetShapeBoneBounds(NiShape* shape, const uint32_t boneIndex, BoundingSphere& outBounds) const {
	if (!shape)
		return false;

	auto skinForBoneRef = hdr.GetBlock<BSSkinInstance>(shape->SkinInstanceRef());
	if (skinForBoneRef) {
		auto boneData = hdr.GetBlock(skinForBoneRef->dataRef);
		if (boneData) {
			outBounds = boneData->boneXforms[boneIndex].bounds;
			return true;
		}
	}

	auto skinInst = hdr.GetBlock<NiSkinInstance>(shape->SkinInstanceRef());
	if (!skinInst)
		return false;

	auto skinData = hdr.GetBlock(skinInst->dataRef);
	if (!skinData)
		return false;

	if (boneIndex >= skinData->numBones)
		return false;

	NiSkinData::BoneData* bone = &skinData->bones[boneIndex];
	outBounds = bone->bounds;
	return true;
}

void NifFile::UpdateShapeBoneID(const std::string& shapeName, const uint32_t oldID, const uint32_t newID) {
	auto shape = FindBlockByName<NiShape>(shapeName);
	if (!shape)
		return;

	auto boneCont = hdr.GetBlock<NiBoneContainer>(shape->SkinInstanceRef());
	if (!boneCont)
		return;

	for (auto& bp : boneCont->boneRefs) {
		if (!bp.IsEmpty() && bp.index == oldID) {
			bp.index = newID;
			return;
		}
	}
}

void NifFile::SetShapeBoneWeights(const std::string& shapeName,
								  const uint32_t boneIndex,
								  std::unordered_map<uint16_t, float>& inWeights) {
	auto shape = FindBlockByName<NiShape>(shapeName);
	if (!shape)
		return;

	auto skinInst = hdr.GetBlock<NiSkinInstance>(shape->SkinInstanceRef());
	if (!skinInst)
		return;

	auto skinData = hdr.GetBlock(skinInst->dataRef);
	if (!skinData)
		return;

	if (boneIndex >= skinData->numBones)
		return;

	skinData->hasVertWeights = true;

	NiSkinData::BoneData* bone = &skinData->bones[boneIndex];
	bone->vertexWeights.clear();
	for (auto& sw : inWeights)
		if (sw.second >= 0.0001f)
			bone->vertexWeights.emplace_back(SkinWeight(sw.first, sw.second));

	bone->numVertices = static_cast<uint16_t>(bone->vertexWeights.size());
}

void NifFile::SetShapeVertWeights(const std::string& shapeName,
								  const uint16_t vertIndex,
								  std::vector<uint8_t>& boneids,
								  std::vector<float>& weights) const {
	auto shape = FindBlockByName<NiShape>(shapeName);
	if (!shape)
		return;

	auto bsTriShape = dynamic_cast<BSTriShape*>(shape);
	if (!bsTriShape)
		return;

	if (vertIndex < 0 || vertIndex >= bsTriShape->vertData.size())
		return;

	auto& vertex = bsTriShape->vertData[vertIndex];
	std::memset(vertex.weights, 0, sizeof(float) * 4);
	std::memset(vertex.weightBones, 0, sizeof(uint8_t) * 4);

	// Sum weights to normalize values
	float sum = 0.0f;
	for (auto weight : weights)
		sum += weight;

	uint32_t num = (weights.size() < 4 ? static_cast<uint32_t>(weights.size()) : 4);

	for (uint32_t i = 0; i < num; i++) {
		vertex.weightBones[i] = boneids[i];
		vertex.weights[i] = weights[i] / sum;
	}
}

void NifFile::ClearShapeVertWeights(const std::string& shapeName) const {
	auto shape = FindBlockByName<NiShape>(shapeName);
	if (!shape)
		return;

	auto bsTriShape = dynamic_cast<BSTriShape*>(shape);
	if (!bsTriShape)
		return;

	for (auto& vertex : bsTriShape->vertData) {
		std::memset(vertex.weights, 0, sizeof(float) * 4);
		std::memset(vertex.weightBones, 0, sizeof(uint8_t) * 4);
	}
}

bool NifFile::GetShapeSegments(NiShape* shape, NifSegmentationInfo& inf, std::vector<int>& triParts) {
	auto bssits = dynamic_cast<BSSubIndexTriShape*>(shape);
	if (!bssits)
		return false;

	bssits->GetSegmentation(inf, triParts);
	return true;
}

void NifFile::SetShapeSegments(NiShape* shape,
							   const NifSegmentationInfo& inf,
							   const std::vector<int>& triParts) {
	auto bssits = dynamic_cast<BSSubIndexTriShape*>(shape);
	if (!bssits)
		return;

	bssits->SetSegmentation(inf, triParts);
}

bool NifFile::GetShapePartitions(NiShape* shape,
								 NiVector<BSDismemberSkinInstance::PartitionInfo>& partitionInfo,
								 std::vector<int>& triParts) const {
	if (!shape)
		return false;

	auto bsdSkinInst = hdr.GetBlock<BSDismemberSkinInstance>(shape->SkinInstanceRef());
	if (bsdSkinInst)
		partitionInfo = bsdSkinInst->partitions;
	else
		partitionInfo.clear();

	auto skinInst = hdr.GetBlock<NiSkinInstance>(shape->SkinInstanceRef());
	if (!skinInst)
		return false;

	auto skinPart = hdr.GetBlock(skinInst->skinPartitionRef);
	if (!skinPart)
		return false;

	// Generate triParts
	std::vector<Triangle> shapeTris;
	shape->GetTriangles(shapeTris);
	skinPart->PrepareTriParts(shapeTris);
	triParts = skinPart->triParts;

	// Make sure every partition has a PartitionInfo
	while (partitionInfo.size() < skinPart->partitions.size()) {
		BSDismemberSkinInstance::PartitionInfo pi;
		pi.flags = PF_EDITOR_VISIBLE;
		pi.partID = hdr.GetVersion().User() >= 12 ? 32 : 0;
		partitionInfo.push_back(pi);
	}

	return true;
}

void NifFile::SetShapePartitions(NiShape* shape,
								 const NiVector<BSDismemberSkinInstance::PartitionInfo>& partitionInfo,
								 const std::vector<int>& triParts,
								 const bool convertSkinInstance) {
	if (!shape)
		return;

	auto skinInst = hdr.GetBlock<NiSkinInstance>(shape->SkinInstanceRef());
	if (!skinInst)
		return;

	auto skinPart = hdr.GetBlock(skinInst->skinPartitionRef);
	if (!skinPart)
		return;

	// Calculate new number of partitions.  This code assumes we might have
	// misassigned or unassigned triangles, though it's unclear whether
	// it's even possible to have misassigned or unassigned triangles.
	uint32_t numParts = static_cast<uint32_t>(partitionInfo.size());
	bool hasUnassignedTris = false;
	for (auto pi : triParts) {
		if (pi >= static_cast<int>(numParts))
			numParts = pi + 1;
		if (pi < 0)
			hasUnassignedTris = true;
	}
	if (hasUnassignedTris)
		++numParts;

	// Copy triParts and assign unassigned triangles to a partition
	skinPart->triParts = triParts;
	if (hasUnassignedTris) {
		for (int& pi : skinPart->triParts) {
			if (pi < 0)
				pi = static_cast<int>(numParts) - 1;
		}
	}

	// Resize NiSkinPartition partition list
	skinPart->numPartitions = numParts;
	skinPart->partitions.resize(numParts);
	for (uint32_t i = 0; i < numParts; i++)
		skinPart->partitions[i].hasVertexMap = true;

	// Regenerate trueTriangles
	std::vector<Triangle> shapeTris;
	shape->GetTriangles(shapeTris);
	skinPart->GenerateTrueTrianglesFromTriParts(shapeTris);

	// Set BSDismemberSkinInstance partition list
	auto bsdSkinInst = hdr.GetBlock<BSDismemberSkinInstance>(shape->SkinInstanceRef());
	if (!bsdSkinInst && convertSkinInstance && hdr.GetVersion().File() == NiFileVersion::V20_2_0_7) {
		auto newBsdSkinInst = std::make_unique<BSDismemberSkinInstance>();
		bsdSkinInst = newBsdSkinInst.get();

		*static_cast<NiSkinInstance*>(bsdSkinInst) = *static_cast<NiSkinInstance*>(skinInst);
		hdr.ReplaceBlock(GetBlockID(skinInst), std::move(newBsdSkinInst));
	}

	if (bsdSkinInst) {
		bsdSkinInst->partitions = partitionInfo;
		while (bsdSkinInst->partitions.size() < numParts) {
			BSDismemberSkinInstance::PartitionInfo pi;
			pi.flags = PF_EDITOR_VISIBLE;
			pi.partID = hdr.GetVersion().User() >= 12 ? 32 : 0;
			bsdSkinInst->partitions.push_back(pi);
		}
	}
}

void NifFile::SetDefaultPartition(NiShape* shape) {
	std::vector<Triangle> tris;
	shape->GetTriangles(tris);

	uint16_t numVertices = shape->GetNumVertices();
	bool bMappedIndices = !shape->HasType<BSTriShape>();

	auto bsdSkinInst = hdr.GetBlock<BSDismemberSkinInstance>(shape->SkinInstanceRef());
	if (bsdSkinInst) {
		BSDismemberSkinInstance::PartitionInfo partInfo;
		partInfo.flags = PF_EDITOR_VISIBLE;
		partInfo.partID = hdr.GetVersion().User() >= 12 ? 32 : 0;

		bsdSkinInst->partitions.clear();
		bsdSkinInst->partitions.push_back(partInfo);
	}

	auto skinInst = hdr.GetBlock<NiSkinInstance>(shape->SkinInstanceRef());
	if (!skinInst)
		return;

	auto skinPart = hdr.GetBlock(skinInst->skinPartitionRef);
	if (skinPart) {
		NiSkinPartition::PartitionBlock part;
		if (numVertices > 0) {
			part.hasVertexMap = true;
			part.numVertices = numVertices;

			std::vector<uint16_t> vertIndices(part.numVertices);
			for (uint16_t i = 0; i < static_cast<uint16_t>(vertIndices.size()); i++)
				vertIndices[i] = i;

			part.vertexMap = vertIndices;
		}

		if (!tris.empty()) {
			part.numTriangles = static_cast<uint16_t>(tris.size());
			part.trueTriangles = tris;
			if (!bMappedIndices)
				part.triangles = part.trueTriangles;
		}

		skinPart->bMappedIndices = bMappedIndices;
		skinPart->partitions.clear();
		skinPart->partitions.push_back(part);
		skinPart->numPartitions = 1;
		skinPart->triParts.clear();
	}
}

void NifFile::DeletePartitions(NiShape* shape, std::vector<uint32_t>& partInds) {
	if (!shape)
		return;

	auto skinInst = hdr.GetBlock<NiSkinInstance>(shape->SkinInstanceRef());
	if (!skinInst)
		return;

	auto skinPart = hdr.GetBlock(skinInst->skinPartitionRef);
	if (!skinPart)
		return;

	skinPart->DeletePartitions(partInds);

	auto bsdSkinInst = dynamic_cast<BSDismemberSkinInstance*>(skinInst);
	if (bsdSkinInst) {
		bsdSkinInst->DeletePartitions(partInds);
		UpdatePartitionFlags(shape);
	}
}

bool NifFile::ReorderTriangles(NiShape* shape, const std::vector<uint32_t>& triangleIndices) {
	if (!shape)
		return false;

	if (shape->HasType<NiTriStrips>())
		return false;

	return shape->ReorderTriangles(triangleIndices);
}

const std::vector<Vector3>* NifFile::GetVertsForShape(NiShape* shape) {
	if (!shape)
		return nullptr;

	if (auto geomData = GetGeometryData(shape)) {
		if (geomData)
			return &geomData->vertices;
	}
	else if (shape->HasType<BSTriShape>()) {
		auto bsTriShape = dynamic_cast<BSTriShape*>(shape);
		if (bsTriShape)
			return &bsTriShape->UpdateRawVertices();
	}
	return nullptr;
}

const std::vector<Vector3>* NifFile::GetNormalsForShape(NiShape* shape) {
	if (!shape || !shape->HasNormals())
		return nullptr;

	if (auto geomData = GetGeometryData(shape)) {
		if (geomData)
			return &geomData->normals;
	}
	else if (shape->HasType<BSTriShape>()) {
		auto bsTriShape = dynamic_cast<BSTriShape*>(shape);
		if (bsTriShape)
			return &bsTriShape->UpdateRawNormals();
	}

	return nullptr;
}

const std::vector<Vector2>* NifFile::GetUvsForShape(NiShape* shape) {
	if (!shape)
		return nullptr;

	if (auto geomData = GetGeometryData(shape)) {
		if (geomData && !geomData->uvSets.empty())
			return &geomData->uvSets[0];
	}
	else if (shape->HasType<BSTriShape>()) {
		auto bsTriShape = dynamic_cast<BSTriShape*>(shape);
		if (bsTriShape)
			return &bsTriShape->UpdateRawUvs();
	}

	return nullptr;
}

const std::vector<Color4>* NifFile::GetColorsForShape(const std::string& shapeName) {
	auto shape = FindBlockByName<NiShape>(shapeName);
	return GetColorsForShape(shape);
}

const std::vector<Color4>* NifFile::GetColorsForShape(NiShape* shape) {
	if (!shape)
		return nullptr;

	if (auto geomData = GetGeometryData(shape)) {
		if (geomData)
			return &geomData->vertexColors;
	}
	else if (shape->HasType<BSTriShape>()) {
		auto bsTriShape = dynamic_cast<BSTriShape*>(shape);
		if (bsTriShape)
			return &bsTriShape->UpdateRawColors();
	}

	return nullptr;
}

const std::vector<Vector3>* NifFile::GetTangentsForShape(NiShape* shape) {
	if (!shape || !shape->HasTangents())
		return nullptr;

	if (auto geomData = GetGeometryData(shape)) {
		if (geomData)
			return &geomData->tangents;
	}
	else if (shape->HasType<BSTriShape>()) {
		auto bsTriShape = dynamic_cast<BSTriShape*>(shape);
		if (bsTriShape)
			return &bsTriShape->UpdateRawTangents();
	}

	return nullptr;
}

const std::vector<Vector3>* NifFile::GetBitangentsForShape(NiShape* shape) {
	if (!shape || !shape->HasTangents())
		return nullptr;

	if (auto geomData = GetGeometryData(shape)) {
		if (geomData)
			return &geomData->bitangents;
	}
	else if (shape->HasType<BSTriShape>()) {
		auto bsTriShape = dynamic_cast<BSTriShape*>(shape);
		if (bsTriShape)
			return &bsTriShape->UpdateRawBitangents();
	}

	return nullptr;
}

const std::vector<float>* NifFile::GetEyeDataForShape(NiShape* shape) {
	if (!shape)
		return nullptr;

	auto bsTriShape = dynamic_cast<BSTriShape*>(shape);
	if (bsTriShape)
		return &bsTriShape->UpdateRawEyeData();

	return nullptr;
}

bool NifFile::GetVertsForShape(NiShape* shape, std::vector<Vector3>& outVerts) const {
	if (!shape) {
		outVerts.clear();
		return false;
	}

	if (auto geomData = GetGeometryData(shape)) {
		if (geomData && geomData->HasVertices()) {
			outVerts = geomData->vertices;
			return true;
		}
	}
	else if (shape->HasType<BSTriShape>()) {
		auto bsTriShape = dynamic_cast<BSTriShape*>(shape);
		if (bsTriShape) {
			outVerts.resize(bsTriShape->GetNumVertices());

			for (uint16_t i = 0; i < bsTriShape->GetNumVertices(); i++)
				outVerts[i] = bsTriShape->vertData[i].vert;

			return true;
		}
	}

	outVerts.clear();
	return false;
}

bool NifFile::GetUvsForShape(NiShape* shape, std::vector<Vector2>& outUvs) const {
	if (auto geomData = GetGeometryData(shape)) {
		if (geomData && geomData->HasUVs() && !geomData->uvSets.empty()) {
			outUvs = geomData->uvSets[0];
			return true;
		}
	}
	else if (shape->HasType<BSTriShape>()) {
		auto bsTriShape = dynamic_cast<BSTriShape*>(shape);
		if (bsTriShape && bsTriShape->HasUVs()) {
			outUvs.resize(bsTriShape->GetNumVertices());

			for (uint16_t i = 0; i < bsTriShape->GetNumVertices(); i++)
				outUvs[i] = bsTriShape->vertData[i].uv;

			return true;
		}
	}

	return false;
}

bool NifFile::GetColorsForShape(NiShape* shape, std::vector<Color4>& outColors) const {
	if (auto geomData = GetGeometryData(shape)) {
		if (geomData && geomData->HasVertexColors()) {
			outColors = geomData->vertexColors;
			return true;
		}
	}
	else if (shape->HasType<BSTriShape>()) {
		auto bsTriShape = dynamic_cast<BSTriShape*>(shape);
		if (bsTriShape && bsTriShape->HasVertexColors()) {
			outColors.resize(bsTriShape->GetNumVertices());

			for (uint16_t i = 0; i < bsTriShape->GetNumVertices(); i++) {
				outColors[i].r = bsTriShape->vertData[i].colorData[0] / 255.0f;
				outColors[i].g = bsTriShape->vertData[i].colorData[1] / 255.0f;
				outColors[i].b = bsTriShape->vertData[i].colorData[2] / 255.0f;
				outColors[i].a = bsTriShape->vertData[i].colorData[3] / 255.0f;
			}

			return true;
		}
	}

	return false;
}

bool NifFile::GetTangentsForShape(NiShape* shape, std::vector<Vector3>& outTang) const {
	if (auto geomData = GetGeometryData(shape)) {
		if (geomData && geomData->HasTangents()) {
			outTang = geomData->tangents;
			return true;
		}
	}
	else if (shape->HasType<BSTriShape>()) {
		auto bsTriShape = dynamic_cast<BSTriShape*>(shape);
		if (bsTriShape && bsTriShape->HasTangents()) {
			outTang.resize(bsTriShape->GetNumVertices());

			for (uint16_t i = 0; i < bsTriShape->GetNumVertices(); i++) {
				outTang[i].x = ((static_cast<float>(bsTriShape->vertData[i].tangent[0])) / 255.0f) * 2.0f
							   - 1.0f;
				outTang[i].y = ((static_cast<float>(bsTriShape->vertData[i].tangent[1])) / 255.0f) * 2.0f
							   - 1.0f;
				outTang[i].z = ((static_cast<float>(bsTriShape->vertData[i].tangent[2])) / 255.0f) * 2.0f
							   - 1.0f;
			}

			return true;
		}
	}

	return false;
}

bool NifFile::GetBitangentsForShape(NiShape* shape, std::vector<Vector3>& outBitang) const {
	if (auto geomData = GetGeometryData(shape)) {
		if (geomData && geomData->HasTangents()) {
			outBitang = geomData->bitangents;
			return true;
		}
	}
	else if (shape->HasType<BSTriShape>()) {
		auto bsTriShape = dynamic_cast<BSTriShape*>(shape);
		if (bsTriShape && bsTriShape->HasTangents()) {
			outBitang.resize(bsTriShape->GetNumVertices());

			for (uint16_t i = 0; i < bsTriShape->GetNumVertices(); i++) {
				outBitang[i].x = bsTriShape->vertData[i].bitangentX;
				outBitang[i].y = ((static_cast<float>(bsTriShape->vertData[i].bitangentY)) / 255.0f) * 2.0f
								 - 1.0f;
				outBitang[i].z = ((static_cast<float>(bsTriShape->vertData[i].bitangentZ)) / 255.0f) * 2.0f
								 - 1.0f;
			}

			return true;
		}
	}

	return false;
}

bool NifFile::GetEyeDataForShape(NiShape* shape, std::vector<float>& outEyeData) {
	auto bsTriShape = dynamic_cast<BSTriShape*>(shape);
	if (bsTriShape && bsTriShape->HasEyeData()) {
		outEyeData.resize(bsTriShape->GetNumVertices());

		for (uint16_t i = 0; i < bsTriShape->GetNumVertices(); i++)
			outEyeData[i] = bsTriShape->vertData[i].eyeData;

		return true;
	}

	return false;
}

void NifFile::SetVertsForShape(NiShape* shape, const std::vector<Vector3>& verts) {
	if (!shape)
		return;

	if (auto geomData = GetGeometryData(shape)) {
		if (geomData) {
			if (verts.size() != geomData->GetNumVertices())
				geomData->Create(hdr.GetVersion(), &verts, nullptr, nullptr, nullptr);
			else
				geomData->vertices = verts;
		}
	}
	else if (shape->HasType<BSTriShape>()) {
		auto bsTriShape = dynamic_cast<BSTriShape*>(shape);
		if (bsTriShape) {
			if (verts.size() != bsTriShape->GetNumVertices()) {
				bsTriShape->Create(hdr.GetVersion(), &verts, nullptr, nullptr, nullptr);
			}
			else {
				for (uint16_t i = 0; i < bsTriShape->GetNumVertices(); i++)
					bsTriShape->vertData[i].vert = verts[i];
			}
		}
	}
}

void NifFile::SetUvsForShape(NiShape* shape, const std::vector<Vector2>& uvs) {
	if (!shape)
		return;

	if (auto geomData = GetGeometryData(shape)) {
		if (geomData && uvs.size() == geomData->GetNumVertices()) {
			geomData->SetUVs(true);
			geomData->uvSets[0] = uvs;
		}
	}
	else if (shape->HasType<BSTriShape>()) {
		auto bsTriShape = dynamic_cast<BSTriShape*>(shape);
		if (bsTriShape && uvs.size() == bsTriShape->GetNumVertices()) {
			bsTriShape->SetUVs(true);

			for (uint16_t i = 0; i < bsTriShape->GetNumVertices(); i++)
				bsTriShape->vertData[i].uv = uvs[i];
		}
	}
}

void NifFile::SetColorsForShape(NiShape* shape, const std::vector<Color4>& colors) {
	if (!shape)
		return;

	if (auto geomData = GetGeometryData(shape)) {
		if (geomData && colors.size() == geomData->GetNumVertices()) {
			geomData->SetVertexColors(true);
			geomData->vertexColors = colors;
		}
	}
	else if (shape->HasType<BSTriShape>()) {
		auto bsTriShape = dynamic_cast<BSTriShape*>(shape);
		if (bsTriShape && colors.size() == bsTriShape->GetNumVertices()) {
			bsTriShape->SetVertexColors(true);

			for (uint16_t i = 0; i < bsTriShape->GetNumVertices(); i++) {
				auto& vertex = bsTriShape->vertData[i];

				float f = std::max(0.0f, std::min(1.0f, colors[i].r));
				vertex.colorData[0] = static_cast<uint8_t>(std::floor(f == 1.0f ? 255 : f * 256.0));

				f = std::max(0.0f, std::min(1.0f, colors[i].g));
				vertex.colorData[1] = static_cast<uint8_t>(std::floor(f == 1.0f ? 255 : f * 256.0));

				f = std::max(0.0f, std::min(1.0f, colors[i].b));
				vertex.colorData[2] = static_cast<uint8_t>(std::floor(f == 1.0f ? 255 : f * 256.0));

				f = std::max(0.0f, std::min(1.0f, colors[i].a));
				vertex.colorData[3] = static_cast<uint8_t>(std::floor(f == 1.0f ? 255 : f * 256.0));
			}
		}
	}
}

void NifFile::SetColorsForShape(const std::string& shapeName, const std::vector<Color4>& colors) {
	auto shape = FindBlockByName<NiShape>(shapeName);
	if (!shape)
		return;

	SetColorsForShape(shape, colors);
}

void NifFile::SetTangentsForShape(NiShape* shape, const std::vector<Vector3>& tangents) {
	if (!shape)
		return;

	if (auto geomData = GetGeometryData(shape)) {
		if (geomData) {
			geomData->SetTangents(true);
			geomData->tangents = tangents;
		}
	}
	else if (shape->HasType<BSTriShape>()) {
		auto bsTriShape = dynamic_cast<BSTriShape*>(shape);
		if (bsTriShape && tangents.size() == bsTriShape->GetNumVertices())
			bsTriShape->SetTangentData(tangents);
	}
}

void NifFile::SetBitangentsForShape(NiShape* shape, const std::vector<Vector3>& bitangents) {
	if (!shape)
		return;

	if (auto geomData = GetGeometryData(shape)) {
		if (geomData) {
			geomData->SetTangents(true);
			geomData->bitangents = bitangents;
		}
	}
	else if (shape->HasType<BSTriShape>()) {
		auto bsTriShape = dynamic_cast<BSTriShape*>(shape);
		if (bsTriShape && bitangents.size() == bsTriShape->GetNumVertices())
			bsTriShape->SetBitangentData(bitangents);
	}
}

void NifFile::SetEyeDataForShape(NiShape* shape, const std::vector<float>& eyeData) {
	if (!shape)
		return;

	auto bsTriShape = dynamic_cast<BSTriShape*>(shape);
	if (bsTriShape && eyeData.size() == bsTriShape->GetNumVertices())
		bsTriShape->SetEyeData(eyeData);
}

NiBinaryExtraData* NifFile::GetBinaryTangentData(NiShape* shape,
												 std::vector<nifly::Vector3>* outTangents,
												 std::vector<nifly::Vector3>* outBitangents) const {
	if (!shape)
		return nullptr;

	uint16_t numVerts = shape->GetNumVertices();

	for (auto& extraData : shape->extraDataRefs) {
		auto binaryData = hdr.GetBlock<NiBinaryExtraData>(extraData);
		if (binaryData && binaryData->name.get() == "Tangent space (binormal & tangent vectors)") {
			uint32_t dataSize = numVerts * 4 * 3 * 2;
			if (binaryData->data.size() == dataSize) {
				auto vecPtr = reinterpret_cast<Vector3*>(binaryData->data.data());

				if (outTangents) {
					outTangents->resize(numVerts);

					for (uint16_t i = 0; i < numVerts; i++) {
						outTangents->at(i) = (*vecPtr);
						++vecPtr;
					}
				}
				else
					vecPtr += numVerts;

				if (outBitangents) {
					outBitangents->resize(numVerts);

					for (uint16_t i = 0; i < numVerts; i++) {
						outBitangents->at(i) = (*vecPtr);
						++vecPtr;
					}
				}
				else
					vecPtr += numVerts;
			}

			return binaryData;
		}
	}

	return nullptr;
}

void NifFile::SetBinaryTangentData(NiShape* shape,
								   const std::vector<nifly::Vector3>* tangents,
								   const std::vector<nifly::Vector3>* bitangents) {
	if (!shape || !tangents || !bitangents)
		return;

	uint16_t numVerts = shape->GetNumVertices();
	if (tangents->size() != numVerts || bitangents->size() != numVerts)
		return;

	NiBinaryExtraData* binaryData = nullptr;

	for (auto& extraData : shape->extraDataRefs) {
		auto binaryExtraData = hdr.GetBlock<NiBinaryExtraData>(extraData);
		if (binaryExtraData && binaryExtraData->name.get() == "Tangent space (binormal & tangent vectors)") {
			binaryData = binaryExtraData;
			break;
		}
	}

	if (!binaryData) {
		// Add new NiBinaryExtraData block
		NiBinaryExtraData binaryExtraData;
		binaryExtraData.name.get() = "Tangent space (binormal & tangent vectors)";

		uint32_t extraDataId = AssignExtraData(shape, binaryExtraData.Clone());
		binaryData = hdr.GetBlock<NiBinaryExtraData>(extraDataId);
	}

	if (!binaryData)
		return;

	uint32_t dataSize = numVerts * 4 * 3 * 2;
	binaryData->data.resize(dataSize);

	auto vecPtr = reinterpret_cast<Vector3*>(binaryData->data.data());

	for (uint16_t i = 0; i < numVerts; i++) {
		(*vecPtr) = tangents->at(i);
		++vecPtr;
	}

	for (uint16_t i = 0; i < numVerts; i++) {
		(*vecPtr) = bitangents->at(i);
		++vecPtr;
	}
}

void NifFile::DeleteBinaryTangentData(NiShape* shape) {
	if (!shape)
		return;

	for (auto& extraData : shape->extraDataRefs) {
		auto binaryExtraData = hdr.GetBlock<NiBinaryExtraData>(extraData);
		if (binaryExtraData && binaryExtraData->name.get() == "Tangent space (binormal & tangent vectors)")
			hdr.DeleteBlock(extraData);
	}
}

void NifFile::InvertUVsForShape(NiShape* shape, bool invertX, bool invertY) {
	if (!shape)
		return;

	if (auto geomData = GetGeometryData(shape)) {
		if (geomData && !geomData->uvSets.empty()) {
			if (invertX)
				for (auto& i : geomData->uvSets[0])
					i.u = 1.0f - i.u;

			if (invertY)
				for (auto& i : geomData->uvSets[0])
					i.v = 1.0f - i.v;
		}
	}
	else if (shape->HasType<BSTriShape>()) {
		auto bsTriShape = dynamic_cast<BSTriShape*>(shape);
		if (bsTriShape) {
			if (invertX)
				for (auto& i : bsTriShape->vertData)
					i.uv.u = 1.0f - i.uv.u;

			if (invertY)
				for (auto& i : bsTriShape->vertData)
					i.uv.v = 1.0f - i.uv.v;
		}
	}
}

void NifFile::MirrorShape(NiShape* shape, bool mirrorX, bool mirrorY, bool mirrorZ) {
	if (!shape)
		return;

	bool flipTris = false;
	Matrix4 mirrorMat;

	if (mirrorX) {
		mirrorMat.Scale(-1.0f, 1.0f, 1.0f);
		flipTris = !flipTris;
	}

	if (mirrorY) {
		mirrorMat.Scale(1.0f, -1.0f, 1.0f);
		flipTris = !flipTris;
	}

	if (mirrorZ) {
		mirrorMat.Scale(1.0f, 1.0f, -1.0f);
		flipTris = !flipTris;
	}

	if (auto geomData = GetGeometryData(shape)) {
		if (geomData && !geomData->vertices.empty()) {
			for (auto& vertice : geomData->vertices)
				vertice = mirrorMat * vertice;

			for (auto& normal : geomData->normals)
				normal = mirrorMat * normal;

			for (auto& tangent : geomData->tangents)
				tangent = mirrorMat * tangent;

			for (auto& bitangent : geomData->bitangents)
				bitangent = mirrorMat * bitangent;
		}
	}
	else if (shape->HasType<BSTriShape>()) {
		auto bsTriShape = dynamic_cast<BSTriShape*>(shape);
		if (bsTriShape) {
			for (auto& i : bsTriShape->vertData)
				i.vert = mirrorMat * i.vert;

			if (bsTriShape->HasNormals()) {
				bsTriShape->UpdateRawNormals();

				for (auto& normal : bsTriShape->rawNormals)
					normal = mirrorMat * normal;

				bsTriShape->SetNormals(bsTriShape->rawNormals);

				if (bsTriShape->HasTangents())
					bsTriShape->CalcTangentSpace();
			}
		}
	}

	if (flipTris) {
		std::vector<Triangle> tris;
		shape->GetTriangles(tris);

		for (auto& tri : tris)
			std::swap(tri.p1, tri.p3);

		shape->SetTriangles(tris);
	}
}

void NifFile::SetNormalsForShape(NiShape* shape, const std::vector<Vector3>& norms) {
	if (!shape)
		return;

	if (auto geomData = GetGeometryData(shape)) {
		if (geomData) {
			geomData->SetNormals(true);
			geomData->normals = norms;
		}
	}
	else if (shape->HasType<BSTriShape>()) {
		auto bsTriShape = dynamic_cast<BSTriShape*>(shape);
		if (bsTriShape)
			bsTriShape->SetNormals(norms);
	}
}

void NifFile::CalcNormalsForShape(NiShape* shape,
								  const bool force,
								  const bool smooth,
								  const float smoothThresh) {
	if (!shape)
		return;

	if (hdr.GetVersion().IsSK() || hdr.GetVersion().IsSSE()) {
		NiShader* shader = GetShader(shape);
		if (shader && shader->IsModelSpace() && !force)
			return;
	}

	std::unordered_set<uint32_t> lockedIndices;

	for (auto& extraDataRef : shape->extraDataRefs) {
		auto integersExtraData = hdr.GetBlock<NiIntegersExtraData>(extraDataRef);
		if (integersExtraData && integersExtraData->name == "LOCKEDNORM")
			for (auto& i : integersExtraData->integersData)
				lockedIndices.insert(i);
	}

	if (auto geomData = GetGeometryData(shape)) {
		if (geomData)
			geomData->RecalcNormals(smooth, smoothThresh, lockedIndices.empty() ? nullptr : &lockedIndices);
	}
	else if (shape->HasType<BSTriShape>()) {
		auto bsTriShape = dynamic_cast<BSTriShape*>(shape);
		if (bsTriShape)
			bsTriShape->RecalcNormals(smooth, smoothThresh, lockedIndices.empty() ? nullptr : &lockedIndices);
	}
}

void NifFile::CalcTangentsForShape(NiShape* shape) {
	if (!shape)
		return;

	if (auto geomData = GetGeometryData(shape)) {
		if (geomData)
			geomData->CalcTangentSpace();
	}
	else if (shape->HasType<BSTriShape>()) {
		auto bsTriShape = dynamic_cast<BSTriShape*>(shape);
		if (bsTriShape)
			bsTriShape->CalcTangentSpace();
	}
}

int NifFile::ApplyNormalsFromFile(NifFile& srcNif, const std::string& shapeName) {
	auto shape = FindBlockByName<NiShape>(shapeName);
	if (!shape)
		return -1;

	auto srcShape = srcNif.FindBlockByName<NiShape>(shapeName);
	if (!srcShape)
		return -2;

	std::unordered_set<uint32_t> lockedNormalIndices;

	// Get LOCKEDNORM from source
	NiIntegersExtraData* integersExtraData = nullptr;

	for (auto& extraDataRef : srcShape->extraDataRefs) {
		integersExtraData = srcNif.GetHeader().GetBlock<NiIntegersExtraData>(extraDataRef);
		if (integersExtraData && integersExtraData->name == "LOCKEDNORM")
			for (auto& i : integersExtraData->integersData)
				lockedNormalIndices.insert(i);
	}

	if (lockedNormalIndices.empty())
		return -3;

	// Get normals of target
	auto norms = GetNormalsForShape(shape);
	if (!norms)
		return -4;

	// Get normals of source
	auto srcNorms = srcNif.GetNormalsForShape(srcShape);
	if (!srcNorms)
		return -5;

	// Vertex count needs to match up
	if (norms->size() != srcNorms->size())
		return -6;

	auto workNorms = (*norms);

	// Copy locked normals of the source into the target
	for (auto& i : lockedNormalIndices) {
		auto& sn = srcNorms->at(i);
		workNorms[i] = sn;
	}

	SetNormalsForShape(shape, workNorms);

	for (auto& extraDataRef : shape->extraDataRefs) {
		auto oldIntegersExtraData = hdr.GetBlock<NiIntegersExtraData>(extraDataRef);
		if (oldIntegersExtraData && oldIntegersExtraData->name == "LOCKEDNORM")
			hdr.DeleteBlock(extraDataRef);
	}

	AssignExtraData(shape, integersExtraData->Clone());
	return 0;
}

void NifFile::GetRootTranslation(Vector3& outVec) const {
	auto root = GetRootNode();
	if (root)
		outVec = root->GetTransformToParent().translation;
	else
		outVec.Zero();
}

void NifFile::MoveVertex(NiShape* shape, const Vector3& pos, const int id) {
	if (!shape)
		return;

	if (auto geomData = GetGeometryData(shape)) {
		if (geomData && geomData->GetNumVertices() > id)
			geomData->vertices[id] = pos;
	}
	else if (shape->HasType<BSTriShape>()) {
		auto bsTriShape = dynamic_cast<BSTriShape*>(shape);
		if (bsTriShape && bsTriShape->GetNumVertices() > id)
			bsTriShape->vertData[id].vert = pos;
	}
}

void NifFile::OffsetShape(NiShape* shape, const Vector3& offset, std::unordered_map<uint16_t, float>* mask) {
	if (!shape)
		return;

	if (auto geomData = GetGeometryData(shape)) {
		if (geomData) {
			for (uint16_t i = 0; i < geomData->GetNumVertices(); i++) {
				if (mask) {
					float maskFactor = 1.0f;
					Vector3 diff = offset;
					if (mask->find(i) != mask->end()) {
						maskFactor = 1.0f - (*mask)[i];
						diff *= maskFactor;
					}
					geomData->vertices[i] += diff;
				}
				else
					geomData->vertices[i] += offset;
			}
		}
	}
	else if (shape->HasType<BSTriShape>()) {
		auto bsTriShape = dynamic_cast<BSTriShape*>(shape);
		if (bsTriShape) {
			for (uint16_t i = 0; i < bsTriShape->GetNumVertices(); i++) {
				if (mask) {
					float maskFactor = 1.0f;
					Vector3 diff = offset;
					if (mask->find(i) != mask->end()) {
						maskFactor = 1.0f - (*mask)[i];
						diff *= maskFactor;
					}
					bsTriShape->vertData[i].vert += diff;
				}
				else
					bsTriShape->vertData[i].vert += offset;
			}
		}
	}
}

void NifFile::ScaleShape(NiShape* shape, const Vector3& scale, std::unordered_map<uint16_t, float>* mask) {
	if (!shape)
		return;

	Vector3 root;
	GetRootTranslation(root);

	if (auto geomData = GetGeometryData(shape)) {
		if (!geomData)
			return;

		std::unordered_map<uint16_t, Vector3> diff;
		for (uint16_t i = 0; i < geomData->GetNumVertices(); i++) {
			Vector3 target = geomData->vertices[i] - root;
			target.x *= scale.x;
			target.y *= scale.y;
			target.z *= scale.z;
			diff[i] = geomData->vertices[i] - target;

			if (mask) {
				float maskFactor = 1.0f;
				if (mask->find(i) != mask->end()) {
					maskFactor = 1.0f - (*mask)[i];
					diff[i] *= maskFactor;
					target = geomData->vertices[i] - root + diff[i];
				}
			}
			geomData->vertices[i] = target;
		}
	}
	else if (shape->HasType<BSTriShape>()) {
		auto bsTriShape = dynamic_cast<BSTriShape*>(shape);
		if (!bsTriShape)
			return;

		std::unordered_map<uint16_t, Vector3> diff;
		for (uint16_t i = 0; i < bsTriShape->GetNumVertices(); i++) {
			Vector3 target = bsTriShape->vertData[i].vert - root;
			target.x *= scale.x;
			target.y *= scale.y;
			target.z *= scale.z;
			diff[i] = bsTriShape->vertData[i].vert - target;

			if (mask) {
				float maskFactor = 1.0f;
				if (mask->find(i) != mask->end()) {
					maskFactor = 1.0f - (*mask)[i];
					diff[i] *= maskFactor;
					target = bsTriShape->vertData[i].vert - root + diff[i];
				}
			}
			bsTriShape->vertData[i].vert = target;
		}
	}
}

void NifFile::RotateShape(NiShape* shape, const Vector3& angle, std::unordered_map<uint16_t, float>* mask) {
	if (!shape)
		return;

	Vector3 root;
	GetRootTranslation(root);

	if (auto geomData = GetGeometryData(shape)) {
		if (!geomData)
			return;

		std::unordered_map<uint16_t, Vector3> diff;
		for (uint16_t i = 0; i < geomData->GetNumVertices(); i++) {
			Vector3 target = geomData->vertices[i] - root;
			Matrix4 mat;
			mat.Rotate(angle.x * DEG2RAD, Vector3(1.0f, 0.0f, 0.0f));
			mat.Rotate(angle.y * DEG2RAD, Vector3(0.0f, 1.0f, 0.0f));
			mat.Rotate(angle.z * DEG2RAD, Vector3(0.0f, 0.0f, 1.0f));
			target = mat * target;
			diff[i] = geomData->vertices[i] - target;

			if (mask) {
				float maskFactor = 1.0f;
				if (mask->find(i) != mask->end()) {
					maskFactor = 1.0f - (*mask)[i];
					diff[i] *= maskFactor;
					target = geomData->vertices[i] - root + diff[i];
				}
			}
			geomData->vertices[i] = target;
		}
	}
	else if (shape->HasType<BSTriShape>()) {
		auto bsTriShape = dynamic_cast<BSTriShape*>(shape);
		if (!bsTriShape)
			return;

		std::unordered_map<uint16_t, Vector3> diff;
		for (uint16_t i = 0; i < bsTriShape->GetNumVertices(); i++) {
			Vector3 target = bsTriShape->vertData[i].vert - root;
			Matrix4 mat;
			mat.Rotate(angle.x * DEG2RAD, Vector3(1.0f, 0.0f, 0.0f));
			mat.Rotate(angle.y * DEG2RAD, Vector3(0.0f, 1.0f, 0.0f));
			mat.Rotate(angle.z * DEG2RAD, Vector3(0.0f, 0.0f, 1.0f));
			target = mat * target;
			diff[i] = bsTriShape->vertData[i].vert - target;

			if (mask) {
				float maskFactor = 1.0f;
				if (mask->find(i) != mask->end()) {
					maskFactor = 1.0f - (*mask)[i];
					diff[i] *= maskFactor;
					target = bsTriShape->vertData[i].vert - root + diff[i];
				}
			}
			bsTriShape->vertData[i].vert = target;
		}
	}
}

NiAlphaProperty* NifFile::GetAlphaProperty(NiShape* shape) const {
	if (shape->HasAlphaProperty())
		return hdr.GetBlock(shape->AlphaPropertyRef());

	for (auto& prop : shape->propertyRefs) {
		auto alphaProp = hdr.GetBlock<NiAlphaProperty>(prop);
		if (alphaProp)
			return alphaProp;
	}

	return nullptr;
}

uint32_t NifFile::AssignAlphaProperty(NiShape* shape, std::unique_ptr<NiAlphaProperty> alphaProp) {
	RemoveAlphaProperty(shape);

	NiShader* shader = GetShader(shape);
	if (shader) {
		int alphaRef = hdr.AddBlock(std::move(alphaProp));
		if (shader->HasType<BSShaderPPLightingProperty>() || shader->HasType<NiMaterialProperty>())
			shape->propertyRefs.AddBlockRef(alphaRef);
		else if (shape->AlphaPropertyRef())
			shape->AlphaPropertyRef()->index = alphaRef;

		return alphaRef;
	}

	return NIF_NPOS;
}

void NifFile::RemoveAlphaProperty(NiShape* shape) {
	auto alpha = hdr.GetBlock(shape->AlphaPropertyRef());
	if (alpha) {
		hdr.DeleteBlock(*shape->AlphaPropertyRef());
		shape->AlphaPropertyRef()->Clear();
	}

	for (uint32_t i = 0; i < shape->propertyRefs.GetSize(); i++) {
		alpha = hdr.GetBlock<NiAlphaProperty>(shape->propertyRefs.GetBlockRef(i));
		if (alpha) {
			hdr.DeleteBlock(shape->propertyRefs.GetBlockRef(i));
			i--;
			continue;
		}
	}
}

void NifFile::DeleteShape(NiShape* shape) {
	if (!shape)
		return;

	if (shape->HasData())
		hdr.DeleteBlock(*shape->DataRef());

	if (shape->HasShaderProperty()) {
		if (hdr.GetBlockRefCount(shape->ShaderPropertyRef()->index, false) == 1)
			DeleteShader(shape);
	}

	DeleteSkinning(shape);

	for (int i = shape->propertyRefs.GetSize() - 1; i >= 0; --i)
		hdr.DeleteBlock(shape->propertyRefs.GetBlockRef(i));

	for (int i = shape->extraDataRefs.GetSize() - 1; i >= 0; --i)
		hdr.DeleteBlock(shape->extraDataRefs.GetBlockRef(i));

	int shapeID = GetBlockID(shape);
	hdr.DeleteBlock(shapeID);
}

void NifFile::DeleteShader(NiShape* shape) {
	auto shader = hdr.GetBlock(shape->ShaderPropertyRef());
	if (shader) {
		if (shader->HasTextureSet()) {
			if (hdr.GetBlockRefCount(shader->TextureSetRef()->index, false) == 1)
				hdr.DeleteBlock(*shader->TextureSetRef());
		}

		hdr.DeleteBlock(shader->controllerRef);
		hdr.DeleteBlock(*shape->ShaderPropertyRef());
		shape->ShaderPropertyRef()->Clear();
	}

	RemoveAlphaProperty(shape);

	for (uint32_t i = 0; i < shape->propertyRefs.GetSize(); i++) {
		shader = hdr.GetBlock<NiShader>(shape->propertyRefs.GetBlockRef(i));
		if (shader) {
			if (shader->HasType<BSShaderPPLightingProperty>() || shader->HasType<NiMaterialProperty>()) {
				if (shader->HasTextureSet()) {
					if (hdr.GetBlockRefCount(shader->TextureSetRef()->index, false) == 1)
						hdr.DeleteBlock(*shader->TextureSetRef());
				}

				hdr.DeleteBlock(shader->controllerRef);
				hdr.DeleteBlock(shape->propertyRefs.GetBlockRef(i));
				i--;
				continue;
			}
		}
	}
}

void NifFile::DeleteSkinning(NiShape* shape) {
	auto skinInst = hdr.GetBlock<NiSkinInstance>(shape->SkinInstanceRef());
	if (skinInst) {
		hdr.DeleteBlock(skinInst->dataRef);
		hdr.DeleteBlock(skinInst->skinPartitionRef);

		if (shape->HasSkinInstance()) {
			hdr.DeleteBlock(*shape->SkinInstanceRef());
			shape->SkinInstanceRef()->Clear();
		}
	}

	auto bsSkinInst = hdr.GetBlock<BSSkinInstance>(shape->SkinInstanceRef());
	if (bsSkinInst) {
		hdr.DeleteBlock(bsSkinInst->dataRef);

		if (shape->HasSkinInstance()) {
			hdr.DeleteBlock(*shape->SkinInstanceRef());
			shape->SkinInstanceRef()->Clear();
		}
	}

	shape->SetSkinned(false);

	NiShader* shader = GetShader(shape);
	if (shader)
		shader->SetSkinned(false);
}

void NifFile::RemoveEmptyPartitions(NiShape* shape) {
	if (!shape)
		return;

	auto skinInst = hdr.GetBlock<NiSkinInstance>(shape->SkinInstanceRef());
	if (skinInst) {
		auto skinPartition = hdr.GetBlock(skinInst->skinPartitionRef);
		if (skinPartition) {
			std::vector<uint32_t> emptyIndices;
			if (skinPartition->RemoveEmptyPartitions(emptyIndices)) {
				auto bsdSkinInst = dynamic_cast<BSDismemberSkinInstance*>(skinInst);
				if (bsdSkinInst) {
					bsdSkinInst->DeletePartitions(emptyIndices);
					UpdatePartitionFlags(shape);
				}
			}
		}
	}
}

bool NifFile::DeleteVertsForShape(NiShape* shape, const std::vector<uint16_t>& indices) {
	if (indices.empty())
		return false;

	if (!shape)
		return false;

	bool allVertsDeleted = false;

	auto geomData = hdr.GetBlock<NiTriBasedGeomData>(shape->DataRef());
	if (geomData) {
		geomData->notifyVerticesDelete(indices);
		if (geomData->GetNumVertices() == 0 || geomData->GetNumTriangles() == 0) {
			// Deleted all verts or tris
			allVertsDeleted = true;
		}
	}

	auto bsTriShape = dynamic_cast<BSTriShape*>(shape);
	if (bsTriShape) {
		bsTriShape->notifyVerticesDelete(indices);
		if (bsTriShape->GetNumVertices() == 0 || bsTriShape->GetNumTriangles() == 0) {
			// Deleted all verts or tris
			allVertsDeleted = true;
		}
	}

	auto skinInst = hdr.GetBlock<NiSkinInstance>(shape->SkinInstanceRef());
	if (skinInst) {
		auto skinData = hdr.GetBlock(skinInst->dataRef);
		if (skinData)
			skinData->notifyVerticesDelete(indices);

		auto skinPartition = hdr.GetBlock(skinInst->skinPartitionRef);
		if (skinPartition) {
			skinPartition->notifyVerticesDelete(indices);

			std::vector<uint32_t> emptyIndices;
			if (skinPartition->RemoveEmptyPartitions(emptyIndices)) {
				auto bsdSkinInst = dynamic_cast<BSDismemberSkinInstance*>(skinInst);
				if (bsdSkinInst) {
					bsdSkinInst->DeletePartitions(emptyIndices);
					UpdatePartitionFlags(shape);
				}
			}
		}
	}

	for (auto& extraDataRef : shape->extraDataRefs) {
		auto integersExtraData = hdr.GetBlock<NiIntegersExtraData>(extraDataRef);
		if (integersExtraData && integersExtraData->name == "LOCKEDNORM") {
			auto integersData = integersExtraData->integersData;
			std::sort(integersData.begin(), integersData.end());

			uint16_t highestRemoved = indices.back();
			uint16_t mapSize = highestRemoved + 1;
			std::vector<int> indexCollapse = GenerateIndexCollapseMap(indices, mapSize);

			for (uint32_t i = integersData.size() - 1; i != NIF_NPOS; i--) {
				auto& val = integersData[i];
				if (val > highestRemoved) {
					val -= static_cast<uint32_t>(indices.size());
				}
				else if (indexCollapse[val] == -1) {
					integersData.erase(i);
				}
				else
					val = indexCollapse[val];
			}

			integersExtraData->integersData = std::move(integersData);
		}
	}

	return allVertsDeleted;
}

int NifFile::CalcShapeDiff(NiShape* shape,
						   const std::vector<Vector3>* targetData,
						   std::unordered_map<uint16_t, Vector3>& outDiffData,
						   float scale) {
	outDiffData.clear();

	const std::vector<Vector3>* myData = GetVertsForShape(shape);
	if (!myData)
		return 1;

	if (!targetData)
		return 2;

	if (myData->size() != targetData->size())
		return 3;

	for (uint16_t i = 0; i < static_cast<uint16_t>(myData->size()); i++) {
		auto& target = targetData->at(i);
		auto& src = myData->at(i);

		Vector3 v;
		v.x = (target.x * scale) - src.x;
		v.y = (target.y * scale) - src.y;
		v.z = (target.z * scale) - src.z;

		if (v.IsZero(true))
			continue;

		outDiffData[i] = v;
	}

	return 0;
}

int NifFile::CalcUVDiff(NiShape* shape,
						const std::vector<Vector2>* targetData,
						std::unordered_map<uint16_t, Vector3>& outDiffData,
						float scale) {
	outDiffData.clear();

	const std::vector<Vector2>* myData = GetUvsForShape(shape);
	if (!myData)
		return 1;

	if (!targetData)
		return 2;

	if (myData->size() != targetData->size())
		return 3;

	for (uint16_t i = 0; i < static_cast<uint16_t>(myData->size()); i++) {
		Vector3 v;
		v.x = (targetData->at(i).u - myData->at(i).u) * scale;
		v.y = (targetData->at(i).v - myData->at(i).v) * scale;

		if (v.IsZero(true))
			continue;

		outDiffData[i] = v;
	}

	return 0;
}

void NifFile::UpdateSkinPartitions(NiShape* shape) {
	NiSkinData* skinData = nullptr;
	NiSkinPartition* skinPart = nullptr;
	auto skinInst = hdr.GetBlock<NiSkinInstance>(shape->SkinInstanceRef());
	if (skinInst) {
		skinData = hdr.GetBlock(skinInst->dataRef);
		skinPart = hdr.GetBlock(skinInst->skinPartitionRef);

		if (!skinData || !skinPart)
			return;
	}
	else
		return;

	std::vector<Triangle> tris;
	if (!shape->GetTriangles(tris))
		return;

	auto bsdSkinInst = dynamic_cast<BSDismemberSkinInstance*>(skinInst);
	auto bsTriShape = dynamic_cast<BSTriShape*>(shape);
	if (bsTriShape)
		bsTriShape->CalcDataSizes(hdr.GetVersion());

	// Align triangles for comparisons
	for (auto& t : tris)
		t.rot();

	// Make maps of vertices to bones and weights
	std::unordered_map<uint16_t, std::vector<SkinWeight>> vertBoneWeights;
	uint16_t boneIndex = 0;
	for (auto& bone : skinData->bones) {
		for (auto& bw : bone.vertexWeights)
			vertBoneWeights[bw.index].push_back(SkinWeight(boneIndex, bw.weight));

		boneIndex++;
	}

	// Sort weights and corresponding bones
	for (auto& bw : vertBoneWeights)
		sort(bw.second.begin(), bw.second.end(), BoneWeightsSort());

	// Enforce maximum vertex bone weight count
	const uint16_t maxBonesPerVertex = 4;

	for (auto& bw : vertBoneWeights)
		if (bw.second.size() > maxBonesPerVertex)
			bw.second.resize(maxBonesPerVertex);

	skinPart->PrepareTriParts(tris);
	std::vector<int>& triParts = skinPart->triParts;

	uint16_t maxBonesPerPartition = std::numeric_limits<uint16_t>::max();
	if (hdr.GetVersion().IsOB() || hdr.GetVersion().IsFO3())
		maxBonesPerPartition = 18;
	else if (hdr.GetVersion().IsSSE())
		maxBonesPerPartition = 80;

	// Make a list of the bones used by each partition.  If any partition
	// has too many bones, split it.
	std::vector<std::set<int>> partBones(skinPart->partitions.size());
	for (size_t triIndex = 0; triIndex < tris.size(); ++triIndex) {
		int partInd = triParts[triIndex];
		if (partInd < 0)
			continue;

		Triangle tri = tris[triIndex];

		// Get associated bones for the current tri
		std::set<int> triBones;
		for (uint32_t i = 0; i < 3; i++)
			for (auto& tb : vertBoneWeights[tri[i]])
				triBones.insert(tb.index);

		// How many new bones are in the tri's bone list?
		uint16_t newBoneCount = 0;
		for (auto& tb : triBones)
			if (partBones[partInd].find(tb) == partBones[partInd].end())
				newBoneCount++;

		const auto partBonesSize = static_cast<uint16_t>(partBones[partInd].size());
		if (partBonesSize + newBoneCount > maxBonesPerPartition) {
			// Too many bones for this partition, make a new partition starting with this triangle
			for (size_t j = 0; j < tris.size(); ++j)
				if (triParts[j] > partInd || (j >= triIndex && triParts[j] >= partInd))
					++triParts[j];

			partBones.insert(partBones.begin() + partInd + 1, std::set<int>());

			if (bsdSkinInst) {
				BSDismemberSkinInstance::PartitionInfo info;
				info.flags = PF_EDITOR_VISIBLE;
				info.partID = bsdSkinInst->partitions[partInd].partID;
				bsdSkinInst->partitions.insert(partInd + 1, info);
			}

			++partInd;
		}

		partBones[partInd].insert(triBones.begin(), triBones.end());
	}

	// Re-create partitions
	std::vector<NiSkinPartition::PartitionBlock> partitions(partBones.size());
	for (size_t partInd = 0; partInd < partBones.size(); partInd++) {
		NiSkinPartition::PartitionBlock& part = partitions[partInd];
		part.hasBoneIndices = true;
		part.hasFaces = true;
		part.hasVertexMap = true;
		part.hasVertexWeights = true;
		part.numWeightsPerVertex = maxBonesPerVertex;
	}
	skinPart->numPartitions = static_cast<uint32_t>(partitions.size());
	skinPart->partitions = std::move(partitions);

	// Re-create trueTriangles, vertexMap, and triangles for each partition
	skinPart->GenerateTrueTrianglesFromTriParts(tris);
	skinPart->PrepareVertexMapsAndTriangles();

	for (uint32_t partInd = 0; partInd < skinPart->numPartitions; ++partInd) {
		NiSkinPartition::PartitionBlock& part = skinPart->partitions[partInd];

		// Copy relevant data from shape to partition
		if (bsTriShape)
			part.vertexDesc = bsTriShape->vertexDesc;

		std::unordered_map<int, uint8_t> boneLookup;
		boneLookup.reserve(partBones[partInd].size());
		part.numBones = static_cast<uint16_t>(partBones[partInd].size());
		part.bones.reserve(part.numBones);

		for (auto& b : partBones[partInd]) {
			part.bones.push_back(static_cast<uint16_t>(b));
			boneLookup[b] = static_cast<uint8_t>(part.bones.size() - 1);
		}

		for (auto& v : part.vertexMap) {
			BoneIndices b;
			VertexWeight vw;

			uint8_t* pb = &b.i1;
			float* pw = &vw.w1;

			float tot = 0.0f;
			for (size_t bi = 0; bi < vertBoneWeights[v].size(); bi++) {
				if (bi == 4)
					break;

				pb[bi] = boneLookup[vertBoneWeights[v][bi].index];
				pw[bi] = vertBoneWeights[v][bi].weight;
				tot += pw[bi];
			}

			if (tot != 0.0f)
				for (int bi = 0; bi < 4; bi++)
					pw[bi] /= tot;

			part.boneIndices.push_back(b);
			part.vertexWeights.push_back(vw);
		}
	}

	if (bsTriShape) {
		skinPart->numVertices = bsTriShape->GetNumVertices();
		skinPart->dataSize = bsTriShape->dataSize;
		skinPart->vertexSize = bsTriShape->vertexSize;
		skinPart->vertData = bsTriShape->vertData;
		skinPart->vertexDesc = bsTriShape->vertexDesc;
	}

	UpdatePartitionFlags(shape);
}

void NifFile::UpdatePartitionFlags(NiShape* shape) {
	auto bsdSkinInst = hdr.GetBlock<BSDismemberSkinInstance>(shape->SkinInstanceRef());
	if (!bsdSkinInst)
		return;

	auto skinPart = hdr.GetBlock(bsdSkinInst->skinPartitionRef);
	if (!skinPart)
		return;

	for (uint32_t i = 0; i < bsdSkinInst->partitions.size(); i++) {
		PartitionFlags flags = PF_NONE;

		if (hdr.GetVersion().IsFO3()) {
			// Don't make FO3/NV meat caps visible
			if (bsdSkinInst->partitions[i].partID < 100 || bsdSkinInst->partitions[i].partID >= 1000)
				flags = PartitionFlags(flags | PF_EDITOR_VISIBLE);
		}
		else
			flags = PartitionFlags(flags | PF_EDITOR_VISIBLE);

		if (i != 0) {
			// Start a new set if the previous bones are different
			if (skinPart->partitions[i].bones != skinPart->partitions[i - 1].bones)
				flags = PartitionFlags(flags | PF_START_NET_BONESET);
		}
		else
			flags = PartitionFlags(flags | PF_START_NET_BONESET);

		bsdSkinInst->partitions[i].flags = flags;
	}
}

void NifFile::CreateSkinning(NiShape* shape) {
	if (shape->HasType<NiTriShape>() || shape->HasType<NiTriStrips>()) {
		if (shape->SkinInstanceRef()->IsEmpty()) {
			int skinDataID = hdr.AddBlock(std::make_unique<NiSkinData>());
			int partID = hdr.AddBlock(std::make_unique<NiSkinPartition>());

			NiSkinInstance* skinInst;
			int skinInstID;

			if (hdr.GetVersion().File() == NiFileVersion::V20_2_0_7) {
				auto [nifDismemberInstS, nifDismemberInst] = make_unique<BSDismemberSkinInstance>();
				skinInstID = hdr.AddBlock(std::move(nifDismemberInstS));
				skinInst = nifDismemberInst;
			}
			else {
				auto [nifSkinInstS, nifSkinInst] = make_unique<NiSkinInstance>();
				skinInstID = hdr.AddBlock(std::move(nifSkinInstS));
				skinInst = nifSkinInst;
			}

			skinInst->dataRef.index = skinDataID;
			skinInst->skinPartitionRef.index = partID;
			skinInst->targetRef.index = GetBlockID(GetRootNode());
			shape->SkinInstanceRef()->index = skinInstID;
			shape->SetSkinned(true);

			SetDefaultPartition(shape);
		}
	}
	else if (shape->HasType<BSTriShape>()) {
		if (shape->SkinInstanceRef()->IsEmpty()) {
			int skinInstID = 0;
			if (hdr.GetVersion().Stream() == 100) {
				int skinDataID = hdr.AddBlock(std::make_unique<NiSkinData>());

				auto nifSkinPartition = std::make_unique<NiSkinPartition>();
				nifSkinPartition->bMappedIndices = false;
				int partID = hdr.AddBlock(std::move(nifSkinPartition));

				auto nifDismemberInst = std::make_unique<BSDismemberSkinInstance>();

				nifDismemberInst->dataRef.index = skinDataID;
				nifDismemberInst->skinPartitionRef.index = partID;
				nifDismemberInst->targetRef.index = GetBlockID(GetRootNode());

				skinInstID = hdr.AddBlock(std::move(nifDismemberInst));

				shape->SkinInstanceRef()->index = skinInstID;
				shape->SetSkinned(true);

				SetDefaultPartition(shape);
				UpdateSkinPartitions(shape);
			}
			else {
				auto [newSkinInstS, newSkinInst] = make_unique<BSSkinInstance>();
				skinInstID = hdr.AddBlock(std::move(newSkinInstS));

				int boneDataRef = hdr.AddBlock(std::make_unique<BSSkinBoneData>());

				newSkinInst->targetRef.index = GetBlockID(GetRootNode());
				newSkinInst->dataRef.index = boneDataRef;

				shape->SkinInstanceRef()->index = skinInstID;
				shape->SetSkinned(true);
			}
		}
	}

	NiShader* shader = GetShader(shape);
	if (shader)
		shader->SetSkinned(true);
}

void NifFile::SetShapeDynamic(const std::string& shapeName) {
	auto shape = FindBlockByName<NiShape>(shapeName);
	if (!shape)
		return;

	// Set consistency flag to mutable
	auto geomData = hdr.GetBlock<NiGeometryData>(shape->DataRef());
	if (geomData)
		geomData->consistencyFlags = CT_MUTABLE;
}
