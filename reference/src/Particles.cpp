/*
nifly
C++ NIF library for the Gamebryo/NetImmerse File Format
See the included GPLv3 LICENSE file
*/

#include "Particles.hpp"

using namespace nifly;

NiParticlesData::NiParticlesData() {
	NiGeometryData::isPSys = true;
}

void NiParticlesData::Sync(NiStreamReversible& stream) {
	stream.Sync(hasRadii);
	if (hasRadii && stream.GetVersion().File() != V20_2_0_7) {
		radii.resize(numVertices);
		for (float& r : radii)
			stream.Sync(r);
	}

	stream.Sync(numActive);

	stream.Sync(hasSizes);
	if (hasSizes && stream.GetVersion().File() != V20_2_0_7) {
		sizes.resize(numVertices);
		for (float& s : sizes)
			stream.Sync(s);
	}

	stream.Sync(hasRotations);
	if (hasRotations && stream.GetVersion().File() != V20_2_0_7) {
		rotations.resize(numVertices);
		for (Quaternion& q : rotations)
			stream.Sync(q);
	}

	stream.Sync(hasRotationAngles);
	if (hasRotationAngles && stream.GetVersion().File() != V20_2_0_7) {
		rotationAngles.resize(numVertices);
		for (float& a : rotationAngles)
			stream.Sync(a);
	}

	stream.Sync(hasRotationAxes);
	if (hasRotationAxes && stream.GetVersion().File() != V20_2_0_7) {
		rotationAxes.resize(numVertices);
		for (Vector3& a : rotationAxes)
			stream.Sync(a);
	}

	if (stream.GetVersion().File() == V20_2_0_7) {
		stream.Sync(hasTextureIndices);

		uint32_t sz = 0;

		if (stream.GetVersion().User() >= 12) {
			sz = subtexOffsets.SyncSize(stream);
		}
		else {
			uint8_t numOffsets = subtexOffsets.size() > 255 ? 255 : static_cast<uint8_t>(subtexOffsets.size());
			stream.Sync(numOffsets);
			sz = numOffsets;
		}

		subtexOffsets.SyncData(stream, sz);

		if (stream.GetVersion().User() >= 12) {
			stream.Sync(aspectRatio);
			stream.Sync(aspectFlags);
			stream.Sync(speedToAspectAspect2);
			stream.Sync(speedToAspectSpeed1);
			stream.Sync(speedToAspectSpeed2);
		}
	}
}


void NiParticleMeshesData::Sync(NiStreamReversible& stream) {
	dataRef.Sync(stream);
}

void NiParticleMeshesData::GetChildRefs(std::set<NiRef*>& refs) {
	NiRotatingParticlesData::GetChildRefs(refs);

	refs.insert(&dataRef);
}

void NiParticleMeshesData::GetChildIndices(std::vector<uint32_t>& indices) {
	NiRotatingParticlesData::GetChildIndices(indices);

	indices.push_back(dataRef.index);
}


void NiPSysData::Sync(NiStreamReversible& stream) {
	if (stream.GetVersion().File() != V20_2_0_7) {
		particleInfo.resize(numVertices);
		for (auto& pi : particleInfo)
			pi.Sync(stream);
	}

	if (stream.GetVersion().Stream() > 130)
		stream.Sync(unknownVector);

	if (stream.GetVersion().File() == V20_2_4_7)
		stream.Sync(unknownQQSpeedByte1);

	if (stream.GetVersion().File() >= V20_0_0_2) {
		stream.Sync(hasRotationSpeeds);

		if (hasRotationSpeeds && stream.GetVersion().File() != V20_2_0_7) {
			rotationSpeeds.resize(numVertices);
			for (auto& rs : rotationSpeeds)
				stream.Sync(rs);
		}
	}

	if (stream.GetVersion().File() != V20_2_0_7) {
		stream.Sync(numAddedParticles);
		stream.Sync(addedParticlesBase);
	}

	if (stream.GetVersion().File() == V20_2_4_7)
		stream.Sync(unknownQQSpeedByte2);
}


void NiMeshPSysData::Sync(NiStreamReversible& stream) {
	stream.Sync(defaultPoolSize);
	stream.Sync(fillPoolsOnLoad);

	generationPoolSize.Sync(stream);
	nodeRef.Sync(stream);
}

void NiMeshPSysData::GetChildRefs(std::set<NiRef*>& refs) {
	NiPSysData::GetChildRefs(refs);

	refs.insert(&nodeRef);
}

void NiMeshPSysData::GetChildIndices(std::vector<uint32_t>& indices) {
	NiPSysData::GetChildIndices(indices);

	indices.push_back(nodeRef.index);
}


void BSStripPSysData::Sync(NiStreamReversible& stream) {
	stream.Sync(maxPointCount);
	stream.Sync(startCapSize);
	stream.Sync(endCapSize);
	stream.Sync(doZPrepass);
}


void NiPSysEmitterCtlrData::Sync(NiStreamReversible& stream) {
	floatKeys.Sync(stream);
	visibilityKeys.Sync(stream);
}


void NiPSysEmitterCtlr::Sync(NiStreamReversible& stream) {
	if (stream.GetVersion().File() < V10_1_0_104)
		dataRef.Sync(stream);
	else
		visInterpolatorRef.Sync(stream);
}

void NiPSysEmitterCtlr::GetChildRefs(std::set<NiRef*>& refs) {
	NiPSysModifierCtlr::GetChildRefs(refs);

	refs.insert(&dataRef);
	refs.insert(&visInterpolatorRef);
}

void NiPSysEmitterCtlr::GetChildIndices(std::vector<uint32_t>& indices) {
	NiPSysModifierCtlr::GetChildIndices(indices);

	indices.push_back(dataRef.index);
	indices.push_back(visInterpolatorRef.index);
}


void BSPSysMultiTargetEmitterCtlr::Sync(NiStreamReversible& stream) {
	stream.Sync(maxEmitters);
	masterParticleSystemRef.Sync(stream);
}

void BSPSysMultiTargetEmitterCtlr::GetPtrs(std::set<NiPtr*>& ptrs) {
	NiPSysEmitterCtlr::GetPtrs(ptrs);

	ptrs.insert(&masterParticleSystemRef);
}


void NiPSysModifier::Sync(NiStreamReversible& stream) {
	name.Sync(stream);

	stream.Sync(order);
	targetRef.Sync(stream);
	stream.Sync(isActive);
}

void NiPSysModifier::GetStringRefs(std::vector<NiStringRef*>& refs) {
	NiObject::GetStringRefs(refs);

	refs.emplace_back(&name);
}

void NiPSysModifier::GetPtrs(std::set<NiPtr*>& ptrs) {
	NiObject::GetPtrs(ptrs);

	ptrs.insert(&targetRef);
}


void BSPSysStripUpdateModifier::Sync(NiStreamReversible& stream) {
	stream.Sync(updateDeltaTime);
}


void NiPSysSpawnModifier::Sync(NiStreamReversible& stream) {
	stream.Sync(numSpawnGenerations);
	stream.Sync(percentSpawned);
	stream.Sync(minSpawned);
	stream.Sync(maxSpawned);
	stream.Sync(spawnSpeedVariation);
	stream.Sync(spawnDirVariation);
	stream.Sync(lifeSpan);
	stream.Sync(lifeSpanVariation);
}


void NiPSysAgeDeathModifier::Sync(NiStreamReversible& stream) {
	stream.Sync(spawnOnDeath);
	spawnModifierRef.Sync(stream);
}

void NiPSysAgeDeathModifier::GetChildRefs(std::set<NiRef*>& refs) {
	NiPSysModifier::GetChildRefs(refs);

	refs.insert(&spawnModifierRef);
}

void NiPSysAgeDeathModifier::GetChildIndices(std::vector<uint32_t>& indices) {
	NiPSysModifier::GetChildIndices(indices);

	indices.push_back(spawnModifierRef.index);
}


void BSPSysLODModifier::Sync(NiStreamReversible& stream) {
	stream.Sync(lodBeginDistance);
	stream.Sync(lodEndDistance);
	stream.Sync(endEmitScale);
	stream.Sync(endSize);
}


void BSPSysSimpleColorModifier::Sync(NiStreamReversible& stream) {
	stream.Sync(fadeInPercent);
	stream.Sync(fadeOutPercent);
	stream.Sync(color1EndPercent);
	stream.Sync(color2StartPercent);
	stream.Sync(color2EndPercent);
	stream.Sync(color3StartPercent);
	stream.Sync(color1);
	stream.Sync(color2);
	stream.Sync(color3);

	if (stream.GetVersion().Stream() > 130) {
		for (uint16_t& unknownShort : unknownShorts)
			stream.Sync(unknownShort);
	}
}


void NiPSysRotationModifier::Sync(NiStreamReversible& stream) {
	stream.Sync(initialSpeed);
	stream.Sync(initialSpeedVariation);

	if (stream.GetVersion().Stream() > 130) {
		stream.Sync(unknownVector);
		stream.Sync(unknownByte);
	}

	stream.Sync(initialAngle);
	stream.Sync(initialAngleVariation);
	stream.Sync(randomSpeedSign);
	stream.Sync(randomInitialAxis);
	stream.Sync(initialAxis);
}


void BSPSysScaleModifier::Sync(NiStreamReversible& stream) {
	floats.Sync(stream);
}


void NiPSysGravityModifier::Sync(NiStreamReversible& stream) {
	gravityObjRef.Sync(stream);
	stream.Sync(gravityAxis);
	stream.Sync(decay);
	stream.Sync(strength);
	stream.Sync(forceType);
	stream.Sync(turbulence);
	stream.Sync(turbulenceScale);

	if (stream.GetVersion().Stream() > 16)
		stream.Sync(worldAligned);
}

void NiPSysGravityModifier::GetPtrs(std::set<NiPtr*>& ptrs) {
	NiPSysModifier::GetPtrs(ptrs);

	ptrs.insert(&gravityObjRef);
}


void NiPSysBoundUpdateModifier::Sync(NiStreamReversible& stream) {
	stream.Sync(updateSkip);
}


void NiPSysDragModifier::Sync(NiStreamReversible& stream) {
	parentRef.Sync(stream);
	stream.Sync(dragAxis);
	stream.Sync(percentage);
	stream.Sync(range);
	stream.Sync(rangeFalloff);
}

void NiPSysDragModifier::GetPtrs(std::set<NiPtr*>& ptrs) {
	NiPSysModifier::GetPtrs(ptrs);

	ptrs.insert(&parentRef);
}


void BSPSysInheritVelocityModifier::Sync(NiStreamReversible& stream) {
	targetNodeRef.Sync(stream);
	stream.Sync(changeToInherit);
	stream.Sync(velocityMult);
	stream.Sync(velocityVar);
}

void BSPSysInheritVelocityModifier::GetPtrs(std::set<NiPtr*>& ptrs) {
	NiPSysModifier::GetPtrs(ptrs);

	ptrs.insert(&targetNodeRef);
}


void BSPSysSubTexModifier::Sync(NiStreamReversible& stream) {
	stream.Sync(startFrame);
	stream.Sync(startFrameVariation);
	stream.Sync(endFrame);
	stream.Sync(loopStartFrame);
	stream.Sync(loopStartFrameVariation);
	stream.Sync(frameCount);
	stream.Sync(frameCountVariation);
}


void NiPSysBombModifier::Sync(NiStreamReversible& stream) {
	bombNodeRef.Sync(stream);
	stream.Sync(bombAxis);
	stream.Sync(decay);
	stream.Sync(deltaV);
	stream.Sync(decayType);
	stream.Sync(symmetryType);
}

void NiPSysBombModifier::GetPtrs(std::set<NiPtr*>& ptrs) {
	NiPSysModifier::GetPtrs(ptrs);

	ptrs.insert(&bombNodeRef);
}


void NiColorData::Sync(NiStreamReversible& stream) {
	data.Sync(stream);
}


void NiPSysColorModifier::Sync(NiStreamReversible& stream) {
	dataRef.Sync(stream);
}

void NiPSysColorModifier::GetChildRefs(std::set<NiRef*>& refs) {
	NiPSysModifier::GetChildRefs(refs);

	refs.insert(&dataRef);
}

void NiPSysColorModifier::GetChildIndices(std::vector<uint32_t>& indices) {
	NiPSysModifier::GetChildIndices(indices);

	indices.push_back(dataRef.index);
}


void NiPSysGrowFadeModifier::Sync(NiStreamReversible& stream) {
	stream.Sync(growTime);
	stream.Sync(growGeneration);
	stream.Sync(fadeTime);
	stream.Sync(fadeGeneration);

	if (stream.GetVersion().Stream() >= 34)
		stream.Sync(baseScale);
}


void NiPSysMeshUpdateModifier::Sync(NiStreamReversible& stream) {
	meshRefs.Sync(stream);
}

void NiPSysMeshUpdateModifier::GetChildRefs(std::set<NiRef*>& refs) {
	NiPSysModifier::GetChildRefs(refs);

	meshRefs.GetIndexPtrs(refs);
}

void NiPSysMeshUpdateModifier::GetChildIndices(std::vector<uint32_t>& indices) {
	NiPSysModifier::GetChildIndices(indices);

	meshRefs.GetIndices(indices);
}


void NiPSysFieldModifier::Sync(NiStreamReversible& stream) {
	fieldObjectRef.Sync(stream);
	stream.Sync(magnitude);
	stream.Sync(attenuation);
	stream.Sync(useMaxDistance);
	stream.Sync(maxDistance);
}

void NiPSysFieldModifier::GetChildRefs(std::set<NiRef*>& refs) {
	NiPSysModifier::GetChildRefs(refs);

	refs.insert(&fieldObjectRef);
}

void NiPSysFieldModifier::GetChildIndices(std::vector<uint32_t>& indices) {
	NiPSysModifier::GetChildIndices(indices);

	indices.push_back(fieldObjectRef.index);
}


void NiPSysVortexFieldModifier::Sync(NiStreamReversible& stream) {
	stream.Sync(direction);
}


void NiPSysGravityFieldModifier::Sync(NiStreamReversible& stream) {
	stream.Sync(direction);
}


void NiPSysDragFieldModifier::Sync(NiStreamReversible& stream) {
	stream.Sync(useDirection);
	stream.Sync(direction);
}


void NiPSysTurbulenceFieldModifier::Sync(NiStreamReversible& stream) {
	stream.Sync(frequency);
}


void NiPSysAirFieldModifier::Sync(NiStreamReversible& stream) {
	stream.Sync(direction);
	stream.Sync(airFriction);
	stream.Sync(inheritVelocity);
	stream.Sync(inheritRotation);
	stream.Sync(componentOnly);
	stream.Sync(enableSpread);
	stream.Sync(spread);
}


void NiPSysRadialFieldModifier::Sync(NiStreamReversible& stream) {
	stream.Sync(radialType);
}


void BSWindModifier::Sync(NiStreamReversible& stream) {
	stream.Sync(strength);
}


void BSPSysRecycleBoundModifier::Sync(NiStreamReversible& stream) {
	stream.Sync(boundOffset);
	stream.Sync(boundExtent);
	targetNodeRef.Sync(stream);
}

void BSPSysRecycleBoundModifier::GetPtrs(std::set<NiPtr*>& ptrs) {
	NiPSysModifier::GetPtrs(ptrs);

	ptrs.insert(&targetNodeRef);
}


void BSPSysHavokUpdateModifier::Sync(NiStreamReversible& stream) {
	nodeRefs.Sync(stream);
	modifierRef.Sync(stream);
}

void BSPSysHavokUpdateModifier::GetChildRefs(std::set<NiRef*>& refs) {
	NiPSysModifier::GetChildRefs(refs);

	nodeRefs.GetIndexPtrs(refs);
	refs.insert(&modifierRef);
}

void BSPSysHavokUpdateModifier::GetChildIndices(std::vector<uint32_t>& indices) {
	NiPSysModifier::GetChildIndices(indices);

	nodeRefs.GetIndices(indices);
	indices.push_back(modifierRef.index);
}


void BSParentVelocityModifier::Sync(NiStreamReversible& stream) {
	stream.Sync(damping);
}


void BSMasterParticleSystem::Sync(NiStreamReversible& stream) {
	stream.Sync(maxEmitterObjs);
	particleSysRefs.Sync(stream);
}

void BSMasterParticleSystem::GetChildRefs(std::set<NiRef*>& refs) {
	NiNode::GetChildRefs(refs);

	particleSysRefs.GetIndexPtrs(refs);
}

void BSMasterParticleSystem::GetChildIndices(std::vector<uint32_t>& indices) {
	NiNode::GetChildIndices(indices);

	particleSysRefs.GetIndices(indices);
}


void NiParticleSystem::Sync(NiStreamReversible& stream) {
	if (stream.GetVersion().Stream() >= 100) {
		stream.Sync(bounds);

		if (stream.GetVersion().Stream() > 139)
			for (float& i : boundMinMax)
				stream.Sync(i);

		skinInstanceRef.Sync(stream);
		shaderPropertyRef.Sync(stream);
		alphaPropertyRef.Sync(stream);
		stream.Sync(vertFlags1);
		stream.Sync(vertFlags2);
		stream.Sync(vertFlags3);
		stream.Sync(vertFlags4);
		stream.Sync(vertFlags5);
		stream.Sync(vertFlags6);
		stream.Sync(vertFlags7);
		stream.Sync(vertFlags8);
	}
	else {
		dataRef.Sync(stream);
		psysDataRef.index = dataRef.index;
		skinInstanceRef.Sync(stream);

		if (stream.GetVersion().File() >= V10_0_1_0 && stream.GetVersion().File() <= V20_1_0_3) {
			stream.Sync(hasShader);
			if (hasShader) {
				shaderName.Sync(stream);
				stream.Sync(shaderExtraData);
			}
		}

		if (stream.GetVersion().File() >= V20_2_0_5) {
			uint32_t numMaterials = materialNames.Sync(stream);
			materialExtraData.SyncData(stream, numMaterials);

			stream.Sync(activeMaterial);
		}

		if (stream.GetVersion().File() >= V20_2_0_7)
			stream.Sync(defaultMatNeedsUpdate);

		if (stream.GetVersion().User() >= 12) {
			shaderPropertyRef.Sync(stream);
			alphaPropertyRef.Sync(stream);
		}
	}

	if (stream.GetVersion().User() >= 12) {
		stream.Sync(farBegin);
		stream.Sync(farEnd);
		stream.Sync(nearBegin);
		stream.Sync(nearEnd);

		if (stream.GetVersion().Stream() >= 100) {
			psysDataRef.Sync(stream);
			dataRef.index = psysDataRef.index;
		}
	}

	stream.Sync(isWorldSpace);
	modifierRefs.Sync(stream);
}

void NiParticleSystem::GetStringRefs(std::vector<NiStringRef*>& refs) {
	NiAVObject::GetStringRefs(refs);

	refs.emplace_back(&shaderName);

	for (auto& mn : materialNames)
		refs.emplace_back(&mn);
}

void NiParticleSystem::GetChildRefs(std::set<NiRef*>& refs) {
	NiAVObject::GetChildRefs(refs);

	refs.insert(&dataRef);
	refs.insert(&skinInstanceRef);
	refs.insert(&shaderPropertyRef);
	refs.insert(&alphaPropertyRef);
	refs.insert(&psysDataRef);
	modifierRefs.GetIndexPtrs(refs);
}

void NiParticleSystem::GetChildIndices(std::vector<uint32_t>& indices) {
	NiAVObject::GetChildIndices(indices);

	indices.push_back(dataRef.index);
	indices.push_back(skinInstanceRef.index);
	indices.push_back(shaderPropertyRef.index);
	indices.push_back(alphaPropertyRef.index);
	indices.push_back(psysDataRef.index);
	modifierRefs.GetIndices(indices);
}


void NiPSysCollider::Sync(NiStreamReversible& stream) {
	stream.Sync(bounce);
	stream.Sync(spawnOnCollide);
	stream.Sync(dieOnCollide);
	spawnModifierRef.Sync(stream);
	managerRef.Sync(stream);
	nextColliderRef.Sync(stream);
	colliderNodeRef.Sync(stream);
}

void NiPSysCollider::GetChildRefs(std::set<NiRef*>& refs) {
	NiObject::GetChildRefs(refs);

	refs.insert(&spawnModifierRef);
	refs.insert(&nextColliderRef);
}

void NiPSysCollider::GetChildIndices(std::vector<uint32_t>& indices) {
	NiObject::GetChildIndices(indices);

	indices.push_back(spawnModifierRef.index);
	indices.push_back(nextColliderRef.index);
}

void NiPSysCollider::GetPtrs(std::set<NiPtr*>& ptrs) {
	NiObject::GetPtrs(ptrs);

	ptrs.insert(&managerRef);
	ptrs.insert(&colliderNodeRef);
}


void NiPSysSphericalCollider::Sync(NiStreamReversible& stream) {
	stream.Sync(radius);
}


void NiPSysPlanarCollider::Sync(NiStreamReversible& stream) {
	stream.Sync(width);
	stream.Sync(height);
	stream.Sync(xAxis);
	stream.Sync(yAxis);
}


void NiPSysColliderManager::Sync(NiStreamReversible& stream) {
	colliderRef.Sync(stream);
}

void NiPSysColliderManager::GetChildRefs(std::set<NiRef*>& refs) {
	NiPSysModifier::GetChildRefs(refs);

	refs.insert(&colliderRef);
}

void NiPSysColliderManager::GetChildIndices(std::vector<uint32_t>& indices) {
	NiPSysModifier::GetChildIndices(indices);

	indices.push_back(colliderRef.index);
}


void NiPSysEmitter::Sync(NiStreamReversible& stream) {
	stream.Sync(speed);
	stream.Sync(speedVariation);
	stream.Sync(declination);
	stream.Sync(declinationVariation);
	stream.Sync(planarAngle);
	stream.Sync(planarAngleVariation);
	stream.Sync(color);
	stream.Sync(radius);
	stream.Sync(radiusVariation);
	stream.Sync(lifeSpan);
	stream.Sync(lifeSpanVariation);
}


void NiPSysVolumeEmitter::Sync(NiStreamReversible& stream) {
	emitterNodeRef.Sync(stream);
}

void NiPSysVolumeEmitter::GetPtrs(std::set<NiPtr*>& ptrs) {
	NiPSysEmitter::GetPtrs(ptrs);

	ptrs.insert(&emitterNodeRef);
}


void NiPSysSphereEmitter::Sync(NiStreamReversible& stream) {
	stream.Sync(radius);
}


void NiPSysCylinderEmitter::Sync(NiStreamReversible& stream) {
	stream.Sync(radius);
	stream.Sync(height);
}


void NiPSysBoxEmitter::Sync(NiStreamReversible& stream) {
	stream.Sync(width);
	stream.Sync(height);
	stream.Sync(depth);
}


void NiPSysMeshEmitter::Sync(NiStreamReversible& stream) {
	meshRefs.Sync(stream);

	stream.Sync(velocityType);
	stream.Sync(emissionType);
	stream.Sync(emissionAxis);
}

void NiPSysMeshEmitter::GetPtrs(std::set<NiPtr*>& ptrs) {
	NiPSysEmitter::GetPtrs(ptrs);

	meshRefs.GetIndexPtrs(ptrs);
}
