/*
nifly
C++ NIF library for the Gamebryo/NetImmerse File Format
See the included GPLv3 LICENSE file
*/

#include "Geometry.hpp"
#include "Nodes.hpp"
#include "Skin.hpp"

#include "KDMatcher.hpp"
#include "NifUtil.hpp"

#include <array>

using namespace nifly;

void NiAdditionalGeometryData::Sync(NiStreamReversible& stream) {
	stream.Sync(numVertices);

	blockInfos.Sync(stream);
	blocks.Sync(stream);
}


void BSPackedAdditionalGeometryData::Sync(NiStreamReversible& stream) {
	stream.Sync(numVertices);

	blockInfos.Sync(stream);
	blocks.Sync(stream);
}


void NiGeometryData::Sync(NiStreamReversible& stream) {
	if (stream.GetVersion().File() >= NiFileVersion::V10_1_0_114)
		stream.Sync(groupID);

	stream.Sync(numVertices);

	if (stream.GetVersion().File() >= NiFileVersion::V10_1_0_0) {
		stream.Sync(keepFlags);
		stream.Sync(compressFlags);
	}

	stream.Sync(hasVertices);

	if (hasVertices && (!isPSys || stream.GetVersion().File() < V20_2_0_7)) {
		vertices.resize(numVertices);
		for (uint16_t i = 0; i < numVertices; i++)
			stream.Sync(vertices[i]);
	}

	// Disable tangent flag for OB (in the file only: tangents are kept in binary extra data there)
	uint16_t fileDataFlags = dataFlags;
	if (stream.GetVersion().IsOB())
		fileDataFlags &= ~(1 << 12);

	if (stream.GetVersion().File() >= NiFileVersion::V10_0_1_0)
		stream.Sync(fileDataFlags);

	if (stream.GetMode() == NiStreamReversible::Mode::Reading)
		dataFlags = fileDataFlags;

	uint16_t nbtMethod = fileDataFlags & 0xF000;
	uint8_t numTextureSets = fileDataFlags & 0x3F;
	if (stream.GetVersion().Stream() >= 34)
		numTextureSets = fileDataFlags & 0x1;

	if (stream.GetVersion().File() == NiFileVersion::V20_2_0_7 && stream.GetVersion().Stream() > 34)
		stream.Sync(materialCRC);

	stream.Sync(hasNormals);
	if (hasNormals && (!isPSys || stream.GetVersion().File() < V20_2_0_7)) {
		normals.resize(numVertices);

		for (uint16_t i = 0; i < numVertices; i++)
			stream.Sync(normals[i]);

		if (nbtMethod) {
			tangents.resize(numVertices);
			bitangents.resize(numVertices);

			for (uint16_t i = 0; i < numVertices; i++)
				stream.Sync(tangents[i]);

			for (uint16_t i = 0; i < numVertices; i++)
				stream.Sync(bitangents[i]);
		}
	}

	stream.Sync(bounds);

	stream.Sync(hasVertexColors);
	if (hasVertexColors && (!isPSys || stream.GetVersion().File() < V20_2_0_7)) {
		vertexColors.resize(numVertices);
		for (uint16_t i = 0; i < numVertices; i++)
			stream.Sync(vertexColors[i]);
	}

	if (numTextureSets > 0 && (!isPSys || stream.GetVersion().File() < V20_2_0_7)) {
		uvSets.resize(numTextureSets);
		for (uint32_t i = 0; i < numTextureSets; i++) {
			uvSets[i].resize(numVertices);
			for (uint16_t j = 0; j < numVertices; j++)
				stream.Sync(uvSets[i][j]);
		}
	}

	stream.Sync(consistencyFlags);

	if (stream.GetVersion().File() >= NiFileVersion::V20_0_0_4)
		additionalDataRef.Sync(stream);
}

void NiGeometryData::GetChildRefs(std::set<NiRef*>& refs) {
	NiObject::GetChildRefs(refs);

	refs.insert(&additionalDataRef);
}

void NiGeometryData::GetChildIndices(std::vector<uint32_t>& indices) {
	NiObject::GetChildIndices(indices);

	indices.push_back(additionalDataRef.index);
}

uint16_t NiGeometryData::GetNumVertices() const {
	return numVertices;
}

void NiGeometryData::SetVertices(const bool enable) {
	hasVertices = enable;
	if (enable) {
		vertices.resize(numVertices);
	}
	else {
		vertices.clear();
		numVertices = 0;

		SetNormals(false);
		SetVertexColors(false);
		SetUVs(false);
		SetTangents(false);
	}
}

void NiGeometryData::SetNormals(const bool enable) {
	hasNormals = enable;
	if (enable)
		normals.resize(numVertices);
	else
		normals.clear();
}

void NiGeometryData::SetVertexColors(const bool enable) {
	hasVertexColors = enable;
	if (enable)
		vertexColors.resize(numVertices, Color4(1.0f, 1.0f, 1.0f, 1.0f));
	else
		vertexColors.clear();
}

void NiGeometryData::SetUVs(const bool enable) {
	if (enable) {
		dataFlags |= 1 << 0;
		uvSets.resize(1);
		uvSets[0].resize(numVertices);
	}
	else {
		dataFlags &= ~(1 << 0);
		uvSets.clear();
	}
}

void NiGeometryData::SetTangents(const bool enable) {
	if (enable) {
		dataFlags |= 1 << 12;
		tangents.resize(numVertices);
		bitangents.resize(numVertices);
	}
	else {
		dataFlags &= ~(1 << 12);
		tangents.clear();
		bitangents.clear();
	}
}

uint32_t NiGeometryData::GetNumTriangles() const {
	return 0;
}
bool NiGeometryData::GetTriangles(std::vector<Triangle>&) const {
	return false;
}
void NiGeometryData::SetTriangles(const std::vector<Triangle>&){};

void NiGeometryData::UpdateBounds() {
	bounds = BoundingSphere(vertices);
}

void NiGeometryData::Create(NiVersion&,
							const std::vector<Vector3>* verts,
							const std::vector<Triangle>*,
							const std::vector<Vector2>* uvs,
							const std::vector<Vector3>* norms) {
	size_t vertCount = verts->size();
	constexpr uint16_t maxIndex = std::numeric_limits<uint16_t>::max();

	if (vertCount > static_cast<size_t>(maxIndex))
		numVertices = maxIndex;
	else
		numVertices = uint16_t(vertCount);

	vertices.resize(numVertices);
	for (uint16_t v = 0; v < numVertices; v++)
		vertices[v] = (*verts)[v];

	bounds = BoundingSphere(vertices);

	if (uvs) {
		size_t uvCount = uvs->size();
		if (uvCount == numVertices) {
			SetUVs(true);

			for (size_t uv = 0; uv < uvSets[0].size(); uv++)
				uvSets[0][uv] = (*uvs)[uv];
		}
		else {
			SetUVs(false);
		}
	}
	else {
		SetUVs(false);
	}

	if (norms && norms->size() == numVertices) {
		SetNormals(true);
		normals = (*norms);
		CalcTangentSpace();
	}
	else {
		SetNormals(false);
		SetTangents(false);
	}
}

void NiGeometryData::notifyVerticesDelete(const std::vector<uint16_t>& vertIndices) {
	EraseVectorIndices(vertices, vertIndices);
	numVertices = static_cast<uint16_t>(vertices.size());
	if (!normals.empty())
		EraseVectorIndices(normals, vertIndices);
	if (!tangents.empty())
		EraseVectorIndices(tangents, vertIndices);
	if (!bitangents.empty())
		EraseVectorIndices(bitangents, vertIndices);
	if (!vertexColors.empty())
		EraseVectorIndices(vertexColors, vertIndices);
	for (auto& uvSet : uvSets)
		EraseVectorIndices(uvSet, vertIndices);
}

void NiGeometryData::RecalcNormals(const bool, const float, std::unordered_set<uint32_t>*) {
	SetNormals(true);
}

void NiGeometryData::CalcTangentSpace() {
	SetTangents(true);
}


uint16_t NiShape::GetNumVertices() const {
	auto geomData = GetGeomData();
	if (geomData)
		return geomData->GetNumVertices();

	return 0;
}

void NiShape::SetVertices(const bool enable) {
	auto geomData = GetGeomData();
	if (geomData)
		geomData->SetVertices(enable);
};

bool NiShape::HasVertices() const {
	auto geomData = GetGeomData();
	if (geomData)
		return geomData->HasVertices();

	return false;
};

void NiShape::SetUVs(const bool enable) {
	auto geomData = GetGeomData();
	if (geomData)
		geomData->SetUVs(enable);
};

bool NiShape::HasUVs() const {
	auto geomData = GetGeomData();
	if (geomData)
		return geomData->HasUVs();

	return false;
};

void NiShape::SetNormals(const bool enable) {
	auto geomData = GetGeomData();
	if (geomData)
		geomData->SetNormals(enable);
};

bool NiShape::HasNormals() const {
	auto geomData = GetGeomData();
	if (geomData)
		return geomData->HasNormals();

	return false;
};

void NiShape::SetTangents(const bool enable) {
	auto geomData = GetGeomData();
	if (geomData)
		geomData->SetTangents(enable);
};

bool NiShape::HasTangents() const {
	auto geomData = GetGeomData();
	if (geomData)
		return geomData->HasTangents();

	return false;
};

void NiShape::SetVertexColors(const bool enable) {
	auto geomData = GetGeomData();
	if (geomData)
		geomData->SetVertexColors(enable);
};

bool NiShape::HasVertexColors() const {
	auto geomData = GetGeomData();
	if (geomData)
		return geomData->HasVertexColors();

	return false;
};

void NiShape::SetSkinned(const bool){};
bool NiShape::IsSkinned() const {
	return false;
};

uint32_t NiShape::GetNumTriangles() const {
	auto geomData = GetGeomData();
	if (geomData)
		return geomData->GetNumTriangles();

	return 0;
}

bool NiShape::GetTriangles(std::vector<Triangle>& tris) const {
	auto geomData = GetGeomData();
	if (geomData)
		return geomData->GetTriangles(tris);

	return false;
};

void NiShape::SetTriangles(const std::vector<Triangle>& tris) {
	auto geomData = GetGeomData();
	if (geomData)
		geomData->SetTriangles(tris);
};

void NiShape::SetBounds(const BoundingSphere& bounds) {
	auto geomData = GetGeomData();
	if (geomData)
		geomData->SetBounds(bounds);
}

BoundingSphere NiShape::GetBounds() const {
	auto geomData = GetGeomData();
	if (geomData)
		return geomData->GetBounds();

	return BoundingSphere();
}

void NiShape::UpdateBounds() {
	auto geomData = GetGeomData();
	if (geomData)
		geomData->UpdateBounds();
}

int NiShape::GetBoneID(const NiHeader& hdr, const std::string& boneName) const {
	auto boneCont = hdr.GetBlock(SkinInstanceRef());
	if (boneCont) {
		int i = 0;
		for (auto& bone : boneCont->boneRefs) {
			auto node = hdr.GetBlock(bone);
			if (node && node->name == boneName)
				return i;
			++i;
		}
	}

	return NIF_NPOS;
}

bool NiShape::ReorderTriangles(const std::vector<uint32_t>& triInds) {
	std::vector<Triangle> trisOrdered;
	std::vector<Triangle> tris;
	if (!GetTriangles(tris))
		return false;

	if (tris.size() != triInds.size())
		return false;

	for (uint32_t id : triInds)
		if (id < tris.size())
			trisOrdered.push_back(tris[id]);

	if (trisOrdered.size() != tris.size())
		return false;

	SetTriangles(trisOrdered);
	return true;
}


BSTriShape::BSTriShape() {
	flags = 14;
	vertexDesc.SetFlag(VF_VERTEX);
	vertexDesc.SetFlag(VF_UV);
	vertexDesc.SetFlag(VF_NORMAL);
	vertexDesc.SetFlag(VF_TANGENT);
	vertexDesc.SetFlag(VF_SKINNED);
}

void BSTriShape::Sync(NiStreamReversible& stream) {
	stream.Sync(flags);
	stream.Sync(transform.translation);
	stream.Sync(transform.rotation);
	stream.Sync(transform.scale);

	collisionRef.Sync(stream);

	stream.Sync(bounds);

	if (stream.GetVersion().Stream() > 139)
		for (float& i : boundMinMax)
			stream.Sync(i);

	skinInstanceRef.Sync(stream);
	shaderPropertyRef.Sync(stream);
	alphaPropertyRef.Sync(stream);

	vertexDesc.Sync(stream);

	bool syncVertexData = true;

	if (stream.GetMode() == NiStreamReversible::Mode::Reading) {
		if (stream.GetVersion().User() >= 12 && stream.GetVersion().Stream() < 130) {
			uint16_t numTris = 0;
			stream.Sync(numTris);
			numTriangles = numTris;
		}
		else
			stream.Sync(numTriangles);
	}
	else {
		if (stream.GetVersion().User() >= 12 && stream.GetVersion().Stream() < 130) {
			if (IsSkinned()) {
				// Triangle and vertex data is in partition instead
				uint16_t numUShort = 0;
				uint32_t numUInt = 0;
				stream.Sync(numUShort);

				if (HasType<BSDynamicTriShape>())
					stream.Sync(numVertices);
				else
					stream.Sync(numUShort);

				stream.Sync(numUInt);
				syncVertexData = false;
			}
			else {
				auto numTris = static_cast<uint16_t>(numTriangles);
				stream.Sync(numTris);
			}
		}
		else
			stream.Sync(numTriangles);
	}

	if (syncVertexData) {
		stream.Sync(numVertices);
		stream.Sync(dataSize);

		vertData.resize(numVertices);

		if (dataSize > 0) {
			uint32_t vertexMainSize = vertexDesc.GetVertexMainSize();

			for (uint16_t i = 0; i < numVertices; i++) {
				auto& vertex = vertData[i];
				if (HasVertices() && vertexMainSize <= 16) {
					if (IsFullPrecision() || stream.GetVersion().Stream() == 100) {
						// Full precision (vert + bitangentX = 16 bytes)
						stream.Sync((char*) &vertex.vert, sizeof(vertex.vert) + sizeof(vertex.bitangentX));
					}
					else {
						// Half precision (vert + bitangentX = 8 bytes)
						stream.SyncHalf(vertex.vert.x);
						stream.SyncHalf(vertex.vert.y);
						stream.SyncHalf(vertex.vert.z);

						stream.SyncHalf(vertex.bitangentX);
					}
				}
				else if (vertexMainSize > 16) {
					// Full precision (vert = 12 bytes)
					stream.Sync((char*) &vertex.vert, sizeof(vertex.vert));

					// Variable length extra float elements
					uint32_t vertexExtraCount = (vertexMainSize - 16) / 4;
					if (vertexExtraCount > 0) {
						vertex.extra.resize(vertexExtraCount);
						for (uint32_t e = 0; e < vertexExtraCount; e++)
							stream.Sync(vertex.extra[e]);
					}

					// BitangentX after extra floats (bitangentX = 4 bytes)
					stream.Sync(vertex.bitangentX);
				}

				if (HasUVs()) {
					stream.SyncHalf(vertex.uv.u);
					stream.SyncHalf(vertex.uv.v);
				}

				if (HasNormals()) {
					// 3 normals + bitangentY = 4 bytes
					stream.Sync((char*) &vertex.normal, sizeof(vertex.normal) + sizeof(vertex.bitangentY));

					if (HasTangents()) {
						// 3 tangents + bitangentZ = 4 bytes
						stream.Sync((char*) &vertex.tangent,
									sizeof(vertex.tangent) + sizeof(vertex.bitangentZ));
					}
				}

				if (HasVertexColors()) {
					// 4 vertex colors = 4 bytes
					stream.Sync((char*) &vertex.colorData, sizeof(vertex.colorData));
				}

				if (IsSkinned()) {
					// 4 weights = 8 bytes
					for (float& weight : vertex.weights)
						stream.SyncHalf(weight);

					// 4 bones = 4 bytes
					stream.Sync((char*) &vertex.weightBones, sizeof(vertex.weightBones));
				}

				if (HasEyeData())
					stream.Sync(vertex.eyeData);
			}
		}

		triangles.resize(numTriangles);

		if (dataSize > 0) {
			for (uint32_t i = 0; i < numTriangles; i++)
				stream.Sync(triangles[i]);
		}
	}

	if (stream.GetVersion().User() == 12 && stream.GetVersion().Stream() == 100) {
		stream.Sync(particleDataSize);

		if (particleDataSize > 0) {
			particleVerts.resize(numVertices);
			particleNorms.resize(numVertices);
			particleTris.resize(numTriangles);

			for (uint16_t i = 0; i < numVertices; i++) {
				stream.SyncHalf(particleVerts[i].x);
				stream.SyncHalf(particleVerts[i].y);
				stream.SyncHalf(particleVerts[i].z);
			}

			for (uint16_t i = 0; i < numVertices; i++) {
				stream.SyncHalf(particleNorms[i].x);
				stream.SyncHalf(particleNorms[i].y);
				stream.SyncHalf(particleNorms[i].z);
			}

			for (uint32_t i = 0; i < numTriangles; i++)
				stream.Sync(particleTris[i]);
		}
	}
}

void BSTriShape::notifyVerticesDelete(const std::vector<uint16_t>& vertIndices) {
	deletedTris.clear();

	std::vector<int> indexCollapse = GenerateIndexCollapseMap(vertIndices, vertData.size());

	EraseVectorIndices(vertData, vertIndices);
	numVertices = static_cast<uint16_t>(vertData.size());

	ApplyMapToTriangles(triangles, indexCollapse, &deletedTris);
	numTriangles = static_cast<uint32_t>(triangles.size());

	std::sort(deletedTris.begin(), deletedTris.end(), std::greater<>());
}

void BSTriShape::GetChildRefs(std::set<NiRef*>& refs) {
	NiAVObject::GetChildRefs(refs);

	refs.insert(&skinInstanceRef);
	refs.insert(&shaderPropertyRef);
	refs.insert(&alphaPropertyRef);
}

void BSTriShape::GetChildIndices(std::vector<uint32_t>& indices) {
	NiAVObject::GetChildIndices(indices);

	indices.push_back(skinInstanceRef.index);
	indices.push_back(shaderPropertyRef.index);
	indices.push_back(alphaPropertyRef.index);
}

std::vector<Vector3>& BSTriShape::UpdateRawVertices() {
	rawVertices.resize(numVertices);

	for (uint16_t i = 0; i < numVertices; i++)
		rawVertices[i] = vertData[i].vert;

	return rawVertices;
}

std::vector<Vector3>& BSTriShape::UpdateRawNormals() {
	if (!HasNormals()) {
		rawNormals.clear();
		return rawNormals;
	}

	rawNormals.resize(numVertices);

	for (uint16_t i = 0; i < numVertices; i++) {
		rawNormals[i].x = ((static_cast<float>(vertData[i].normal[0])) / 255.0f) * 2.0f - 1.0f;
		rawNormals[i].y = ((static_cast<float>(vertData[i].normal[1])) / 255.0f) * 2.0f - 1.0f;
		rawNormals[i].z = ((static_cast<float>(vertData[i].normal[2])) / 255.0f) * 2.0f - 1.0f;
	}

	return rawNormals;
}

std::vector<Vector3>& BSTriShape::UpdateRawTangents() {
	if (!HasTangents()) {
		rawTangents.clear();
		return rawTangents;
	}

	rawTangents.resize(numVertices);
	for (uint16_t i = 0; i < numVertices; i++) {
		rawTangents[i].x = ((static_cast<float>(vertData[i].tangent[0])) / 255.0f) * 2.0f - 1.0f;
		rawTangents[i].y = ((static_cast<float>(vertData[i].tangent[1])) / 255.0f) * 2.0f - 1.0f;
		rawTangents[i].z = ((static_cast<float>(vertData[i].tangent[2])) / 255.0f) * 2.0f - 1.0f;
	}

	return rawTangents;
}

std::vector<Vector3>& BSTriShape::UpdateRawBitangents() {
	if (!HasTangents()) {
		rawBitangents.clear();
		return rawBitangents;
	}

	rawBitangents.resize(numVertices);
	for (uint16_t i = 0; i < numVertices; i++) {
		rawBitangents[i].x = vertData[i].bitangentX;
		rawBitangents[i].y = ((static_cast<float>(vertData[i].bitangentY)) / 255.0f) * 2.0f - 1.0f;
		rawBitangents[i].z = ((static_cast<float>(vertData[i].bitangentZ)) / 255.0f) * 2.0f - 1.0f;
	}

	return rawBitangents;
}

std::vector<Vector2>& BSTriShape::UpdateRawUvs() {
	if (!HasUVs()) {
		rawUvs.clear();
		return rawUvs;
	}

	rawUvs.resize(numVertices);

	for (uint16_t i = 0; i < numVertices; i++)
		rawUvs[i] = vertData[i].uv;

	return rawUvs;
}

std::vector<Color4>& BSTriShape::UpdateRawColors() {
	if (!HasVertexColors()) {
		rawColors.clear();
		return rawColors;
	}

	rawColors.resize(numVertices);

	for (uint16_t i = 0; i < numVertices; i++) {
		rawColors[i].r = vertData[i].colorData[0] / 255.0f;
		rawColors[i].g = vertData[i].colorData[1] / 255.0f;
		rawColors[i].b = vertData[i].colorData[2] / 255.0f;
		rawColors[i].a = vertData[i].colorData[3] / 255.0f;
	}

	return rawColors;
}

std::vector<float>& BSTriShape::UpdateRawEyeData() {
	if (!HasEyeData()) {
		rawEyeData.clear();
		return rawEyeData;
	}

	rawEyeData.resize(numVertices);

	for (uint16_t i = 0; i < numVertices; ++i)
		rawEyeData[i] = vertData[i].eyeData;

	return rawEyeData;
}

uint16_t BSTriShape::GetNumVertices() const {
	return numVertices;
}

void BSTriShape::SetVertices(const bool enable) {
	if (enable) {
		vertexDesc.SetFlag(VF_VERTEX);
		vertData.resize(numVertices);
	}
	else {
		vertexDesc.RemoveFlag(VF_VERTEX);
		vertData.clear();
		numVertices = 0;

		SetUVs(false);
		SetNormals(false);
		SetTangents(false);
		SetVertexColors(false);
		SetSkinned(false);
	}
}

void BSTriShape::SetUVs(const bool enable) {
	if (enable)
		vertexDesc.SetFlag(VF_UV);
	else
		vertexDesc.RemoveFlag(VF_UV);
}

void BSTriShape::SetSecondUVs(const bool enable) {
	if (enable)
		vertexDesc.SetFlag(VF_UV_2);
	else
		vertexDesc.RemoveFlag(VF_UV_2);
}

void BSTriShape::SetNormals(const bool enable) {
	if (enable)
		vertexDesc.SetFlag(VF_NORMAL);
	else
		vertexDesc.RemoveFlag(VF_NORMAL);
}

void BSTriShape::SetTangents(const bool enable) {
	if (enable)
		vertexDesc.SetFlag(VF_TANGENT);
	else
		vertexDesc.RemoveFlag(VF_TANGENT);
}

void BSTriShape::SetVertexColors(const bool enable) {
	if (enable) {
		if (!vertexDesc.HasFlag(VF_COLORS)) {
			for (auto& v : vertData) {
				v.colorData[0] = 255;
				v.colorData[1] = 255;
				v.colorData[2] = 255;
				v.colorData[3] = 255;
			}
		}

		vertexDesc.SetFlag(VF_COLORS);
	}
	else
		vertexDesc.RemoveFlag(VF_COLORS);
}

void BSTriShape::SetSkinned(const bool enable) {
	if (enable)
		vertexDesc.SetFlag(VF_SKINNED);
	else
		vertexDesc.RemoveFlag(VF_SKINNED);
}

void BSTriShape::SetEyeData(const bool enable) {
	if (enable)
		vertexDesc.SetFlag(VF_EYEDATA);
	else
		vertexDesc.RemoveFlag(VF_EYEDATA);
}

void BSTriShape::SetFullPrecision(const bool enable) {
	if (!CanChangePrecision())
		return;

	if (enable)
		vertexDesc.SetFlag(VF_FULLPREC);
	else
		vertexDesc.RemoveFlag(VF_FULLPREC);
}

uint32_t BSTriShape::GetNumTriangles() const {
	return numTriangles;
}

bool BSTriShape::GetTriangles(std::vector<Triangle>& tris) const {
	tris = triangles;
	return true;
}

void BSTriShape::SetTriangles(const std::vector<Triangle>& tris) {
	triangles = tris;
	numTriangles = static_cast<uint32_t>(triangles.size());
}

void BSTriShape::UpdateBounds() {
	UpdateRawVertices();
	bounds = BoundingSphere(rawVertices);
}

void BSTriShape::SetVertexData(const std::vector<BSVertexData>& bsVertData) {
	vertData = bsVertData;
	numVertices = static_cast<uint16_t>(vertData.size());
}

void BSTriShape::SetNormals(const std::vector<Vector3>& inNorms) {
	SetNormals(true);

	rawNormals.resize(numVertices);
	for (uint16_t i = 0; i < numVertices; i++) {
		rawNormals[i] = inNorms[i];
		vertData[i].normal[0] = static_cast<uint8_t>(std::round((((inNorms[i].x + 1.0f) / 2.0f) * 255.0f)));
		vertData[i].normal[1] = static_cast<uint8_t>(std::round((((inNorms[i].y + 1.0f) / 2.0f) * 255.0f)));
		vertData[i].normal[2] = static_cast<uint8_t>(std::round((((inNorms[i].z + 1.0f) / 2.0f) * 255.0f)));
	}
}

void BSTriShape::SetTangentData(const std::vector<Vector3>& in) {
	SetTangents(true);

	for (uint16_t i = 0; i < numVertices; i++) {
		vertData[i].tangent[0] = static_cast<uint8_t>(std::round((((in[i].x + 1.0f) / 2.0f) * 255.0f)));
		vertData[i].tangent[1] = static_cast<uint8_t>(std::round((((in[i].y + 1.0f) / 2.0f) * 255.0f)));
		vertData[i].tangent[2] = static_cast<uint8_t>(std::round((((in[i].z + 1.0f) / 2.0f) * 255.0f)));
	}
}

void BSTriShape::SetBitangentData(const std::vector<Vector3>& in) {
	SetTangents(true);

	for (uint16_t i = 0; i < numVertices; i++) {
		vertData[i].bitangentX = in[i].x;
		vertData[i].bitangentY = static_cast<uint8_t>(std::round((((in[i].y + 1.0f) / 2.0f) * 255.0f)));
		vertData[i].bitangentZ = static_cast<uint8_t>(std::round((((in[i].z + 1.0f) / 2.0f) * 255.0f)));
	}
}

void BSTriShape::SetEyeData(const std::vector<float>& in) {
	SetEyeData(true);

	for (uint16_t i = 0; i < numVertices; i++)
		vertData[i].eyeData = in[i];
}

static void CalculateNormals(const std::vector<Vector3>& verts,
							 const std::vector<Triangle>& tris,
							 std::vector<Vector3>& outNorms,
							 const bool smooth,
							 float smoothThresh,
							 std::unordered_set<uint32_t>* lockedIndices = nullptr) {
	std::vector<Vector3> norms;
	norms.resize(verts.size());

	// Face normals
	for (const Triangle& t : tris) {
		Vector3 tn = t.trinormal(verts);
		norms[t.p1] += tn;
		norms[t.p2] += tn;
		norms[t.p3] += tn;
	}

	for (Vector3& n : norms)
		n.Normalize();

	// Smooth normals
	if (smooth) {
		smoothThresh *= DEG2RAD;
		std::vector<Vector3> seamNorms;
		SortingMatcher matcher(verts.data(), static_cast<uint16_t>(verts.size()));
		for (const auto& matchset : matcher.matches) {
			seamNorms.resize(matchset.size());
			for (size_t j = 0; j < matchset.size(); ++j) {
				const Vector3& n = norms[matchset[j]];
				Vector3 sn = n;
				for (size_t k = 0; k < matchset.size(); ++k) {
					if (j == k)
						continue;
					const Vector3& mn = norms[matchset[k]];
					if (n.angle(mn) >= smoothThresh)
						continue;
					sn += mn;
				}
				sn.Normalize();
				seamNorms[j] = sn;
			}
			for (size_t j = 0; j < matchset.size(); ++j)
				norms[matchset[j]] = seamNorms[j];
		}
	}

	if (lockedIndices) {
		outNorms.resize(norms.size());

		// Move normals of indices that aren't locked only
		for (uint32_t i = 0; i < static_cast<uint32_t>(norms.size()); i++) {
			if (lockedIndices->find(i) == lockedIndices->end())
				outNorms[i] = std::move(norms[i]);
		}
	}
	else
		outNorms = std::move(norms);
}

void BSTriShape::RecalcNormals(const bool smooth,
							   const float smoothThresh,
							   std::unordered_set<uint32_t>* lockedIndices) {
	UpdateRawVertices();
	SetNormals(true);

	CalculateNormals(rawVertices, triangles, rawNormals, smooth, smoothThresh, lockedIndices);

	for (uint16_t i = 0; i < numVertices; i++) {
		if (lockedIndices) {
			// Skip locked indices (keep current normal)
			if (lockedIndices->find(i) != lockedIndices->end())
				continue;
		}

		vertData[i].normal[0] = static_cast<uint8_t>(std::round((((rawNormals[i].x + 1.0f) / 2.0f) * 255.0f)));
		vertData[i].normal[1] = static_cast<uint8_t>(std::round((((rawNormals[i].y + 1.0f) / 2.0f) * 255.0f)));
		vertData[i].normal[2] = static_cast<uint8_t>(std::round((((rawNormals[i].z + 1.0f) / 2.0f) * 255.0f)));
	}
}

void BSTriShape::CalcTangentSpace() {
	if (!HasNormals() || !HasUVs())
		return;

	UpdateRawNormals();
	SetTangents(true);

	std::vector<Vector3> tan1;
	std::vector<Vector3> tan2;
	tan1.resize(numVertices);
	tan2.resize(numVertices);

	for (auto& triangle : triangles) {
		int i1 = triangle.p1;
		int i2 = triangle.p2;
		int i3 = triangle.p3;

		if (i1 >= numVertices || i2 >= numVertices || i3 >= numVertices)
			continue;

		Vector3 v1 = vertData[i1].vert;
		Vector3 v2 = vertData[i2].vert;
		Vector3 v3 = vertData[i3].vert;

		Vector2 w1 = vertData[i1].uv;
		Vector2 w2 = vertData[i2].uv;
		Vector2 w3 = vertData[i3].uv;

		float x1 = v2.x - v1.x;
		float x2 = v3.x - v1.x;
		float y1 = v2.y - v1.y;
		float y2 = v3.y - v1.y;
		float z1 = v2.z - v1.z;
		float z2 = v3.z - v1.z;

		float s1 = w2.u - w1.u;
		float s2 = w3.u - w1.u;
		float t1 = w2.v - w1.v;
		float t2 = w3.v - w1.v;

		float r = (s1 * t2 - s2 * t1);
		r = (r >= 0.0f ? +1.0f : -1.0f);

		Vector3 sdir = Vector3((t2 * x1 - t1 * x2) * r, (t2 * y1 - t1 * y2) * r, (t2 * z1 - t1 * z2) * r);
		Vector3 tdir = Vector3((s1 * x2 - s2 * x1) * r, (s1 * y2 - s2 * y1) * r, (s1 * z2 - s2 * z1) * r);

		sdir.Normalize();
		tdir.Normalize();

		tan1[i1] += tdir;
		tan1[i2] += tdir;
		tan1[i3] += tdir;

		tan2[i1] += sdir;
		tan2[i2] += sdir;
		tan2[i3] += sdir;
	}

	rawBitangents.resize(numVertices);
	rawTangents.resize(numVertices);

	for (uint16_t i = 0; i < numVertices; i++) {
		rawTangents[i] = tan1[i];
		rawBitangents[i] = tan2[i];

		if (rawTangents[i].IsZero() || rawBitangents[i].IsZero()) {
			rawTangents[i].x = rawNormals[i].y;
			rawTangents[i].y = rawNormals[i].z;
			rawTangents[i].z = rawNormals[i].x;
			rawBitangents[i] = rawNormals[i].cross(rawTangents[i]);
		}
		else {
			rawTangents[i].Normalize();
			rawTangents[i] = (rawTangents[i] - rawNormals[i] * rawNormals[i].dot(rawTangents[i]));
			rawTangents[i].Normalize();

			rawBitangents[i].Normalize();

			rawBitangents[i] = (rawBitangents[i] - rawNormals[i] * rawNormals[i].dot(rawBitangents[i]));
			rawBitangents[i] = (rawBitangents[i] - rawTangents[i] * rawTangents[i].dot(rawBitangents[i]));

			rawBitangents[i].Normalize();
		}

		vertData[i].tangent[0] = static_cast<uint8_t>(
			std::round((((rawTangents[i].x + 1.0f) / 2.0f) * 255.0f)));
		vertData[i].tangent[1] = static_cast<uint8_t>(
			std::round((((rawTangents[i].y + 1.0f) / 2.0f) * 255.0f)));
		vertData[i].tangent[2] = static_cast<uint8_t>(
			std::round((((rawTangents[i].z + 1.0f) / 2.0f) * 255.0f)));

		vertData[i].bitangentX = rawBitangents[i].x;
		vertData[i].bitangentY = static_cast<uint8_t>(
			std::round((((rawBitangents[i].y + 1.0f) / 2.0f) * 255.0f)));
		vertData[i].bitangentZ = static_cast<uint8_t>(
			std::round((((rawBitangents[i].z + 1.0f) / 2.0f) * 255.0f)));
	}
}

int BSTriShape::CalcDataSizes(NiVersion& version) {
	vertexSize = 0;
	dataSize = 0;

	VertexFlags vf = vertexDesc.GetFlags();
	vertexDesc.ClearAttributeOffsets();

	std::array<uint32_t, VA_COUNT> attributeSizes{};
	if (HasVertices()) {
		if (IsFullPrecision() || version.Stream() == 100)
			attributeSizes[VA_POSITION] = 4;
		else
			attributeSizes[VA_POSITION] = 2;
	}

	if (!vertData.empty() && !vertData.front().extra.empty()) {
		// Add extra float elements to vertex size
		uint8_t extraCount = static_cast<uint8_t>(vertData.front().extra.size());
		if (extraCount > 0)
			attributeSizes[VA_POSITION] += extraCount;
	}

	if (HasUVs())
		attributeSizes[VA_TEXCOORD0] = 1;

	if (HasSecondUVs())
		attributeSizes[VA_TEXCOORD1] = 1;

	if (HasNormals()) {
		attributeSizes[VA_NORMAL] = 1;

		if (HasTangents())
			attributeSizes[VA_BINORMAL] = 1;
	}

	if (HasVertexColors())
		attributeSizes[VA_COLOR] = 1;

	if (IsSkinned())
		attributeSizes[VA_SKINNING] = 3;

	if (HasEyeData())
		attributeSizes[VA_EYEDATA] = 1;

	for (int va = 0; va < VA_COUNT; va++) {
		if (attributeSizes[va] != 0) {
			vertexDesc.SetAttributeOffset(VertexAttribute(va), vertexSize);
			vertexSize += attributeSizes[va] * 4;
		}
	}

	vertexDesc.SetSize(vertexSize);
	vertexDesc.SetFlags(vf);

	if (HasType<BSDynamicTriShape>())
		vertexDesc.MakeDynamic();

	dataSize = vertexSize * numVertices + 6 * numTriangles;

	return dataSize;
}

void BSTriShape::Create(NiVersion& version,
						const std::vector<Vector3>* verts,
						const std::vector<Triangle>* tris,
						const std::vector<Vector2>* uvs,
						const std::vector<Vector3>* normals) {
	constexpr uint16_t maxVertIndex = std::numeric_limits<uint16_t>::max();
	size_t vertCount = verts->size();
	if (vertCount > static_cast<size_t>(maxVertIndex))
		numVertices = maxVertIndex;
	else
		numVertices = uint16_t(vertCount);

	uint32_t maxTriIndex = std::numeric_limits<uint32_t>::max();
	if (version.User() >= 12 && version.Stream() < 130)
		maxTriIndex = std::numeric_limits<uint16_t>::max();

	size_t triCount = tris ? tris->size() : 0;
	if (numVertices == 0)
		numTriangles = 0;
	else if (triCount > static_cast<size_t>(maxTriIndex))
		numTriangles = maxTriIndex;
	else
		numTriangles = uint32_t(triCount);

	vertData.resize(numVertices);

	if (uvs && uvs->size() != numVertices)
		SetUVs(false);

	for (uint16_t i = 0; i < numVertices; i++) {
		auto& vertex = vertData[i];
		vertex.vert = (*verts)[i];

		if (uvs && uvs->size() == numVertices)
			vertex.uv = (*uvs)[i];

		vertex.bitangentX = 0.0f;
		vertex.bitangentY = 0;
		vertex.bitangentZ = 0;
		vertex.normal[0] = vertex.normal[1] = vertex.normal[2] = 0;
		std::memset(vertex.colorData, 255, 4);
		std::memset(vertex.weights, 0, sizeof(float) * 4);
		std::memset(vertex.weightBones, 0, 4);
		vertex.eyeData = 0.0f;
	}

	triangles.resize(numTriangles);
	for (uint32_t i = 0; i < numTriangles; i++)
		triangles[i] = (*tris)[i];

	UpdateRawVertices();
	bounds = BoundingSphere(rawVertices);

	if (normals && normals->size() == numVertices) {
		SetNormals(*normals);
		CalcTangentSpace();
	}
	else {
		SetNormals(false);
		SetTangents(false);
	}
}


void BSSubIndexTriShape::Sync(NiStreamReversible& stream) {
	if (stream.GetVersion().Stream() >= 130 && dataSize > 0) {
		stream.Sync(segmentation.numPrimitives);
		stream.Sync(segmentation.numSegments);
		stream.Sync(segmentation.numTotalSegments);

		segmentation.segments.resize(segmentation.numSegments);
		for (auto& segment : segmentation.segments) {
			stream.Sync(segment.startIndex);
			stream.Sync(segment.numPrimitives);
			stream.Sync(segment.parentArrayIndex);
			stream.Sync(segment.numSubSegments);

			segment.subSegments.resize(segment.numSubSegments);
			for (auto& subSegment : segment.subSegments) {
				stream.Sync(subSegment.startIndex);
				stream.Sync(subSegment.numPrimitives);
				stream.Sync(subSegment.arrayIndex);
				stream.Sync(subSegment.unkInt1);
			}
		}

		if (segmentation.numSegments < segmentation.numTotalSegments) {
			stream.Sync(segmentation.subSegmentData.numSegments);
			stream.Sync(segmentation.subSegmentData.numTotalSegments);

			segmentation.subSegmentData.arrayIndices.resize(segmentation.numSegments);
			for (auto& arrayIndex : segmentation.subSegmentData.arrayIndices)
				stream.Sync(arrayIndex);

			segmentation.subSegmentData.dataRecords.resize(segmentation.numTotalSegments);
			for (auto& dataRecord : segmentation.subSegmentData.dataRecords) {
				stream.Sync(dataRecord.userSlotID);
				stream.Sync(dataRecord.material);
				stream.Sync(dataRecord.numData);

				dataRecord.extraData.resize(dataRecord.numData);
				for (auto& data : dataRecord.extraData)
					stream.Sync(data);
			}

			segmentation.subSegmentData.ssfFile.Sync(stream, 2);
		}
	}
	else if (stream.GetVersion().Stream() == 100) {
		stream.Sync(numSegments);
		segments.resize(numSegments);

		for (auto& segment : segments)
			segment.Sync(stream);
	}
}

void BSSubIndexTriShape::notifyVerticesDelete(const std::vector<uint16_t>& vertIndices) {
	BSTriShape::notifyVerticesDelete(vertIndices);

	//Remove triangles from segments and re-fit lists
	segmentation.numPrimitives -= static_cast<uint32_t>(deletedTris.size());
	for (auto& segment : segmentation.segments) {
		// Delete primitives
		for (auto& id : deletedTris)
			if (segment.numPrimitives > 0 && id >= segment.startIndex / 3
				&& id < segment.startIndex / 3 + segment.numPrimitives)
				segment.numPrimitives--;

		// Align sub segments
		for (auto& subSegment : segment.subSegments)
			for (auto& id : deletedTris)
				if (subSegment.numPrimitives > 0 && id >= subSegment.startIndex / 3
					&& id < subSegment.startIndex / 3 + subSegment.numPrimitives)
					subSegment.numPrimitives--;
	}

	// Align segments
	size_t i = 0;
	for (auto& segment : segmentation.segments) {
		// Align sub segments
		size_t j = 0;
		for (auto& subSegment : segment.subSegments) {
			if (j == 0) {
				// Triangles that belong to the segment itself (not to a sub segment) come first
				uint32_t subPrimitives = 0;
				for (auto& ss : segment.subSegments)
					subPrimitives += ss.numPrimitives;

				subSegment.startIndex = segment.startIndex;
				if (segment.numPrimitives > subPrimitives)
					subSegment.startIndex += (segment.numPrimitives - subPrimitives) * 3;
			}

			if (j + 1 >= segment.numSubSegments)
				continue;

			BSSITSSubSegment& nextSubSegment = segment.subSegments[j + 1];
			nextSubSegment.startIndex = subSegment.startIndex + subSegment.numPrimitives * 3;
			j++;
		}

		if (i + 1 >= segmentation.numSegments)
			continue;

		BSSITSSegment& nextSegment = segmentation.segments[i + 1];
		nextSegment.startIndex = segment.startIndex + segment.numPrimitives * 3;

		i++;
	}

	// Remove triangles from SSE segments
	for (auto& segment : segments) {
		for (auto& id : deletedTris)
			if (segment.numTris > 0 && id >= segment.index / 3 && id < segment.index / 3 + segment.numTris)
				segment.numTris--;
	}

	// Align SSE segments
	i = 0;
	for (auto& segment : segments) {
		if (i + 1 >= numSegments)
			continue;

		BSGeometrySegmentData& nextSegment = segments[i + 1];
		nextSegment.index = segment.index + segment.numTris * 3;

		i++;
	}
}

void BSSubIndexTriShape::SetDefaultSegments() {
	segmentation.numPrimitives = numTriangles;
	segmentation.numSegments = 4;
	segmentation.numTotalSegments = 4;

	segmentation.subSegmentData.numSegments = 0;
	segmentation.subSegmentData.numTotalSegments = 0;

	segmentation.subSegmentData.arrayIndices.clear();
	segmentation.subSegmentData.dataRecords.clear();
	segmentation.subSegmentData.ssfFile.clear();

	segmentation.segments.resize(4);
	for (uint32_t i = 0; i < 3; i++) {
		segmentation.segments[i].startIndex = 0;
		segmentation.segments[i].numPrimitives = 0;
		segmentation.segments[i].parentArrayIndex = 0xFFFFFFFF;
		segmentation.segments[i].numSubSegments = 0;
	}

	segmentation.segments[3].startIndex = 0;
	segmentation.segments[3].numPrimitives = numTriangles;
	segmentation.segments[3].parentArrayIndex = 0xFFFFFFFF;
	segmentation.segments[3].numSubSegments = 0;

	numSegments = 0;
	segments.clear();
}

void BSSubIndexTriShape::Create(NiVersion& version,
								const std::vector<Vector3>* verts,
								const std::vector<Triangle>* tris,
								const std::vector<Vector2>* uvs,
								const std::vector<Vector3>* normals) {
	BSTriShape::Create(version, verts, tris, uvs, normals);

	// Skinned most of the time
	SetSkinned(true);
	SetDefaultSegments();
}

std::vector<BSGeometrySegmentData> BSSubIndexTriShape::GetSegments() const {
	return segments;
}

void BSSubIndexTriShape::SetSegments(const std::vector<BSGeometrySegmentData>& sd) {
	segments = sd;
	numSegments = static_cast<uint32_t>(segments.size());
}

void BSSubIndexTriShape::GetSegmentation(NifSegmentationInfo& inf, std::vector<int>& triParts) const {
	inf.segs.clear();
	inf.ssfFile = segmentation.subSegmentData.ssfFile.get();
	inf.segs.resize(segmentation.segments.size());
	triParts.clear();

	uint32_t numTris = GetNumTriangles();
	triParts.resize(numTris, -1);

	int partID = 0;
	int arrayIndex = 0;

	for (size_t i = 0; i < segmentation.segments.size(); ++i) {
		const BSSITSSegment& seg = segmentation.segments[i];
		uint32_t startIndex = seg.startIndex / 3;
		uint32_t endIndex = std::min(numTris, startIndex + seg.numPrimitives);

		for (uint32_t id = startIndex; id < endIndex; id++)
			triParts[id] = partID;

		inf.segs[i].partID = partID++;
		inf.segs[i].subs.resize(seg.subSegments.size());

		for (size_t j = 0; j < seg.subSegments.size(); ++j) {
			const BSSITSSubSegment& sub = seg.subSegments[j];
			startIndex = sub.startIndex / 3;

			endIndex = std::min(numTris, startIndex + sub.numPrimitives);
			for (uint32_t id = startIndex; id < endIndex; id++)
				triParts[id] = partID;

			inf.segs[i].subs[j].partID = partID++;
			arrayIndex++;

			const BSSITSSubSegmentDataRecord& rec = segmentation.subSegmentData.dataRecords[arrayIndex];
			inf.segs[i].subs[j].userSlotID = rec.userSlotID < 30 ? 0 : rec.userSlotID;
			inf.segs[i].subs[j].material = rec.material;
			inf.segs[i].subs[j].extraData = rec.extraData;
		}
		arrayIndex++;
	}
}

void BSSubIndexTriShape::SetSegmentation(const NifSegmentationInfo& inf, const std::vector<int>& inTriParts) {
	uint32_t numTris = GetNumTriangles();
	if (inTriParts.size() != numTris)
		return;

	// Renumber partitions so that the partition IDs are increasing.
	int newPartID = 0;
	std::vector<int> oldToNewPartIDs;
	for (const NifSegmentInfo& seg : inf.segs) {
		if (seg.partID >= static_cast<int>(oldToNewPartIDs.size()))
			oldToNewPartIDs.resize(seg.partID + 1);
		oldToNewPartIDs[seg.partID] = newPartID++;

		for (const NifSubSegmentInfo& sub : seg.subs) {
			if (sub.partID >= static_cast<int>(oldToNewPartIDs.size()))
				oldToNewPartIDs.resize(sub.partID + 1);
			oldToNewPartIDs[sub.partID] = newPartID++;
		}
	}

	std::vector<int> triParts(numTris);
	for (uint32_t i = 0; i < numTris; ++i)
		if (inTriParts[i] >= 0)
			triParts[i] = oldToNewPartIDs[inTriParts[i]];

	// Sort triangles (via index) by partition ID
	std::vector<uint32_t> triInds(numTris);
	for (uint32_t i = 0; i < numTris; ++i)
		triInds[i] = i;

	std::stable_sort(triInds.begin(), triInds.end(), [&triParts](int i, int j) {
		return triParts[i] < triParts[j];
	});

	ReorderTriangles(triInds);
	// Note that triPart's indexing no longer matches triangle indexing.
	// triParts uses the old indexing.  triInds maps from new indexing to old.
	// So triParts[triInds[i]] is now the partition number of triangle i.

	// Find the index of the first triangle of each partition: partTriInds.
	// If p is the partition number, then partTriInds[p] will be the index
	// in tris of the first triangle of partition p.
	// The number of triangles in partition p will be
	// partTriInds[p + 1] - partTriInds[p].
	std::vector<uint32_t> partTriInds(newPartID + 1);
	int nextPartID = 0;
	for (uint32_t i = 0; i < numTris; ++i)
		while (triParts[triInds[i]] >= nextPartID)
			partTriInds[nextPartID++] = i;
	while (nextPartID < static_cast<int>(partTriInds.size()))
		partTriInds[nextPartID++] = numTris;

	segmentation = BSSITSSegmentation();
	uint32_t parentArrayIndex = 0;
	uint32_t segmentIndex = 0;
	int partID = 0;

	for (const NifSegmentInfo& seg : inf.segs) {
		// Create new segment
		segmentation.segments.emplace_back();
		BSSITSSegment& segment = segmentation.segments.back();
		uint32_t childCount = static_cast<uint32_t>(seg.subs.size());
		segment.numPrimitives = partTriInds[partID + childCount + 1] - partTriInds[partID];
		segment.startIndex = partTriInds[partID] * 3;
		segment.numSubSegments = childCount;
		++partID;

		// Create new segment data record
		BSSITSSubSegmentDataRecord segmentDataRecord;
		segmentDataRecord.userSlotID = segmentIndex;
		segmentation.subSegmentData.arrayIndices.push_back(parentArrayIndex);
		segmentation.subSegmentData.dataRecords.push_back(segmentDataRecord);

		uint32_t subSegmentNumber = 1;
		for (const NifSubSegmentInfo& sub : seg.subs) {
			// Create new subsegment
			segment.subSegments.emplace_back();
			BSSITSSubSegment& subSegment = segment.subSegments.back();
			subSegment.arrayIndex = parentArrayIndex;
			subSegment.numPrimitives = partTriInds[partID + 1] - partTriInds[partID];
			subSegment.startIndex = partTriInds[partID] * 3;
			++partID;

			// Create new subsegment data record
			BSSITSSubSegmentDataRecord subSegmentDataRecord;
			if (sub.userSlotID < 30)
				subSegmentDataRecord.userSlotID = subSegmentNumber++;
			else
				subSegmentDataRecord.userSlotID = sub.userSlotID;

			subSegmentDataRecord.material = sub.material;
			subSegmentDataRecord.numData = static_cast<uint32_t>(sub.extraData.size());
			subSegmentDataRecord.extraData = sub.extraData;
			segmentation.subSegmentData.dataRecords.push_back(subSegmentDataRecord);
		}

		parentArrayIndex += childCount + 1;
		++segmentIndex;
	}

	segmentation.numPrimitives = numTris;
	segmentation.numSegments = segmentIndex;
	segmentation.numTotalSegments = parentArrayIndex;
	segmentation.subSegmentData.numSegments = segmentIndex;
	segmentation.subSegmentData.numTotalSegments = parentArrayIndex;
	segmentation.subSegmentData.ssfFile.get() = inf.ssfFile;
}


void BSMeshLODTriShape::Sync(NiStreamReversible& stream) {
	stream.Sync(lodSize0);
	stream.Sync(lodSize1);
	stream.Sync(lodSize2);
}

void BSMeshLODTriShape::notifyVerticesDelete(const std::vector<uint16_t>& vertIndices) {
	BSTriShape::notifyVerticesDelete(vertIndices);

	// Force full LOD (workaround)
	lodSize0 = 0;
	lodSize1 = 0;
	lodSize2 = numTriangles;
}


BSDynamicTriShape::BSDynamicTriShape() {
	vertexDesc.RemoveFlag(VF_VERTEX);
	vertexDesc.SetFlag(VF_FULLPREC);

	dynamicDataSize = 0;
}

void BSDynamicTriShape::Sync(NiStreamReversible& stream) {
	stream.Sync(dynamicDataSize);

	dynamicData.resize(numVertices);
	for (uint16_t i = 0; i < numVertices; i++)
		stream.Sync(dynamicData[i]);
}

void BSDynamicTriShape::notifyVerticesDelete(const std::vector<uint16_t>& vertIndices) {
	BSTriShape::notifyVerticesDelete(vertIndices);

	EraseVectorIndices(dynamicData, vertIndices);
	dynamicDataSize = static_cast<uint32_t>(dynamicData.size());
}

void BSDynamicTriShape::CalcDynamicData() {
	dynamicDataSize = numVertices * 16;

	dynamicData.resize(numVertices);
	for (uint16_t i = 0; i < numVertices; i++) {
		auto& vertex = vertData[i];
		dynamicData[i].x = vertex.vert.x;
		dynamicData[i].y = vertex.vert.y;
		dynamicData[i].z = vertex.vert.z;
		dynamicData[i].w = vertex.bitangentX;

		if (dynamicData[i].x > 0.0f)
			vertex.eyeData = 1.0f;
		else
			vertex.eyeData = 0.0f;
	}
}

void BSDynamicTriShape::Create(NiVersion& version,
							   const std::vector<Vector3>* verts,
							   const std::vector<Triangle>* tris,
							   const std::vector<Vector2>* uvs,
							   const std::vector<Vector3>* normals) {
	BSTriShape::Create(version, verts, tris, uvs, normals);

	constexpr uint32_t maxIndex = std::numeric_limits<uint32_t>::max();
	size_t vertCount = verts->size();
	if (vertCount > static_cast<size_t>(maxIndex))
		dynamicDataSize = maxIndex;
	else
		dynamicDataSize = uint32_t(vertCount);

	dynamicData.resize(dynamicDataSize);
	for (uint32_t i = 0; i < dynamicDataSize; i++) {
		dynamicData[i].x = (*verts)[i].x;
		dynamicData[i].y = (*verts)[i].y;
		dynamicData[i].z = (*verts)[i].z;
		dynamicData[i].w = 0.0f;
	}
}

void BSGeometryMeshData::Sync(NiStreamReversible& stream) {
	// verts, normals, vertcolors are always present, though it's possible the counts are 0
	SetVertices(true);
	SetNormals(true);
	SetTangents(true);
	SetVertexColors(true);

	stream.Sync(version);
	if (version > 2)
		return;

	stream.Sync(nTriIndices);
	tris.resize(nTriIndices / 3);
	for (uint32_t t = 0; t < nTriIndices / 3; t++)
		stream.Sync(tris[t]);

	stream.Sync(scale);
	if (scale <= 0.0f)
		return;

	stream.Sync(nWeightsPerVert);

	stream.Sync(nVertices);
	// maybe not a good idea to do the below, in case some meshes have over 65k verts, however since
	// triangles still use 16 bit indices, the total count must still fit under that limit ...
	numVertices = (uint16_t) nVertices;
	vertices.resize(nVertices);
	for (uint32_t v = 0; v < nVertices; v++) {
		if (stream.GetMode() == NiStreamReversible::Mode::Reading) {
			auto unpack = [&](const float posScale) -> float {
				int16_t val;
				stream.Sync(val);
				if (val < 0)
					return static_cast<float>((val / 32768.0) * scale * posScale);
				else
					return static_cast<float>((val / 32767.0) * scale * posScale);
			};

			vertices[v].x = unpack(havokScale);
			vertices[v].y = unpack(havokScale);
			vertices[v].z = unpack(havokScale);
		}
		else {
			auto pack = [&](float component, float posScale) {
				uint16_t factor;
				if (component < 0)
					factor = 32768;
				else
					factor = 32767;

				uint16_t val = (uint16_t) ((component / (scale * posScale)) * factor);
				stream.Sync(val);
			};

			pack(vertices[v].x, havokScale);
			pack(vertices[v].y, havokScale);
			pack(vertices[v].z, havokScale);
		}
	}

	stream.Sync(nUV1);
	if (nUV1 > 0)
		SetUVs(true);

	uvSets.resize(2);

	uvSets[0].resize(nUV1);
	for (uint32_t uv = 0; uv < nUV1; uv++) {
		stream.SyncHalf(uvSets[0][uv].u);
		stream.SyncHalf(uvSets[0][uv].v);
	}

	stream.Sync(nUV2);
	uvSets[1].resize(nUV2);
	for (uint32_t uv = 0; uv < nUV2; uv++) {
		stream.SyncHalf(uvSets[1][uv].u);
		stream.SyncHalf(uvSets[1][uv].v);
	}

	stream.Sync(nColors);
	vColors.resize(nColors);
	for (uint32_t c = 0; c < nColors; c++)
		stream.Sync(vColors[c]);

	stream.Sync(nNormals);
	normals.resize(nNormals);
	for (uint32_t n = 0; n < nNormals; n++)
		stream.SyncUDEC3(normals[n]);

	stream.Sync(nTangents);
	tangents.resize(nTangents);
	for (uint32_t t = 0; t < nTangents; t++) {
		stream.SyncUDEC3(tangents[t]);
		// need to calculate tangent basis and bitangents on read?
	}

	stream.Sync(nTotalWeights);
	if (nWeightsPerVert > 0)
		skinWeights.resize(nTotalWeights / nWeightsPerVert);

	for (auto& vw : skinWeights) {
		vw.resize(nWeightsPerVert);
		for (auto& bw : vw)
			stream.Sync(bw);
	}

	stream.Sync(nLODS);
	lods.resize(nLODS);
	for (auto& lod : lods) {
		uint32_t nLodTriIndices = static_cast<uint32_t>(lod.size() * 3);
		stream.Sync(nLodTriIndices);

		lod.resize(nLodTriIndices / 3);
		for (auto& lodTri : lod)
			stream.Sync(lodTri);
	}

	stream.Sync(nMeshlets);
	meshletList.resize(nMeshlets);
	for (auto& meshlet : meshletList) {
		stream.Sync(meshlet.vertCount);
		stream.Sync(meshlet.vertOffset);
		stream.Sync(meshlet.primCount);
		stream.Sync(meshlet.primOffset);
	}

	stream.Sync(nCullData);
	cullDataList.resize(nCullData);
	for (auto& cullData : cullDataList) {
		stream.Sync(cullData.center);
		stream.Sync(cullData.expand);
	}
}

void BSGeometryMesh::Sync(NiStreamReversible& stream) {
	stream.Sync(triSize);
	stream.Sync(numVerts);
	stream.Sync(flags);
	meshName.Sync(stream, 4);
}

void BSGeometry::Sync(NiStreamReversible& stream) {
	stream.Sync(bounds);

	for (float& i : boundMinMax)
		stream.Sync(i);

	skinInstanceRef.Sync(stream);
	shaderPropertyRef.Sync(stream);
	alphaPropertyRef.Sync(stream);

	if (stream.GetMode() == NiStreamReversible::Mode::Reading)
		meshes.clear();

	size_t meshCount = meshes.size();
	for (uint32_t i = 0; i < 4; i++) {
		uint8_t testByte = i < meshCount;
		stream.Sync(testByte);
		if (testByte) {
			if (stream.GetMode() == NiStreamReversible::Mode::Reading) {
				BSGeometryMesh mesh{};
				meshes.push_back(mesh);
			}
			meshes[i].Sync(stream);
		}
	}
}

void BSGeometry::GetChildRefs(std::set<NiRef*>& refs) {
	NiAVObject::GetChildRefs(refs);

	refs.insert(&skinInstanceRef);
	refs.insert(&shaderPropertyRef);
	refs.insert(&alphaPropertyRef);
}

void BSGeometry::GetChildIndices(std::vector<uint32_t>& indices) {
	NiAVObject::GetChildIndices(indices);

	indices.push_back(skinInstanceRef.index);
	indices.push_back(shaderPropertyRef.index);
	indices.push_back(alphaPropertyRef.index);
}


NiGeometryData* BSGeometry::GetGeomData() const {
	if (meshes.size() > selectedMesh) {
		// Breaking const correctness here to cast to the desired level of the class heirarchy.
		//   Perhaps NiShape GetGeomData should return a const* or it shouldn't be a const function? 
		return dynamic_cast<NiGeometryData*>(const_cast<BSGeometryMeshData*>(&meshes[selectedMesh].meshData));
	}
	return nullptr;
}


bool BSGeometry::GetTriangles(std::vector<Triangle>& tris) const {
	if (meshes.size() > selectedMesh) {
		tris = meshes[selectedMesh].meshData.tris;
		return true;
	}

	return false;
}

void BSGeometry::SetTriangles(const std::vector<Triangle>& tris) {
	if (meshes.size() > selectedMesh) {
		meshes[selectedMesh].meshData.tris = tris;
	}
}


void NiGeometry::Sync(NiStreamReversible& stream) {
	dataRef.Sync(stream);
	skinInstanceRef.Sync(stream);

	if (stream.GetVersion().File() >= V20_2_0_5) {
		uint32_t numMaterials = materialNames.Sync(stream);
		materialExtraData.SyncData(stream, numMaterials);

		stream.Sync(activeMaterial);
	}
	else {
		stream.Sync(shader);

		if (shader) {
			shaderName.Sync(stream);
			stream.Sync(implementation);
		}
	}

	if (stream.GetVersion().File() >= V20_2_0_7)
		stream.Sync(defaultMatNeedsUpdateFlag);

	if (stream.GetVersion().Stream() > 34) {
		shaderPropertyRef.Sync(stream);
		alphaPropertyRef.Sync(stream);
	}
}

void NiGeometry::GetStringRefs(std::vector<NiStringRef*>& refs) {
	NiAVObject::GetStringRefs(refs);

	for (auto& mn : materialNames)
		refs.emplace_back(&mn);
}

void NiGeometry::GetChildRefs(std::set<NiRef*>& refs) {
	NiAVObject::GetChildRefs(refs);

	refs.insert(&dataRef);
	refs.insert(&skinInstanceRef);
	refs.insert(&shaderPropertyRef);
	refs.insert(&alphaPropertyRef);
}

void NiGeometry::GetChildIndices(std::vector<uint32_t>& indices) {
	NiAVObject::GetChildIndices(indices);

	indices.push_back(dataRef.index);
	indices.push_back(skinInstanceRef.index);
	indices.push_back(shaderPropertyRef.index);
	indices.push_back(alphaPropertyRef.index);
}

bool NiGeometry::IsSkinned() const {
	return !skinInstanceRef.IsEmpty();
}


void NiTriBasedGeomData::Sync(NiStreamReversible& stream) {
	stream.Sync(numTriangles);
}

void NiTriBasedGeomData::Create(NiVersion& version,
								const std::vector<Vector3>* verts,
								const std::vector<Triangle>* inTris,
								const std::vector<Vector2>* uvs,
								const std::vector<Vector3>* norms) {
	NiGeometryData::Create(version, verts, inTris, uvs, norms);

	if (inTris) {
		constexpr uint16_t maxIndex = std::numeric_limits<uint16_t>::max();
		size_t triCount = inTris ? inTris->size() : 0;

		if (numVertices == 0)
			numTriangles = 0;
		else if (triCount > static_cast<size_t>(maxIndex))
			numTriangles = maxIndex;
		else
			numTriangles = uint16_t(triCount);
	}
}


void NiTriShapeData::Sync(NiStreamReversible& stream) {
	stream.Sync(numTrianglePoints);
	stream.Sync(hasTriangles);

	if (hasTriangles) {
		triangles.resize(numTriangles);
		for (uint32_t i = 0; i < numTriangles; i++)
			stream.Sync(triangles[i]);
	}

	stream.Sync(numMatchGroups);
	matchGroups.resize(numMatchGroups);

	for (uint32_t i = 0; i < numMatchGroups; i++) {
		auto& mg = matchGroups[i];

		stream.Sync(mg.count);
		mg.matches.resize(mg.count);

		for (uint32_t j = 0; j < mg.count; j++)
			stream.Sync(mg.matches[j]);
	}

	// Not supported yet, so clear it again after reading
	if (stream.GetMode() == NiStreamReversible::Mode::Reading) {
		matchGroups.clear();
		numMatchGroups = 0;
	}
}

void NiTriShapeData::Create(NiVersion& version,
							const std::vector<Vector3>* verts,
							const std::vector<Triangle>* inTris,
							const std::vector<Vector2>* uvs,
							const std::vector<Vector3>* norms) {
	NiTriBasedGeomData::Create(version, verts, inTris, uvs, norms);

	if (numTriangles > 0) {
		numTrianglePoints = numTriangles * 3;
		hasTriangles = true;
	}
	else {
		numTrianglePoints = 0;
		hasTriangles = false;
	}

	if (inTris) {
		triangles.resize(numTriangles);
		for (uint16_t t = 0; t < numTriangles; t++)
			triangles[t] = (*inTris)[t];
	}

	numMatchGroups = 0;

	// Calculate again, now with triangles
	CalcTangentSpace();
}

void NiTriShapeData::notifyVerticesDelete(const std::vector<uint16_t>& vertIndices) {
	std::vector<int> indexCollapse = GenerateIndexCollapseMap(vertIndices, vertices.size());
	ApplyMapToTriangles(triangles, indexCollapse);
	numTriangles = static_cast<uint16_t>(triangles.size());
	numTrianglePoints = 3 * numTriangles;

	NiTriBasedGeomData::notifyVerticesDelete(vertIndices);
}

std::vector<MatchGroup> NiTriShapeData::GetMatchGroups() const {
	return matchGroups;
}

void NiTriShapeData::SetMatchGroups(const std::vector<MatchGroup>& mg) {
	matchGroups = mg;
	numMatchGroups = static_cast<uint16_t>(matchGroups.size());
}

uint32_t NiTriShapeData::GetNumTriangles() const {
	return numTriangles;
}

bool NiTriShapeData::GetTriangles(std::vector<Triangle>& tris) const {
	tris = triangles;
	return hasTriangles;
}

void NiTriShapeData::SetTriangles(const std::vector<Triangle>& tris) {
	hasTriangles = true;
	triangles = tris;
	numTriangles = static_cast<uint16_t>(triangles.size());
	numTrianglePoints = numTriangles * 3;
}

void NiTriShapeData::RecalcNormals(const bool smooth,
								   const float smoothThresh,
								   std::unordered_set<uint32_t>* lockedIndices) {
	if (!HasNormals())
		return;

	NiTriBasedGeomData::RecalcNormals();

	CalculateNormals(vertices, triangles, normals, smooth, smoothThresh, lockedIndices);
}

void NiTriShapeData::CalcTangentSpace() {
	if (!HasNormals() || !HasUVs())
		return;

	NiTriBasedGeomData::CalcTangentSpace();

	std::vector<Vector3> tan1;
	std::vector<Vector3> tan2;
	tan1.resize(numVertices);
	tan2.resize(numVertices);

	for (uint32_t i = 0; i < numTriangles; i++) {
		int i1 = triangles[i].p1;
		int i2 = triangles[i].p2;
		int i3 = triangles[i].p3;

		if (i1 >= numVertices || i2 >= numVertices || i3 >= numVertices)
			continue;

		Vector3 v1 = vertices[i1];
		Vector3 v2 = vertices[i2];
		Vector3 v3 = vertices[i3];

		Vector2 w1 = uvSets[0][i1];
		Vector2 w2 = uvSets[0][i2];
		Vector2 w3 = uvSets[0][i3];

		float x1 = v2.x - v1.x;
		float x2 = v3.x - v1.x;
		float y1 = v2.y - v1.y;
		float y2 = v3.y - v1.y;
		float z1 = v2.z - v1.z;
		float z2 = v3.z - v1.z;

		float s1 = w2.u - w1.u;
		float s2 = w3.u - w1.u;
		float t1 = w2.v - w1.v;
		float t2 = w3.v - w1.v;

		float r = (s1 * t2 - s2 * t1);
		r = (r >= 0.0f ? +1.0f : -1.0f);

		Vector3 sdir = Vector3((t2 * x1 - t1 * x2) * r, (t2 * y1 - t1 * y2) * r, (t2 * z1 - t1 * z2) * r);
		Vector3 tdir = Vector3((s1 * x2 - s2 * x1) * r, (s1 * y2 - s2 * y1) * r, (s1 * z2 - s2 * z1) * r);

		sdir.Normalize();
		tdir.Normalize();

		tan1[i1] += sdir;
		tan1[i2] += sdir;
		tan1[i3] += sdir;

		tan2[i1] += tdir;
		tan2[i2] += tdir;
		tan2[i3] += tdir;
	}

	for (uint16_t i = 0; i < numVertices; i++) {
		bitangents[i] = tan1[i];
		tangents[i] = tan2[i];

		if (tangents[i].IsZero() || bitangents[i].IsZero()) {
			tangents[i].x = normals[i].y;
			tangents[i].y = normals[i].z;
			tangents[i].z = normals[i].x;
			bitangents[i] = normals[i].cross(tangents[i]);
		}
		else {
			tangents[i].Normalize();
			tangents[i] = (tangents[i] - normals[i] * normals[i].dot(tangents[i]));
			tangents[i].Normalize();

			bitangents[i].Normalize();

			bitangents[i] = (bitangents[i] - normals[i] * normals[i].dot(bitangents[i]));
			bitangents[i] = (bitangents[i] - tangents[i] * tangents[i].dot(bitangents[i]));

			bitangents[i].Normalize();
		}
	}
}


NiGeometryData* NiTriShape::GetGeomData() const {
	return shapeData;
};

void NiTriShape::SetGeomData(NiGeometryData* geomDataPtr) {
	auto geomData = dynamic_cast<NiTriShapeData*>(geomDataPtr);
	if (geomData)
		shapeData = geomData;
}


void StripsInfo::Sync(NiStreamReversible& stream) {
	stripLengths.Sync(stream);

	if (stream.GetVersion().File() >= NiFileVersion::V10_0_1_3)
		stream.Sync(hasPoints);
	else
		hasPoints = true;

	if (hasPoints) {
		points.resize(stripLengths.size());
		for (uint16_t i = 0; i < stripLengths.size(); i++) {
			points[i].resize(stripLengths[i]);
			for (uint16_t j = 0; j < stripLengths[i]; j++)
				stream.Sync(points[i][j]);
		}
	}
}


void NiTriStripsData::Sync(NiStreamReversible& stream) {
	stripsInfo.Sync(stream);
}

void NiTriStripsData::notifyVerticesDelete(const std::vector<uint16_t>& vertIndices) {
	std::vector<int> indexCollapse = GenerateIndexCollapseMap(vertIndices, vertices.size());

	NiTriBasedGeomData::notifyVerticesDelete(vertIndices);

	// This is not a healthy way to delete strip data. Probably need to restrip the shape.
	for (uint16_t i = 0; i < stripsInfo.stripLengths.size(); i++) {
		for (uint16_t j = 0; j < stripsInfo.stripLengths[i]; j++) {
			if (indexCollapse[stripsInfo.points[i][j]] == -1) {
				stripsInfo.points[i].erase(stripsInfo.points[i].begin() + j);
				stripsInfo.stripLengths[i]--;
				--j;
			}
			else
				stripsInfo.points[i][j] = static_cast<uint16_t>(indexCollapse[stripsInfo.points[i][j]]);
		}
	}

	numTriangles = 0;
	for (auto len : stripsInfo.stripLengths)
		if (len - 2 > 0)
			numTriangles += len - 2;
}

uint32_t NiTriStripsData::GetNumTriangles() const {
	return static_cast<uint32_t>(StripsToTris().size());
}

bool NiTriStripsData::GetTriangles(std::vector<Triangle>& tris) const {
	tris = StripsToTris();
	return stripsInfo.hasPoints;
}

void NiTriStripsData::SetTriangles(const std::vector<Triangle>& /*tris*/) {
	// Not implemented, stripify here
}

std::vector<Triangle> NiTriStripsData::StripsToTris() const {
	return GenerateTrianglesFromStrips(stripsInfo.points);
}

void NiTriStripsData::RecalcNormals(const bool smooth,
									const float smoothThresh,
									std::unordered_set<uint32_t>* lockedIndices) {
	if (!HasNormals())
		return;

	NiTriBasedGeomData::RecalcNormals();

	std::vector<Triangle> tris = StripsToTris();

	CalculateNormals(vertices, tris, normals, smooth, smoothThresh, lockedIndices);
}

void NiTriStripsData::CalcTangentSpace() {
	if (!HasNormals() || !HasUVs())
		return;

	NiTriBasedGeomData::CalcTangentSpace();

	std::vector<Vector3> tan1;
	std::vector<Vector3> tan2;
	tan1.resize(numVertices);
	tan2.resize(numVertices);

	std::vector<Triangle> tris = StripsToTris();

	for (auto& tri : tris) {
		int i1 = tri.p1;
		int i2 = tri.p2;
		int i3 = tri.p3;

		if (i1 >= numVertices || i2 >= numVertices || i3 >= numVertices)
			continue;

		Vector3 v1 = vertices[i1];
		Vector3 v2 = vertices[i2];
		Vector3 v3 = vertices[i3];

		Vector2 w1 = uvSets[0][i1];
		Vector2 w2 = uvSets[0][i2];
		Vector2 w3 = uvSets[0][i3];

		float x1 = v2.x - v1.x;
		float x2 = v3.x - v1.x;
		float y1 = v2.y - v1.y;
		float y2 = v3.y - v1.y;
		float z1 = v2.z - v1.z;
		float z2 = v3.z - v1.z;

		float s1 = w2.u - w1.u;
		float s2 = w3.u - w1.u;
		float t1 = w2.v - w1.v;
		float t2 = w3.v - w1.v;

		float r = (s1 * t2 - s2 * t1);
		r = (r >= 0.0f ? +1.0f : -1.0f);

		Vector3 sdir = Vector3((t2 * x1 - t1 * x2) * r, (t2 * y1 - t1 * y2) * r, (t2 * z1 - t1 * z2) * r);
		Vector3 tdir = Vector3((s1 * x2 - s2 * x1) * r, (s1 * y2 - s2 * y1) * r, (s1 * z2 - s2 * z1) * r);

		sdir.Normalize();
		tdir.Normalize();

		tan1[i1] += sdir;
		tan1[i2] += sdir;
		tan1[i3] += sdir;

		tan2[i1] += tdir;
		tan2[i2] += tdir;
		tan2[i3] += tdir;
	}

	for (uint16_t i = 0; i < numVertices; i++) {
		bitangents[i] = tan1[i];
		tangents[i] = tan2[i];

		if (tangents[i].IsZero() || bitangents[i].IsZero()) {
			tangents[i].x = normals[i].y;
			tangents[i].y = normals[i].z;
			tangents[i].z = normals[i].x;
			bitangents[i] = normals[i].cross(tangents[i]);
		}
		else {
			tangents[i].Normalize();
			tangents[i] = (tangents[i] - normals[i] * normals[i].dot(tangents[i]));
			tangents[i].Normalize();

			bitangents[i].Normalize();

			bitangents[i] = (bitangents[i] - normals[i] * normals[i].dot(bitangents[i]));
			bitangents[i] = (bitangents[i] - tangents[i] * tangents[i].dot(bitangents[i]));

			bitangents[i].Normalize();
		}
	}
}


NiGeometryData* NiTriStrips::GetGeomData() const {
	return stripsData;
};

void NiTriStrips::SetGeomData(NiGeometryData* geomDataPtr) {
	auto geomData = dynamic_cast<NiTriStripsData*>(geomDataPtr);
	if (geomData)
		stripsData = geomData;
}


void NiLinesData::Sync(NiStreamReversible& stream) {
	lineFlags.resize(numVertices);
	for (uint16_t i = 0; i < numVertices; i++)
		stream.Sync(lineFlags[i]);
}

void NiLinesData::notifyVerticesDelete(const std::vector<uint16_t>& vertIndices) {
	NiGeometryData::notifyVerticesDelete(vertIndices);

	EraseVectorIndices(lineFlags, vertIndices);
}


NiGeometryData* NiLines::GetGeomData() const {
	return linesData;
}

void NiLines::SetGeomData(NiGeometryData* geomDataPtr) {
	auto geomData = dynamic_cast<NiLinesData*>(geomDataPtr);
	if (geomData)
		linesData = geomData;
}


void NiScreenElementsData::Sync(NiStreamReversible& stream) {
	stream.Sync(maxPolygons);
	polygons.resize(maxPolygons);
	for (uint32_t i = 0; i < maxPolygons; i++)
		stream.Sync(polygons[i]);

	polygonIndices.resize(maxPolygons);
	for (uint32_t i = 0; i < maxPolygons; i++)
		stream.Sync(polygonIndices[i]);

	stream.Sync(polygonGrowBy);
	stream.Sync(numPolygons);
	stream.Sync(maxVertices);
	stream.Sync(verticesGrowBy);
	stream.Sync(maxIndices);
	stream.Sync(indicesGrowBy);
}

void NiScreenElementsData::notifyVerticesDelete(const std::vector<uint16_t>& vertIndices) {
	NiTriShapeData::notifyVerticesDelete(vertIndices);

	// Clearing as workaround
	maxPolygons = 0;
	polygons.clear();
	polygonIndices.clear();
	numPolygons = 0;
	maxVertices = 0;
	maxIndices = 0;
}


NiGeometryData* NiScreenElements::GetGeomData() const {
	return elemData;
}

void NiScreenElements::SetGeomData(NiGeometryData* geomDataPtr) {
	auto geomData = dynamic_cast<NiScreenElementsData*>(geomDataPtr);
	if (geomData)
		elemData = geomData;
}


void BSLODTriShape::Sync(NiStreamReversible& stream) {
	stream.Sync(level0);
	stream.Sync(level1);
	stream.Sync(level2);
}

NiGeometryData* BSLODTriShape::GetGeomData() const {
	return shapeData;
}

void BSLODTriShape::SetGeomData(NiGeometryData* geomDataPtr) {
	auto geomData = dynamic_cast<NiTriShapeData*>(geomDataPtr);
	if (geomData)
		shapeData = geomData;
}


void BSGeometrySegmentData::Sync(NiStreamReversible& stream) {
	stream.Sync(flags);
	stream.Sync(index);
	stream.Sync(numTris);
}


void BSSegmentedTriShape::Sync(NiStreamReversible& stream) {
	stream.Sync(numSegments);
	segments.resize(numSegments);

	for (auto& segment : segments)
		segment.Sync(stream);
}

std::vector<BSGeometrySegmentData> BSSegmentedTriShape::GetSegments() const {
	return segments;
}

void BSSegmentedTriShape::SetSegments(const std::vector<BSGeometrySegmentData>& sd) {
	segments = sd;
	numSegments = static_cast<uint32_t>(segments.size());
}
