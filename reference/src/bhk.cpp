/*
nifly
C++ NIF library for the Gamebryo/NetImmerse File Format
See the included GPLv3 LICENSE file
*/

#include "bhk.hpp"

using namespace nifly;

void NiCollisionObject::Sync(NiStreamReversible& stream) {
	targetRef.Sync(stream);
}

void NiCollisionObject::GetPtrs(std::set<NiPtr*>& ptrs) {
	NiObject::GetPtrs(ptrs);

	ptrs.insert(&targetRef);
}


void BoundingVolume::Sync(NiStreamReversible& stream) {
	stream.Sync(collisionType);

	switch (collisionType) {
		case SPHERE_BV: stream.Sync(bvSphere); break;
		case BOX_BV: stream.Sync(bvBox); break;
		case CAPSULE_BV: stream.Sync(bvCapsule); break;
		case UNION_BV: bvUnion->Sync(stream); break;
		case HALFSPACE_BV: stream.Sync(bvHalfSpace); break;
		default: break;
	}
}


void NiCollisionData::Sync(NiStreamReversible& stream) {
	stream.Sync(propagationMode);
	stream.Sync(collisionMode);
	stream.Sync(useABV);

	if (useABV)
		boundingVolume.Sync(stream);
}


void bhkNiCollisionObject::Sync(NiStreamReversible& stream) {
	stream.Sync(flags);
	bodyRef.Sync(stream);
}

void bhkNiCollisionObject::GetChildRefs(std::set<NiRef*>& refs) {
	NiCollisionObject::GetChildRefs(refs);

	refs.insert(&bodyRef);
}

void bhkNiCollisionObject::GetChildIndices(std::vector<uint32_t>& indices) {
	NiCollisionObject::GetChildIndices(indices);

	indices.push_back(bodyRef.index);
}


void bhkNPCollisionObject::Sync(NiStreamReversible& stream) {
	stream.Sync(bodyID);
}


void bhkBlendCollisionObject::Sync(NiStreamReversible& stream) {
	stream.Sync(heirGain);
	stream.Sync(velGain);
}


bhkPhysicsSystem::bhkPhysicsSystem(const uint32_t size) {
	data.resize(size);
}

void bhkPhysicsSystem::Sync(NiStreamReversible& stream) {
	data.SyncByteArray(stream);
}


bhkRagdollSystem::bhkRagdollSystem(const uint32_t size) {
	data.resize(size);
}

void bhkRagdollSystem::Sync(NiStreamReversible& stream) {
	data.SyncByteArray(stream);
}


void bhkBlendController::Sync(NiStreamReversible& stream) {
	stream.Sync(keys);
}


void bhkHeightFieldShape::Sync(NiStreamReversible& stream) {
	stream.Sync(material);
}


void bhkPlaneShape::Sync(NiStreamReversible& stream) {
	stream.Sync(unkVec);
	stream.Sync(plane);
	stream.Sync(halfExtents);
	stream.Sync(center);
}


void bhkSphereRepShape::Sync(NiStreamReversible& stream) {
	stream.Sync(material);
}


void bhkConvexShape::Sync(NiStreamReversible& stream) {
	stream.Sync(radius);
}


void bhkMultiSphereShape::Sync(NiStreamReversible& stream) {
	stream.Sync(shapeProperty);
	spheres.Sync(stream);
}


void bhkConvexListShape::Sync(NiStreamReversible& stream) {
	shapeRefs.Sync(stream);
	stream.Sync(material);
	stream.Sync(radius);
	stream.Sync(unkInt1);
	stream.Sync(unkFloat1);
	stream.Sync(childShapeProp);
	stream.Sync(useCachedAABB);
	stream.Sync(closestPointMinDistance);
}

void bhkConvexListShape::GetChildRefs(std::set<NiRef*>& refs) {
	bhkShape::GetChildRefs(refs);

	shapeRefs.GetIndexPtrs(refs);
}

void bhkConvexListShape::GetChildIndices(std::vector<uint32_t>& indices) {
	bhkShape::GetChildIndices(indices);

	shapeRefs.GetIndices(indices);
}


void bhkConvexVerticesShape::Sync(NiStreamReversible& stream) {
	stream.Sync(vertsProp);
	stream.Sync(normalsProp);
	verts.Sync(stream);
	normals.Sync(stream);
}


void bhkBoxShape::Sync(NiStreamReversible& stream) {
	stream.Sync(padding);
	stream.Sync(dimensions);
	stream.Sync(radius2);
}


void bhkCylinderShape::Sync(NiStreamReversible& stream) {
	stream.Sync(reinterpret_cast<char*>(unused1), 8);
	stream.Sync(vertexA);
	stream.Sync(vertexB);
	stream.Sync(cylinderRadius);
	stream.Sync(reinterpret_cast<char*>(unused2), 12);
}


void bhkTransformShape::Sync(NiStreamReversible& stream) {
	shapeRef.Sync(stream);
	stream.Sync(material);
	stream.Sync(radius);
	stream.Sync(padding);
	stream.Sync(xform);
}

void bhkTransformShape::GetChildRefs(std::set<NiRef*>& refs) {
	bhkShape::GetChildRefs(refs);

	refs.insert(&shapeRef);
}

void bhkTransformShape::GetChildIndices(std::vector<uint32_t>& indices) {
	bhkShape::GetChildIndices(indices);

	indices.push_back(shapeRef.index);
}


void bhkCapsuleShape::Sync(NiStreamReversible& stream) {
	stream.Sync(padding);
	stream.Sync(point1);
	stream.Sync(radius1);
	stream.Sync(point2);
	stream.Sync(radius2);
}


void bhkMoppBvTreeShape::Sync(NiStreamReversible& stream) {
	shapeRef.Sync(stream);
	stream.Sync(userData);
	stream.Sync(shapeCollection);
	stream.Sync(code);
	stream.Sync(scale);
	uint32_t sz = data.SyncSize(stream);
	stream.Sync(offset);

	if (stream.GetVersion().User() >= 12)
		stream.Sync(buildType);

	data.SyncData(stream, sz);
}

void bhkMoppBvTreeShape::GetChildRefs(std::set<NiRef*>& refs) {
	bhkBvTreeShape::GetChildRefs(refs);

	refs.insert(&shapeRef);
}

void bhkMoppBvTreeShape::GetChildIndices(std::vector<uint32_t>& indices) {
	bhkBvTreeShape::GetChildIndices(indices);

	indices.push_back(shapeRef.index);
}


void bhkNiTriStripsShape::Sync(NiStreamReversible& stream) {
	stream.Sync(material);
	stream.Sync(radius);
	stream.Sync(unused1);
	stream.Sync(unused2);
	stream.Sync(unused3);
	stream.Sync(unused4);
	stream.Sync(unused5);
	stream.Sync(growBy);
	stream.Sync(scale);

	partRefs.Sync(stream);
	filters.Sync(stream);
}

void bhkNiTriStripsShape::GetChildRefs(std::set<NiRef*>& refs) {
	bhkShape::GetChildRefs(refs);

	partRefs.GetIndexPtrs(refs);
}

void bhkNiTriStripsShape::GetChildIndices(std::vector<uint32_t>& indices) {
	bhkShape::GetChildIndices(indices);

	partRefs.GetIndices(indices);
}


void bhkListShape::Sync(NiStreamReversible& stream) {
	subShapeRefs.Sync(stream);

	stream.Sync(material);
	stream.Sync(childShapeProp);
	stream.Sync(childFilterProp);

	filters.Sync(stream);
}

void bhkListShape::GetChildRefs(std::set<NiRef*>& refs) {
	bhkShapeCollection::GetChildRefs(refs);

	subShapeRefs.GetIndexPtrs(refs);
}

void bhkListShape::GetChildIndices(std::vector<uint32_t>& indices) {
	bhkShapeCollection::GetChildIndices(indices);

	subShapeRefs.GetIndices(indices);
}


void hkPackedNiTriStripsData::Sync(NiStreamReversible& stream) {
	stream.Sync(keyCount);

	if (stream.GetVersion().Stream() > 11) {
		triData.resize(keyCount);
		for (uint32_t i = 0; i < keyCount; i++)
			stream.Sync(triData[i]);
	}
	else {
		triNormData.resize(keyCount);
		for (uint32_t i = 0; i < keyCount; i++)
			stream.Sync(triNormData[i]);
	}

	stream.Sync(numVerts);

	if (stream.GetVersion().Stream() > 11)
		stream.Sync(compressed);

	compressedVertData.resize(numVerts);
	for (uint32_t i = 0; i < numVerts; i++)
		stream.Sync(compressedVertData[i]);

	if (stream.GetVersion().Stream() > 11)
		subPartData.Sync(stream);
}


void bhkPackedNiTriStripsShape::Sync(NiStreamReversible& stream) {
	if (stream.GetVersion().Stream() <= 11)
		subPartData.Sync(stream);

	stream.Sync(userData);
	stream.Sync(unused1);
	stream.Sync(radius);
	stream.Sync(unused2);
	stream.Sync(scaling);
	stream.Sync(radius2);
	stream.Sync(scaling2);
	dataRef.Sync(stream);
}

void bhkPackedNiTriStripsShape::GetChildRefs(std::set<NiRef*>& refs) {
	bhkShapeCollection::GetChildRefs(refs);

	refs.insert(&dataRef);
}

void bhkPackedNiTriStripsShape::GetChildIndices(std::vector<uint32_t>& indices) {
	bhkShapeCollection::GetChildIndices(indices);

	indices.push_back(dataRef.index);
}


void bhkLiquidAction::Sync(NiStreamReversible& stream) {
	stream.Sync(userData);
	stream.Sync(unkInt1);
	stream.Sync(unkInt2);
	stream.Sync(initialStickForce);
	stream.Sync(stickStrength);
	stream.Sync(neighborDistance);
	stream.Sync(neighborStrength);
}


void bhkOrientHingedBodyAction::Sync(NiStreamReversible& stream) {
	bodyRef.Sync(stream);
	stream.Sync(unkInt1);
	stream.Sync(unkInt2);
	stream.Sync(padding);
	stream.Sync(hingeAxisLS);
	stream.Sync(forwardLS);
	stream.Sync(strength);
	stream.Sync(damping);
	stream.Sync(padding2);
}

void bhkOrientHingedBodyAction::GetPtrs(std::set<NiPtr*>& ptrs) {
	bhkSerializable::GetPtrs(ptrs);

	ptrs.insert(&bodyRef);
}


void bhkWorldObject::Sync(NiStreamReversible& stream) {
	shapeRef.Sync(stream);
	stream.Sync(collisionFilter);
	stream.Sync(unkInt1);
	stream.Sync(broadPhaseType);
	stream.Sync(reinterpret_cast<char*>(unkBytes), 3);
	stream.Sync(prop);
}

void bhkWorldObject::GetChildRefs(std::set<NiRef*>& refs) {
	bhkSerializable::GetChildRefs(refs);

	refs.insert(&shapeRef);
}

void bhkWorldObject::GetChildIndices(std::vector<uint32_t>& indices) {
	bhkSerializable::GetChildIndices(indices);

	indices.push_back(shapeRef.index);
}


void bhkSimpleShapePhantom::Sync(NiStreamReversible& stream) {
	stream.Sync(padding);
	stream.Sync(transform);
}


void bhkAabbPhantom::Sync(NiStreamReversible& stream) {
	stream.Sync(padding);
	stream.Sync(aabbMin);
	stream.Sync(aabbMax);
}


void bhkRigidBody::Sync(NiStreamReversible& stream) {
	stream.Sync(collisionResponse);
	stream.Sync(unusedByte1);
	stream.Sync(processContactCallbackDelay);
	stream.Sync(unkInt1);

	stream.Sync(collisionFilterCopy);
	stream.Sync(reinterpret_cast<char*>(unkShorts2), 12);

	stream.Sync(translation);
	stream.Sync(rotation);
	stream.Sync(linearVelocity);
	stream.Sync(angularVelocity);
	stream.Sync(reinterpret_cast<char*>(inertiaMatrix), 48);
	stream.Sync(center);
	stream.Sync(mass);
	stream.Sync(linearDamping);
	stream.Sync(angularDamping);

	if (stream.GetVersion().Stream() > 34) {
		if (stream.GetVersion().Stream() < 130)
			stream.Sync(timeFactor);

		stream.Sync(gravityFactor);
	}

	stream.Sync(friction);

	if (stream.GetVersion().Stream() > 34)
		stream.Sync(rollingFrictionMult);

	stream.Sync(restitution);
	stream.Sync(maxLinearVelocity);
	stream.Sync(maxAngularVelocity);
	stream.Sync(penetrationDepth);
	stream.Sync(motionSystem);
	stream.Sync(deactivatorType);
	stream.Sync(solverDeactivation);
	stream.Sync(qualityType);

	if (stream.GetVersion().Stream() > 34) {
		stream.Sync(autoRemoveLevel);
		stream.Sync(responseModifierFlag);
		stream.Sync(numShapeKeysInContactPointProps);
		stream.Sync(forceCollideOntoPpu);
	}

	if (stream.GetVersion().IsFO4())
		stream.Sync(reinterpret_cast<char*>(unusedBytes2), 3);
	else
		stream.Sync(reinterpret_cast<char*>(unusedInts1), 12);

	constraintRefs.Sync(stream);

	if (stream.GetVersion().Stream() < 76)
		stream.Sync(bodyFlagsInt);
	else
		stream.Sync(bodyFlags);
}

void bhkRigidBody::GetChildRefs(std::set<NiRef*>& refs) {
	bhkEntity::GetChildRefs(refs);

	constraintRefs.GetIndexPtrs(refs);
}

void bhkRigidBody::GetChildIndices(std::vector<uint32_t>& indices) {
	bhkEntity::GetChildIndices(indices);

	constraintRefs.GetIndices(indices);
}


void bhkConstraint::Sync(NiStreamReversible& stream) {
	entityRefs.SetKeepEmptyRefs();
	entityRefs.SetSize(2);
	entityRefs.Sync(stream);

	stream.Sync(priority);
}

void bhkConstraint::GetPtrs(std::set<NiPtr*>& ptrs) {
	bhkSerializable::GetPtrs(ptrs);

	entityRefs.GetIndexPtrs(ptrs);
}


void bhkHingeConstraint::Sync(NiStreamReversible& stream) {
	hinge.Sync(stream);
}


void bhkLimitedHingeConstraint::Sync(NiStreamReversible& stream) {
	limitedHinge.Sync(stream);
}


void ConstraintData::Sync(NiStreamReversible& stream) {
	stream.Sync(type);

	entityRefs.SetKeepEmptyRefs();
	entityRefs.SetSize(2);
	entityRefs.Sync(stream);
	stream.Sync(priority);

	switch (type) {
		case BallAndSocket: stream.Sync(reinterpret_cast<char*>(&desc1), 32); break;
		case Hinge: desc2.Sync(stream); break;
		case LimitedHinge: desc3.Sync(stream); break;
		case Prismatic: desc4.Sync(stream); break;
		case Ragdoll: desc5.Sync(stream); break;
		case StiffSpring: stream.Sync(reinterpret_cast<char*>(&desc6), 36); break;
	}

	if (stream.GetVersion().File() <= NiFileVersion::V20_0_0_5) {
		stream.Sync(tau);
		stream.Sync(damping);
	}
	else if (stream.GetVersion().File() >= NiFileVersion::V20_2_0_7)
		stream.Sync(strength);
}

void ConstraintData::GetPtrs(std::set<NiPtr*>& ptrs) {
	entityRefs.GetIndexPtrs(ptrs);
}


void bhkBreakableConstraint::Sync(NiStreamReversible& stream) {
	subConstraint.Sync(stream);
	stream.Sync(removeWhenBroken);
}

void bhkBreakableConstraint::GetPtrs(std::set<NiPtr*>& ptrs) {
	bhkConstraint::GetPtrs(ptrs);

	subConstraint.GetPtrs(ptrs);
}


void bhkRagdollConstraint::Sync(NiStreamReversible& stream) {
	if (stream.GetVersion().Stream() <= 16) {
		// OB/FO3
		stream.Sync(ragdoll.pivotA);
		stream.Sync(ragdoll.planeA);
		stream.Sync(ragdoll.twistA);
		stream.Sync(ragdoll.pivotB);
		stream.Sync(ragdoll.planeB);
		stream.Sync(ragdoll.twistB);
	}
	else {
		// FO3 and later
		stream.Sync(ragdoll.twistA);
		stream.Sync(ragdoll.planeA);
		stream.Sync(ragdoll.motorA);
		stream.Sync(ragdoll.pivotA);
		stream.Sync(ragdoll.twistB);
		stream.Sync(ragdoll.planeB);
		stream.Sync(ragdoll.motorB);
		stream.Sync(ragdoll.pivotB);
	}

	stream.Sync(ragdoll.coneMaxAngle);
	stream.Sync(ragdoll.planeMinAngle);
	stream.Sync(ragdoll.planeMaxAngle);
	stream.Sync(ragdoll.twistMinAngle);
	stream.Sync(ragdoll.twistMaxAngle);
	stream.Sync(ragdoll.maxFriction);

	if (stream.GetVersion().Stream() > 16)
		ragdoll.motorDesc.Sync(stream);
}


void bhkStiffSpringConstraint::Sync(NiStreamReversible& stream) {
	stream.Sync(stiffSpring.pivotA);
	stream.Sync(stiffSpring.pivotB);
	stream.Sync(stiffSpring.length);
}


void bhkPrismaticConstraint::Sync(NiStreamReversible& stream) {
	prismatic.Sync(stream);
}


void bhkMalleableConstraint::Sync(NiStreamReversible& stream) {
	subConstraint.Sync(stream);
}

void bhkMalleableConstraint::GetPtrs(std::set<NiPtr*>& ptrs) {
	bhkConstraint::GetPtrs(ptrs);

	subConstraint.GetPtrs(ptrs);
}


void bhkBallAndSocketConstraint::Sync(NiStreamReversible& stream) {
	stream.Sync(ballAndSocket.translationA);
	stream.Sync(ballAndSocket.translationB);
}


void bhkBallSocketConstraintChain::Sync(NiStreamReversible& stream) {
	pivots.Sync(stream);

	stream.Sync(tau);
	stream.Sync(damping);
	stream.Sync(cfm);
	stream.Sync(maxErrorDistance);

	chainedEntityRefs.Sync(stream);

	numEntities = 2;
	stream.Sync(numEntities);
	numEntities = 2;

	entityARef.Sync(stream);
	entityBRef.Sync(stream);
	stream.Sync(priority);
}

void bhkBallSocketConstraintChain::GetPtrs(std::set<NiPtr*>& ptrs) {
	bhkSerializable::GetPtrs(ptrs);

	chainedEntityRefs.GetIndexPtrs(ptrs);
	ptrs.insert(&entityARef);
	ptrs.insert(&entityBRef);
}


void bhkCompressedMeshShapeData::Sync(NiStreamReversible& stream) {
	stream.Sync(bitsPerIndex);
	stream.Sync(bitsPerWIndex);
	stream.Sync(maskWIndex);
	stream.Sync(maskIndex);
	stream.Sync(error);
	stream.Sync(aabbBoundMin);
	stream.Sync(aabbBoundMax);
	stream.Sync(weldingType);
	stream.Sync(materialType);

	mat32.Sync(stream);
	mat16.Sync(stream);
	mat8.Sync(stream);

	materials.Sync(stream);

	stream.Sync(numNamedMat);

	transforms.Sync(stream);
	bigVerts.Sync(stream);

	bigTris.Sync(stream);
	chunks.Sync(stream);

	stream.Sync(numConvexPieceA);
}


void bhkCompressedMeshShape::Sync(NiStreamReversible& stream) {
	targetRef.Sync(stream);
	stream.Sync(userData);
	stream.Sync(radius);
	stream.Sync(unkFloat);
	stream.Sync(scaling);
	stream.Sync(radius2);
	stream.Sync(scaling2);
	dataRef.Sync(stream);
}

void bhkCompressedMeshShape::GetChildRefs(std::set<NiRef*>& refs) {
	bhkShape::GetChildRefs(refs);

	refs.insert(&dataRef);
}

void bhkCompressedMeshShape::GetChildIndices(std::vector<uint32_t>& indices) {
	bhkShape::GetChildIndices(indices);

	indices.push_back(dataRef.index);
}

void bhkCompressedMeshShape::GetPtrs(std::set<NiPtr*>& ptrs) {
	bhkShape::GetPtrs(ptrs);

	ptrs.insert(&targetRef);
}


void bhkPoseArray::Sync(NiStreamReversible& stream) {
	bones.Sync(stream);
	poses.Sync(stream);
}

void bhkPoseArray::GetStringRefs(std::vector<NiStringRef*>& refs) {
	NiObject::GetStringRefs(refs);

	for (auto& b : bones)
		refs.emplace_back(&b);
}


void bhkRagdollTemplate::Sync(NiStreamReversible& stream) {
	boneRefs.Sync(stream);
}

void bhkRagdollTemplate::GetChildRefs(std::set<NiRef*>& refs) {
	NiExtraData::GetChildRefs(refs);

	boneRefs.GetIndexPtrs(refs);
}

void bhkRagdollTemplate::GetChildIndices(std::vector<uint32_t>& indices) {
	NiExtraData::GetChildIndices(indices);

	boneRefs.GetIndices(indices);
}


void bhkRagdollTemplateData::Sync(NiStreamReversible& stream) {
	name.Sync(stream);
	stream.Sync(mass);
	stream.Sync(restitution);
	stream.Sync(friction);
	stream.Sync(radius);
	stream.Sync(material);
	constraints.Sync(stream);
}

void bhkRagdollTemplateData::GetStringRefs(std::vector<NiStringRef*>& refs) {
	NiObject::GetStringRefs(refs);

	refs.emplace_back(&name);
}

void bhkRagdollTemplateData::GetPtrs(std::set<NiPtr*>& ptrs) {
	NiObject::GetPtrs(ptrs);

	constraints.GetPtrs(ptrs);
}
