/*
nifly
C++ NIF library for the Gamebryo/NetImmerse File Format
See the included GPLv3 LICENSE file
*/

#include "BasicTypes.hpp"
#include "NifUtil.hpp"

#include <array>
#include <regex>

using namespace nifly;

static const std::string NIF_GAMEBRYO = "Gamebryo File Format";
static const std::string NIF_NETIMMERSE = "NetImmerse File Format";
static const std::string NIF_NDS = "NDSNIF....@....@....";
static const std::string NIF_VERSTRING = ", Version ";

NiVersion::NiVersion(NiFileVersion _file, uint32_t _user, uint32_t _stream)
	: user(_user)
	, stream(_stream) {
	SetFile(_file);
}

std::string NiVersion::GetVersionInfo() const {
	return vstr + "\nUser Version: " + std::to_string(user) + "\nStream Version: " + std::to_string(stream);
}

void NiVersion::SetFile(NiFileVersion fileVer) {
	std::vector<uint8_t> verArr = ToArray(fileVer);
	std::string verNum;

	if (fileVer > V3_1) {
		verNum = std::to_string(verArr[0]) + '.' + std::to_string(verArr[1]) + '.' + std::to_string(verArr[2])
				 + '.' + std::to_string(verArr[3]);
	}
	else {
		verNum = std::to_string(verArr[0]) + '.' + std::to_string(verArr[1]);
	}

	if (nds != 0)
		vstr = NIF_NDS;
	else if (fileVer < V10_0_0_0)
		vstr = NIF_NETIMMERSE;
	else
		vstr = NIF_GAMEBRYO;

	vstr += NIF_VERSTRING;
	vstr += verNum;

	file = fileVer;
}


void NiString::Read(NiIStream& stream, const int szSize) {
	std::unique_ptr<char[]> buf;

	if (szSize == 1) {
		uint8_t smSize = 0;
		stream >> smSize;

		buf = std::make_unique<char[]>(smSize + 1);
		stream.read(buf.get(), smSize);
		buf[smSize] = 0;
	}
	else if (szSize == 2) {
		uint16_t medSize = 0;
		stream >> medSize;

		buf = std::make_unique<char[]>(medSize + 1);
		stream.read(buf.get(), medSize);
		buf[medSize] = 0;
	}
	else if (szSize == 4) {
		uint32_t bigSize = 0;
		stream >> bigSize;

		buf = std::make_unique<char[]>(bigSize + 1);
		stream.read(buf.get(), bigSize);
		buf[bigSize] = 0;
	}
	else
		return;

	str = buf.get();
}

void NiString::Write(NiOStream& stream, const int szSize) {
	if (szSize == 1) {
		auto sz = uint8_t(str.length());
		str.resize(sz);

		if (nullOutput)
			sz += 1;

		stream << sz;
	}
	else if (szSize == 2) {
		auto sz = uint16_t(str.length());
		str.resize(sz);

		if (nullOutput)
			sz += 1;

		stream << sz;
	}
	else if (szSize == 4) {
		auto sz = uint32_t(str.length());
		str.resize(sz);

		if (nullOutput)
			sz += 1;

		stream << sz;
	}

	stream.write(str.c_str(), str.length());
	if (nullOutput)
		stream << uint8_t(0);
}


void NiStringRef::Read(NiIStream& stream) {
#ifdef NIFLY_VERIF
	if (verif::observer() && verif::depth() == 0)
		verif::observer()->onStr(this, true);
#endif
	if (stream.GetVersion().File() < V20_1_0_3) {
		std::array<char, 2048 + 1> buf{};

		uint32_t sz = 0;
		stream >> sz;

		if (sz < buf.size())
			stream.read(buf.data(), sz);
		else
			sz = static_cast<uint32_t>(buf.size() - 1);

		buf[sz] = 0;
		str = buf.data();
	}
	else
		stream >> index;
}

void NiStringRef::Write(NiOStream& stream) {
#ifdef NIFLY_VERIF
	if (verif::observer() && verif::depth() == 0)
		verif::observer()->onStr(this, false);
#endif
	if (stream.GetVersion().File() < V20_1_0_3) {
		auto sz = uint32_t(str.length());
		str.resize(sz);

		stream << sz;
		stream.write(str.c_str(), str.length());
	}
	else
		stream << index;
}


void NiHeader::Clear() {
	numBlockTypes = 0;
	numStrings = 0;
	numBlocks = 0;
	blocks = nullptr;
	blockTypes.clear();
	blockTypeIndices.clear();
	blockSizes.clear();
	strings.clear();
}

std::string NiHeader::GetCreatorInfo() const {
	return creator.get();
}

void NiHeader::SetCreatorInfo(const std::string& creatorInfo) {
	creator.get() = creatorInfo;
}

std::string NiHeader::GetExportInfo() const {
	std::string exportInfo = exportInfo1.get();

	if (exportInfo2.length() > 0) {
		exportInfo.append("\n");
		exportInfo.append(exportInfo2.get());
	}

	if (exportInfo3.length() > 0) {
		exportInfo.append("\n");
		exportInfo.append(exportInfo3.get());
	}

	return exportInfo;
}

void NiHeader::SetExportInfo(const std::string& exportInfo) {
	exportInfo1.clear();
	exportInfo2.clear();
	exportInfo3.clear();

	std::vector<NiString*> exportStrings(3);
	exportStrings[0] = &exportInfo1;
	exportStrings[1] = &exportInfo2;
	exportStrings[2] = &exportInfo3;

	auto it = exportStrings.begin();
	for (size_t i = 0; i < exportInfo.length() && it < exportStrings.end(); i += 254, ++it) {
		if (i + 254 <= exportInfo.length())
			(*it)->get() = exportInfo.substr(i, 254);
		else
			(*it)->get() = exportInfo.substr(i, exportInfo.length() - i);
	}
}

uint32_t NiHeader::GetBlockID(NiObject* block) const {
	auto it = find_if(*blocks, [&block](const auto& ptr) { return ptr.get() == block; });

	if (it != blocks->end())
		return static_cast<uint32_t>(std::distance(blocks->begin(), it));

	return NIF_NPOS;
}

void NiHeader::DeleteBlock(const uint32_t blockId) {
	if (blockId == NIF_NPOS)
		return;

	uint16_t blockTypeId = blockTypeIndices[blockId];
	int blockTypeRefCount = 0;
	for (uint16_t blockTypeIndice : blockTypeIndices)
		if (blockTypeIndice == blockTypeId)
			blockTypeRefCount++;

	if (blockTypeRefCount < 2) {
		blockTypes.erase(blockTypes.begin() + blockTypeId);
		numBlockTypes--;
		for (uint16_t& blockTypeIndice : blockTypeIndices)
			if (blockTypeIndice > blockTypeId)
				blockTypeIndice--;
	}

	blockTypeIndices.erase(blockTypeIndices.begin() + blockId);

	if (version.File() >= V20_2_0_5)
		blockSizes.erase(blockSizes.begin() + blockId);

	blocks->erase(blocks->begin() + blockId);
	numBlocks--;

	// Next tell all the blocks that the deletion happened
	for (auto& b : (*blocks))
		BlockDeleted(b.get(), blockId);
}

void NiHeader::DeleteBlock(const NiRef& blockRef) {
	DeleteBlock(blockRef.index);
}

void NiHeader::DeleteBlockByType(const std::string& blockTypeStr, const bool orphanedOnly) {
	uint16_t blockTypeId = 0;
	for (blockTypeId = 0; blockTypeId < numBlockTypes; blockTypeId++)
		if (blockTypes[blockTypeId].get() == blockTypeStr)
			break;

	if (blockTypeId == numBlockTypes)
		return;

	std::vector<int> indices;
	for (uint32_t i = 0; i < numBlocks; i++)
		if (blockTypeIndices[i] == blockTypeId)
			indices.push_back(i);

	for (uint32_t j = static_cast<uint32_t>(indices.size()) - 1; j != NIF_NPOS; j--)
		if (!orphanedOnly || !IsBlockReferenced(indices[j]))
			DeleteBlock(indices[j]);
}

uint32_t NiHeader::AddBlock(std::unique_ptr<NiObject> newBlock) {
	uint16_t btID = AddOrFindBlockTypeId(newBlock->GetBlockName());
	blockTypeIndices.push_back(btID);

	if (version.File() >= V20_2_0_5)
		blockSizes.push_back(0);

	blocks->emplace_back(std::move(newBlock));
	numBlocks++;
	return numBlocks - 1;
}

uint32_t NiHeader::ReplaceBlock(const uint32_t oldBlockId, std::unique_ptr<NiObject> newBlock) {
	if (oldBlockId == NIF_NPOS)
		return NIF_NPOS;

	uint16_t blockTypeId = blockTypeIndices[oldBlockId];
	int blockTypeRefCount = 0;
	for (uint16_t blockTypeIndice : blockTypeIndices)
		if (blockTypeIndice == blockTypeId)
			blockTypeRefCount++;

	if (blockTypeRefCount < 2) {
		blockTypes.erase(blockTypes.begin() + blockTypeId);
		numBlockTypes--;
		for (uint16_t& blockTypeIndice : blockTypeIndices)
			if (blockTypeIndice > blockTypeId)
				blockTypeIndice--;
	}

	uint16_t btID = AddOrFindBlockTypeId(newBlock->GetBlockName());
	blockTypeIndices[oldBlockId] = btID;

	if (version.File() >= V20_2_0_5)
		blockSizes[oldBlockId] = 0;

	(*blocks)[oldBlockId].swap(newBlock);
	return oldBlockId;
}

void NiHeader::SetBlockOrder(std::vector<uint32_t>& newOrder) {
	if (newOrder.size() != numBlocks)
		return;

	std::vector<uint16_t> newBlockTypeIndices(blockTypeIndices.size());
	std::vector<std::unique_ptr<NiObject>> newBlocks(blocks->size());

	for (uint32_t i = 0; i < numBlocks; i++) {
		newBlockTypeIndices[newOrder[i]] = blockTypeIndices[i];
		newBlocks[newOrder[i]] = std::move(blocks->at(i));
	}

	if (version.File() >= V20_2_0_5) {
		std::vector<uint32_t> newBlockSizes(blockSizes.size());

		for (uint32_t i = 0; i < numBlocks; i++)
			newBlockSizes[newOrder[i]] = blockSizes[i];

		blockSizes = std::move(newBlockSizes);
	}

	blockTypeIndices = std::move(newBlockTypeIndices);
	(*blocks) = std::move(newBlocks);

	for (auto& b : (*blocks)) {
		std::set<NiRef*> refs;
		b->GetChildRefs(refs);

		for (auto& r : refs) {
			if (!r->IsEmpty() && r->index < newOrder.size())
				r->index = newOrder[r->index];
		}

		std::set<NiRef*> ptrs;
		b->GetPtrs(ptrs);

		for (auto& p : ptrs) {
			if (!p->IsEmpty() && p->index < newOrder.size())
				p->index = newOrder[p->index];
		}
	}
}

bool NiHeader::IsBlockReferenced(const uint32_t blockId, bool includePtrs) {
	if (blockId == NIF_NPOS)
		return false;

	for (auto& block : (*blocks)) {
		std::set<NiRef*> refs;
		block->GetChildRefs(refs);

		if (includePtrs)
			block->GetPtrs(refs);

		for (auto& ref : refs)
			if (ref->index == blockId)
				return true;
	}

	return false;
}

int NiHeader::GetBlockRefCount(const uint32_t blockId, bool includePtrs) {
	if (blockId == NIF_NPOS)
		return 0;

	int refCount = 0;

	for (auto& block : (*blocks)) {
		std::set<NiRef*> refs;
		block->GetChildRefs(refs);

		if (includePtrs)
			block->GetPtrs(refs);

		for (auto& ref : refs)
			if (ref->index == blockId)
				refCount++;
	}

	return refCount;
}

uint16_t NiHeader::AddOrFindBlockTypeId(const std::string& blockTypeName) {
	NiString niStr;
	auto typeId = static_cast<uint16_t>(blockTypes.size());
	for (uint16_t i = 0; i < typeId; i++) {
		if (blockTypes[i].get() == blockTypeName) {
			typeId = i;
			break;
		}
	}

	// Shader block type not found, add it
	if (typeId == blockTypes.size()) {
		niStr.get() = blockTypeName;
		blockTypes.push_back(niStr);
		numBlockTypes++;
	}
	return typeId;
}

std::string NiHeader::GetBlockTypeStringById(const uint32_t blockId) const {
	if (blockId != NIF_NPOS && blockId < numBlocks) {
		uint16_t typeIndex = blockTypeIndices[blockId];
		if (typeIndex < numBlockTypes)
			return blockTypes[typeIndex].get();
	}

	return std::string();
}

uint16_t NiHeader::GetBlockTypeIndex(const uint32_t blockId) const {
	if (blockId != NIF_NPOS && blockId < numBlocks)
		return blockTypeIndices[blockId];

	return 0xFFFF;
}

uint32_t NiHeader::GetBlockSize(const uint32_t blockId) const {
	if (blockId < numBlocks && blockSizes.size() > blockId)
		return blockSizes[blockId];

	return NIF_NPOS;
}

std::streampos NiHeader::GetBlockSizeStreamPos() const {
	return blockSizePos;
}

void NiHeader::ResetBlockSizeStreamPos() {
	blockSizePos = std::streampos();
}

uint32_t NiHeader::GetStringCount() const {
	return static_cast<uint32_t>(strings.size());
}

uint32_t NiHeader::FindStringId(const std::string& str) const {
	for (uint32_t i = 0; i < numStrings; i++)
		if (strings[i].get() == str)
			return i;

	return NIF_NPOS;
}

uint32_t NiHeader::AddOrFindStringId(const std::string& str, const bool addEmpty) {
	for (uint32_t i = 0; i < numStrings; i++)
		if (strings[i].get() == str)
			return i;

	if (!addEmpty && str.empty())
		return NIF_NPOS;

	constexpr auto maxStringCount = std::numeric_limits<uint32_t>::max();
	if (strings.size() >= static_cast<size_t>(maxStringCount))
		return NIF_NPOS;

	NiString niStr(str);
	strings.push_back(std::move(niStr));
	numStrings++;

	return numStrings - 1;
}

std::string NiHeader::GetStringById(const uint32_t id) const {
	if (id != NIF_NPOS && id < numStrings)
		return strings[id].get();

	return std::string();
}

void NiHeader::SetStringById(const uint32_t id, const std::string& str) {
	if (id != NIF_NPOS && id < numStrings)
		strings[id].get() = str;
}

void NiHeader::ClearStrings() {
	strings.clear();
	numStrings = 0;
	maxStringLen = 0;
}

void NiHeader::UpdateMaxStringLength() {
	maxStringLen = 0;
	for (auto& s : strings) {
		auto len = static_cast<uint32_t>(s.length());
		if (maxStringLen < len)
			maxStringLen = len;
	}
}

void NiHeader::FillStringRefs() {
	if (version.File() < V20_1_0_1)
		return;

	for (auto& b : (*blocks)) {
		std::vector<NiStringRef*> stringRefs;
		b->GetStringRefs(stringRefs);

		for (auto& r : stringRefs) {
			uint32_t stringId = r->GetIndex();

			// Check if string index is overflowing
			if (stringId != NIF_NPOS && stringId >= numStrings) {
				stringId -= numStrings;
				r->SetIndex(stringId);
			}

			std::string str = GetStringById(stringId);
			r->get() = str;
		}
	}
}

void NiHeader::UpdateHeaderStrings(const bool hasUnknown) {
	if (!hasUnknown)
		ClearStrings();

	if (version.File() < V20_1_0_1)
		return;

	for (auto& b : (*blocks)) {
		std::vector<NiStringRef*> stringRefs;
		b->GetStringRefs(stringRefs);

		for (auto& r : stringRefs) {
			bool addEmpty = (r->GetIndex() != NIF_NPOS);
			int stringId = AddOrFindStringId(r->get(), addEmpty);
			r->SetIndex(stringId);
		}
	}

	UpdateMaxStringLength();
}

void NiHeader::BlockDeleted(NiObject* o, const uint32_t blockId) {
	std::set<NiRef*> refs;
	o->GetChildRefs(refs);
	o->GetPtrs(refs);

	for (auto& r : refs) {
		if (!r->IsEmpty()) {
			if (r->index == blockId)
				r->Clear();
			else if (r->index > blockId)
				r->index--;
		}
	}
}

void NiHeader::Get(NiIStream& stream) {
	std::array<char, 128> ver{};
	stream.getline(ver.data(), ver.size());

	bool isNetImmerse = std::strstr(ver.data(), NIF_NETIMMERSE.c_str()) != nullptr;
	bool isGamebryo = std::strstr(ver.data(), NIF_GAMEBRYO.c_str()) != nullptr;
	bool isNDS = std::strstr(ver.data(), NIF_NDS.c_str()) != nullptr;

	if (!isNetImmerse && !isGamebryo && !isNDS)
		return;

	NiFileVersion vfile = UNKNOWN;
	uint32_t vuser = 0;
	uint32_t vstream = 0;

	auto verStrPtr = std::strstr(ver.data(), NIF_VERSTRING.c_str());
	if (verStrPtr) {
		std::string verStr = verStrPtr + 10;
		std::regex reg("25[0-5]|2[0-4][0-9]|1[0-9][0-9]|[1-9]?[0-9]");
		std::smatch matches;

		std::array<uint8_t, 4> v{};
		int m = 0;
		while (std::regex_search(verStr, matches, reg) && m < 4) {
			v[m] = static_cast<uint8_t>(std::stoi(matches[0]));
			verStr = matches.suffix();
			m++;
		}

		vfile = NiVersion::ToFile(v[0], v[1], v[2], v[3]);
	}

	if (vfile > V3_1 && !isNDS) {
		stream >> vfile;
	}
	else if (isNDS) {
		uint32_t versionNDS = 0;
		stream >> versionNDS;
		version.SetNDS(versionNDS);
	}
	else {
		const int len = 128;

		copyright1.resize(len);
		stream.getline(copyright1.data(), copyright1.size());

		copyright2.resize(len);
		stream.getline(copyright2.data(), copyright2.size());

		copyright3.resize(len);
		stream.getline(copyright3.data(), copyright3.size());
	}

	version.SetFile(vfile);

	if (version.File() >= NiVersion::ToFile(20, 0, 0, 3))
		stream >> endian;
	else
		endian = ENDIAN_LITTLE;

	if (version.File() >= NiVersion::ToFile(10, 0, 1, 8)) {
		stream >> vuser;
		version.SetUser(vuser);
	}

	stream >> numBlocks;

	if (version.IsBethesda()) {
		stream >> vstream;
		version.SetStream(vstream);

		creator.Read(stream, 1);

		if (version.Stream() > 130)
			stream >> unkInt1;

		exportInfo1.Read(stream, 1);
		exportInfo2.Read(stream, 1);

		if (version.Stream() == 130)
			exportInfo3.Read(stream, 1);
	}
	else if (version.File() >= V30_0_0_2) {
		stream >> embedDataSize;
		embedData.resize(embedDataSize);
		for (uint32_t i = 0; i < embedDataSize; i++)
			stream >> embedData[i];
	}

	if (version.File() >= V5_0_0_1) {
		stream >> numBlockTypes;
		blockTypes.resize(numBlockTypes);
		for (uint32_t i = 0; i < numBlockTypes; i++)
			blockTypes[i].Read(stream, 4);

		blockTypeIndices.resize(numBlocks);
		for (uint32_t i = 0; i < numBlocks; i++)
			stream >> blockTypeIndices[i];
	}

	if (version.File() >= V20_2_0_5) {
		blockSizes.resize(numBlocks);
		for (uint32_t i = 0; i < numBlocks; i++)
			stream >> blockSizes[i];
	}

	if (version.File() >= V20_1_0_1) {
		stream >> numStrings;
		stream >> maxStringLen;

		strings.resize(numStrings);
		for (uint32_t i = 0; i < numStrings; i++)
			strings[i].Read(stream, 4);
	}

	if (version.File() >= NiVersion::ToFile(5, 0, 0, 6)) {
		stream >> numGroups;
		groupSizes.resize(numGroups);
		for (uint32_t i = 0; i < numGroups; i++)
			stream >> groupSizes[i];
	}

	valid = true;
}

void NiHeader::Put(NiOStream& stream) {
	std::string ver = version.String();
	stream.write(ver.data(), ver.size());

	// Newline to end header string
	stream << uint8_t(0x0A);

	bool isNDS = version.NDS() != 0;
	if (version.File() > V3_1 && !isNDS) {
		stream << version.File();
	}
	else if (isNDS) {
		stream << version.NDS();
	}
	else {
		stream.writeline(copyright1.data(), copyright1.size());
		stream.writeline(copyright2.data(), copyright2.size());
		stream.writeline(copyright3.data(), copyright3.size());
	}

	if (version.File() >= NiVersion::ToFile(20, 0, 0, 3))
		stream << endian;

	if (version.File() >= NiVersion::ToFile(10, 0, 1, 8))
		stream << version.User();

	stream << numBlocks;

	if (version.IsBethesda()) {
		stream << version.Stream();

		creator.SetNullOutput();
		creator.Write(stream, 1);

		if (version.Stream() > 130)
			stream << unkInt1;

		exportInfo1.SetNullOutput();
		exportInfo1.Write(stream, 1);

		exportInfo2.SetNullOutput();
		exportInfo2.Write(stream, 1);

		if (version.Stream() == 130) {
			exportInfo3.SetNullOutput();
			exportInfo3.Write(stream, 1);
		}
	}
	else if (version.File() >= V30_0_0_2) {
		stream << embedDataSize;
		for (uint32_t i = 0; i < embedDataSize; i++)
			stream << embedData[i];
	}

	if (version.File() >= V5_0_0_1) {
		stream << numBlockTypes;
		for (uint16_t i = 0; i < numBlockTypes; i++)
			blockTypes[i].Write(stream, 4);

		for (uint32_t i = 0; i < numBlocks; i++)
			stream << blockTypeIndices[i];
	}

	if (version.File() >= V20_2_0_5) {
		blockSizePos = stream.tellp();
		for (uint32_t i = 0; i < numBlocks; i++)
			stream << blockSizes[i];
	}

	if (version.File() >= V20_1_0_1) {
		stream << numStrings;
		stream << maxStringLen;
		for (uint32_t i = 0; i < numStrings; i++)
			strings[i].Write(stream, 4);
	}

	if (version.File() >= NiVersion::ToFile(5, 0, 0, 6)) {
		stream << numGroups;
		for (uint32_t i = 0; i < numGroups; i++)
			stream << groupSizes[i];
	}
}


NiUnknown::NiUnknown(NiIStream& stream, const uint32_t size) {
	data.resize(size);

	blockSize = size;
	Get(stream);
}

NiUnknown::NiUnknown(const uint32_t size) {
	data.resize(size);

	blockSize = size;
}

void NiUnknown::Sync(NiStreamReversible& stream) {
	if (data.empty())
		return;

	stream.Sync(&data[0], blockSize);
}
