/*
nifly
C++ NIF library for the Gamebryo/NetImmerse File Format
See the included GPLv3 LICENSE file
*/

#include "Objects.hpp"
#include "Geometry.hpp"

using namespace nifly;

void NiObjectNET::Sync(NiStreamReversible& stream) {
	if (bBSLightingShaderProperty && stream.GetVersion().User() >= 12 && stream.GetVersion().Stream() <= 139)
		stream.Sync(bslspShaderType);

	name.Sync(stream);

	extraDataRefs.Sync(stream);
	controllerRef.Sync(stream);
}

void NiObjectNET::GetStringRefs(std::vector<NiStringRef*>& refs) {
	NiObject::GetStringRefs(refs);

	refs.emplace_back(&name);
}

void NiObjectNET::GetChildRefs(std::set<NiRef*>& refs) {
	NiObject::GetChildRefs(refs);

	extraDataRefs.GetIndexPtrs(refs);
	refs.insert(&controllerRef);
}

void NiObjectNET::GetChildIndices(std::vector<uint32_t>& indices) {
	NiObject::GetChildIndices(indices);

	extraDataRefs.GetIndices(indices);
	indices.push_back(controllerRef.index);
}


void NiAVObject::Sync(NiStreamReversible& stream) {
	if (HasType<BSTriShape>()) {
		// The order of definition for BSTriShape deviates slightly from previous versions.
		// NiObjectNET -> NiAVObject (duplicated in BSTriShape) -> BSTriShape
		return;
	}

	if (stream.GetVersion().Stream() <= 26) {
		auto flagsShort = static_cast<uint16_t>(flags);
		stream.Sync(flagsShort);
		if (stream.GetMode() == NiStreamReversible::Mode::Reading)
			flags = flagsShort;
	}
	else
		stream.Sync(flags);

	stream.Sync(transform.translation);
	stream.Sync(transform.rotation);
	stream.Sync(transform.scale);

	if (stream.GetVersion().Stream() <= 34)
		propertyRefs.Sync(stream);

	if (stream.GetVersion().File() >= V10_0_1_0)
		collisionRef.Sync(stream);
}

void NiAVObject::GetChildRefs(std::set<NiRef*>& refs) {
	NiObjectNET::GetChildRefs(refs);

	propertyRefs.GetIndexPtrs(refs);
	refs.insert(&collisionRef);
}

void NiAVObject::GetChildIndices(std::vector<uint32_t>& indices) {
	NiObjectNET::GetChildIndices(indices);

	propertyRefs.GetIndices(indices);
	indices.push_back(collisionRef.index);
}


void NiDefaultAVObjectPalette::Sync(NiStreamReversible& stream) {
	sceneRef.Sync(stream);
	objects.Sync(stream);
}

void NiDefaultAVObjectPalette::GetPtrs(std::set<NiPtr*>& ptrs) {
	NiAVObjectPalette::GetPtrs(ptrs);

	ptrs.insert(&sceneRef);
	objects.GetPtrs(ptrs);
}


void NiCamera::Sync(NiStreamReversible& stream) {
	stream.Sync(obsoleteFlags);
	stream.Sync(frustumLeft);
	stream.Sync(frustumRight);
	stream.Sync(frustumTop);
	stream.Sync(frustomBottom);
	stream.Sync(frustumNear);
	stream.Sync(frustumFar);
	stream.Sync(useOrtho);
	stream.Sync(viewportLeft);
	stream.Sync(viewportRight);
	stream.Sync(viewportTop);
	stream.Sync(viewportBottom);
	stream.Sync(lodAdjust);

	sceneRef.Sync(stream);
	stream.Sync(numScreenPolygons);
	stream.Sync(numScreenTextures);
}

void NiCamera::GetChildRefs(std::set<NiRef*>& refs) {
	NiAVObject::GetChildRefs(refs);

	refs.insert(&sceneRef);
}

void NiCamera::GetChildIndices(std::vector<uint32_t>& indices) {
	NiAVObject::GetChildIndices(indices);

	indices.push_back(sceneRef.index);
}


void NiPalette::Sync(NiStreamReversible& stream) {
	stream.Sync(hasAlpha);

	if (stream.GetMode() == NiStreamReversible::Mode::Writing) {
		// Size can only be 16 or 256
		auto numEntries = palette.size();
		if (numEntries != 16 && numEntries != 256) {
			if (numEntries >= 128)
				palette.resize(256);
			else
				palette.resize(16);
		}
	}

	palette.Sync(stream);
}


void TextureRenderData::Sync(NiStreamReversible& stream) {
	stream.Sync(pixelFormat);
	stream.Sync(bitsPerPixel);
	stream.Sync(rendererHint);
	stream.Sync(extraData);
	stream.Sync(flags);
	stream.Sync(pixelTiling);

	for (auto& channel : channels) {
		stream.Sync(channel.type);
		stream.Sync(channel.convention);
		stream.Sync(channel.bitsPerChannel);
		stream.Sync(channel.isSigned);
	}

	paletteRef.Sync(stream);

	uint32_t sz = mipmaps.SyncSize(stream);
	stream.Sync(bytesPerPixel);

	mipmaps.SyncData(stream, sz);
}

void TextureRenderData::GetChildRefs(std::set<NiRef*>& refs) {
	NiObject::GetChildRefs(refs);

	refs.insert(&paletteRef);
}

void TextureRenderData::GetChildIndices(std::vector<uint32_t>& indices) {
	NiObject::GetChildIndices(indices);

	indices.push_back(paletteRef.index);
}


void NiPersistentSrcTextureRendererData::Sync(NiStreamReversible& stream) {
	stream.Sync(numPixels);
	stream.Sync(padNumPixels);
	stream.Sync(numFaces);
	stream.Sync(platform);

	pixelData.resize(numFaces);
	for (uint32_t f = 0; f < numFaces; f++) {
		pixelData[f].resize(numPixels);
		for (uint32_t p = 0; p < numPixels; p++)
			stream.Sync(pixelData[f][p]);
	}
}


void NiPixelData::Sync(NiStreamReversible& stream) {
	stream.Sync(numPixels);
	stream.Sync(numFaces);

	pixelData.resize(numFaces);
	for (uint32_t f = 0; f < numFaces; f++) {
		pixelData[f].resize(numPixels);
		for (uint32_t p = 0; p < numPixels; p++)
			stream.Sync(pixelData[f][p]);
	}
}


void NiSourceTexture::Sync(NiStreamReversible& stream) {
	const NiFileVersion fileVersion = stream.GetVersion().File();

	stream.Sync(useExternal);

	if (fileVersion <= NiFileVersion::V10_0_1_3)
		if (!useExternal)
			stream.Sync(useInternal);

	if (useExternal || fileVersion >= NiFileVersion::V10_1_0_0)
		fileName.Sync(stream);

	if (useExternal) {
		if (fileVersion >= NiFileVersion::V10_1_0_0)
			dataRef.Sync(stream);
	}
	else if (useInternal) {
		if (fileVersion <= NiFileVersion::V10_0_1_3)
			dataRef.Sync(stream);
	}
	else {
		if (fileVersion > NiFileVersion::V10_0_1_3)
			dataRef.Sync(stream);
	}

	stream.Sync(pixelLayout);
	stream.Sync(mipMapFormat);
	stream.Sync(alphaFormat);

	stream.Sync(isStatic);

	if (fileVersion >= NiVersion::ToFile(10, 1, 0, 103))
		stream.Sync(directRender);
	if (fileVersion >= NiVersion::ToFile(20, 2, 0, 4))
		stream.Sync(persistentRenderData);
}

void NiSourceTexture::GetStringRefs(std::vector<NiStringRef*>& refs) {
	NiTexture::GetStringRefs(refs);

	refs.emplace_back(&fileName);
}

void NiSourceTexture::GetChildRefs(std::set<NiRef*>& refs) {
	NiTexture::GetChildRefs(refs);

	refs.insert(&dataRef);
}

void NiSourceTexture::GetChildIndices(std::vector<uint32_t>& indices) {
	NiTexture::GetChildIndices(indices);

	indices.push_back(dataRef.index);
}


void NiDynamicEffect::Sync(NiStreamReversible& stream) {
	if (stream.GetVersion().Stream() < 130) {
		if (stream.GetVersion().File() > NiFileVersion::V10_1_0_101)
			stream.Sync(switchState);

		if (stream.GetVersion().File() <= NiFileVersion::V4_0_0_2 || stream.GetVersion().File() >= NiFileVersion::V10_1_0_0)
			affectedNodes.Sync(stream);
	}
}

void NiDynamicEffect::GetPtrs(std::set<NiPtr*>& ptrs) {
	NiAVObject::GetPtrs(ptrs);

	affectedNodes.GetIndexPtrs(ptrs);
}


void NiTextureEffect::Sync(NiStreamReversible& stream) {
	stream.Sync(modelProjectionMatrix);
	stream.Sync(modelProjectionTranslation);
	stream.Sync(textureFiltering);
	stream.Sync(textureClamping);
	stream.Sync(textureType);
	stream.Sync(coordinateGenerationType);
	sourceTexture.Sync(stream);
	stream.Sync(clippingPlane);
	stream.Sync(plane);
}

void NiTextureEffect::GetChildRefs(std::set<NiRef*>& refs) {
	NiDynamicEffect::GetChildRefs(refs);

	refs.insert(&sourceTexture);
}

void NiTextureEffect::GetChildIndices(std::vector<uint32_t>& indices) {
	NiDynamicEffect::GetChildIndices(indices);

	indices.push_back(sourceTexture.index);
}


void NiLight::Sync(NiStreamReversible& stream) {
	stream.Sync(dimmer);
	stream.Sync(ambientColor);
	stream.Sync(diffuseColor);
	stream.Sync(specularColor);
}


void NiPointLight::Sync(NiStreamReversible& stream) {
	stream.Sync(constantAttenuation);
	stream.Sync(linearAttenuation);
	stream.Sync(quadraticAttenuation);
}


void NiSpotLight::Sync(NiStreamReversible& stream) {
	stream.Sync(outerSpotAngle);
	stream.Sync(innerSpotAngle);
	stream.Sync(exponent);
}
