/*
nifly
C++ NIF library for the Gamebryo/NetImmerse File Format
See the included GPLv3 LICENSE file
*/

#include "Shaders.hpp"

using namespace nifly;

void NiShadeProperty::Sync(NiStreamReversible& stream) {
	stream.Sync(flags);
}


void NiSpecularProperty::Sync(NiStreamReversible& stream) {
	stream.Sync(flags);
}


void NiTexturingProperty::Sync(NiStreamReversible& stream) {
	const NiFileVersion fileVersion = stream.GetVersion().File();

	if (fileVersion <= NiFileVersion::V10_0_1_2)
		stream.Sync(flags);

	if (fileVersion >= NiVersion::ToFile(20, 1, 0, 2))
		stream.Sync(flags); // TexturingFlags

	if (fileVersion >= NiFileVersion::V3_3_0_13 && fileVersion <= NiFileVersion::V20_1_0_1)
		stream.Sync(applyMode);

	stream.Sync(textureCount);

	stream.Sync(hasBaseTex);
	if (hasBaseTex)
		baseTex.Sync(stream);

	stream.Sync(hasDarkTex);
	if (hasDarkTex)
		darkTex.Sync(stream);

	stream.Sync(hasDetailTex);
	if (hasDetailTex)
		detailTex.Sync(stream);

	stream.Sync(hasGlossTex);
	if (hasGlossTex)
		glossTex.Sync(stream);

	stream.Sync(hasGlowTex);
	if (hasGlowTex)
		glowTex.Sync(stream);

	if (textureCount > 5 && fileVersion >= NiFileVersion::V3_3_0_13) {
		stream.Sync(hasBumpTex);
		if (hasBumpTex) {
			bumpTex.Sync(stream);
			stream.Sync(lumaScale);
			stream.Sync(lumaOffset);
			stream.Sync(bumpMatrix);
		}
	}

	if (fileVersion >= NiFileVersion::V20_2_0_5) {
		if (textureCount > 6) {
			stream.Sync(hasNormalTex);
			if (hasNormalTex)
				normalTex.Sync(stream);
		}

		if (textureCount > 7) {
			stream.Sync(hasParallaxTex);
			if (hasParallaxTex) {
				parallaxTex.Sync(stream);
				stream.Sync(parallaxOffset);
			}
		}

		if (textureCount > 8) {
			stream.Sync(hasDecalTex0);
			if (hasDecalTex0)
				decalTex0.Sync(stream);
		}

		if (textureCount > 9) {
			stream.Sync(hasDecalTex1);
			if (hasDecalTex1)
				decalTex1.Sync(stream);
		}

		if (textureCount > 10) {
			stream.Sync(hasDecalTex2);
			if (hasDecalTex2)
				decalTex2.Sync(stream);
		}

		if (textureCount > 11) {
			stream.Sync(hasDecalTex3);
			if (hasDecalTex3)
				decalTex3.Sync(stream);
		}
	}
	else {
		if (textureCount > 6) {
			stream.Sync(hasDecalTex0);
			if (hasDecalTex0)
				decalTex0.Sync(stream);
		}

		if (textureCount > 7) {
			stream.Sync(hasDecalTex1);
			if (hasDecalTex1)
				decalTex1.Sync(stream);
		}

		if (textureCount > 8) {
			stream.Sync(hasDecalTex2);
			if (hasDecalTex2)
				decalTex2.Sync(stream);
		}

		if (textureCount > 9) {
			stream.Sync(hasDecalTex3);
			if (hasDecalTex3)
				decalTex3.Sync(stream);
		}
	}

	if (fileVersion >= NiFileVersion::V10_0_1_0)
		shaderTex.Sync(stream);
}

void NiTexturingProperty::GetChildRefs(std::set<NiRef*>& refs) {
	NiProperty::GetChildRefs(refs);

	baseTex.GetChildRefs(refs);
	darkTex.GetChildRefs(refs);
	detailTex.GetChildRefs(refs);
	glossTex.GetChildRefs(refs);
	glowTex.GetChildRefs(refs);
	bumpTex.GetChildRefs(refs);
	normalTex.GetChildRefs(refs);
	parallaxTex.GetChildRefs(refs);
	decalTex0.GetChildRefs(refs);
	decalTex1.GetChildRefs(refs);
	decalTex2.GetChildRefs(refs);
	decalTex3.GetChildRefs(refs);
	shaderTex.GetChildRefs(refs);
}

void NiTexturingProperty::GetChildIndices(std::vector<uint32_t>& indices) {
	NiProperty::GetChildIndices(indices);

	baseTex.GetChildIndices(indices);
	darkTex.GetChildIndices(indices);
	detailTex.GetChildIndices(indices);
	glossTex.GetChildIndices(indices);
	glowTex.GetChildIndices(indices);
	bumpTex.GetChildIndices(indices);
	normalTex.GetChildIndices(indices);
	parallaxTex.GetChildIndices(indices);
	decalTex0.GetChildIndices(indices);
	decalTex1.GetChildIndices(indices);
	decalTex2.GetChildIndices(indices);
	decalTex3.GetChildIndices(indices);
	shaderTex.GetChildIndices(indices);
}


void NiVertexColorProperty::Sync(NiStreamReversible& stream) {
	stream.Sync(flags);

	if (stream.GetVersion().File() <= NiFileVersion::V20_0_0_5) {
		stream.Sync(vertexMode);
		stream.Sync(lightingMode);
	}
}


void NiDitherProperty::Sync(NiStreamReversible& stream) {
	stream.Sync(flags);
}


void NiFogProperty::Sync(NiStreamReversible& stream) {
	stream.Sync(flags);
	stream.Sync(fogDepth);
	stream.Sync(fogColor);
}


void NiWireframeProperty::Sync(NiStreamReversible& stream) {
	stream.Sync(flags);
}


void NiZBufferProperty::Sync(NiStreamReversible& stream) {
	stream.Sync(flags);

	if (stream.GetVersion().File() >= V4_1_0_12 && stream.GetVersion().File() <= V20_0_0_5)
		stream.Sync(testFunction);
}


void BSShaderProperty::Sync(NiStreamReversible& stream) {
	if (stream.GetVersion().User() == 12 && stream.GetVersion().Stream() > 139) {
		std::string nameStr = stream.GetHeader().GetStringById(name.GetIndex());
		if (!nameStr.empty())
			return;
	}

	if (stream.GetVersion().User() <= 11) {
		stream.Sync(shaderFlags);
		stream.Sync(shaderType);
		stream.Sync(shaderFlags1);
		stream.Sync(shaderFlags2);
		stream.Sync(environmentMapScale);
	}
	else {
		if (stream.GetVersion().Stream() < 132) {
			stream.Sync(shaderFlags1);
			stream.Sync(shaderFlags2);
			stream.Sync(uvOffset);
			stream.Sync(uvScale);
		}
	}
}

uint32_t BSShaderProperty::GetShaderType() const {
	return shaderType;
}

void BSShaderProperty::SetShaderType(uint32_t type) {
	shaderType = static_cast<BSShaderType>(type);
}

bool BSShaderProperty::IsSkinTinted() const {
	return shaderType == SHADER_SKIN;
}

bool BSShaderProperty::IsFaceTinted() const {
	return shaderType == SHADER_SKIN;
}

bool BSShaderProperty::IsSkinned() const {
	return (shaderFlags1 & (1 << 1)) != 0;
}

void BSShaderProperty::SetSkinned(const bool enable) {
	if (enable)
		shaderFlags1 |= 1 << 1;
	else
		shaderFlags1 &= ~(1 << 1);
}

bool BSShaderProperty::IsDoubleSided() const {
	return (shaderFlags2 & (1 << 4)) != 0;
}

void BSShaderProperty::SetDoubleSided(const bool enable) {
	if (enable)
		shaderFlags2 |= 1 << 4;
	else
		shaderFlags2 &= ~(1 << 4);
}

bool BSShaderProperty::IsModelSpace() const {
	return (shaderFlags1 & (1 << 12)) != 0;
}

bool BSShaderProperty::IsEmissive() const {
	return (shaderFlags1 & (1 << 22)) != 0;
}

bool BSShaderProperty::HasSpecular() const {
	return (shaderFlags1 & (1 << 0)) != 0;
}

bool BSShaderProperty::HasVertexColors() const {
	return (shaderFlags2 & (1 << 5)) != 0;
}

void BSShaderProperty::SetVertexColors(const bool enable) {
	if (enable)
		shaderFlags2 |= 1 << 5;
	else
		shaderFlags2 &= ~(1 << 5);
}

bool BSShaderProperty::HasVertexAlpha() const {
	return (shaderFlags1 & (1 << 3)) != 0;
}

void BSShaderProperty::SetVertexAlpha(const bool enable) {
	if (enable)
		shaderFlags1 |= 1 << 3;
	else
		shaderFlags1 &= ~(1 << 3);
}

bool BSShaderProperty::HasBacklight() const {
	// Skyrim
	return (shaderFlags2 & (1 << 27)) != 0;
}

bool BSShaderProperty::HasRimlight() const {
	// Skyrim
	return (shaderFlags2 & (1 << 26)) != 0;
}

bool BSShaderProperty::HasSoftlight() const {
	// Skyrim
	return (shaderFlags2 & (1 << 25)) != 0;
}

bool BSShaderProperty::HasGlowmap() const {
	return (shaderFlags2 & (1 << 6)) != 0;
}

bool BSShaderProperty::HasGreyscaleColor() const {
	return (shaderFlags1 & (1 << 3)) != 0;
}

bool BSShaderProperty::HasEnvironmentMapping() const {
	return (shaderFlags1 & (1 << 7)) != 0;
}

void BSShaderProperty::SetEnvironmentMapping(const bool enable) {
	if (enable)
		shaderFlags1 |= 1 << 7;
	else
		shaderFlags1 &= ~(1 << 7);
}

float BSShaderProperty::GetEnvironmentMapScale() const {
	return environmentMapScale;
}

Vector2 BSShaderProperty::GetUVOffset() const {
	return uvOffset;
}

Vector2 BSShaderProperty::GetUVScale() const {
	return uvScale;
}


void TallGrassShaderProperty::Sync(NiStreamReversible& stream) {
	fileName.Sync(stream, 4);
}


void SkyShaderProperty::Sync(NiStreamReversible& stream) {
	fileName.Sync(stream, 4);
	stream.Sync(skyObjectType);
}


void TileShaderProperty::Sync(NiStreamReversible& stream) {
	fileName.Sync(stream, 4);
}


BSShaderTextureSet::BSShaderTextureSet(NiVersion& version) {
	if (version.User() == 12 && version.Stream() == 155)
		textures.resize(13);
	else if (version.User() == 12 && version.Stream() == 130)
		textures.resize(10);
	else if (version.User() == 12)
		textures.resize(9);
	else
		textures.resize(6);
}

void BSShaderTextureSet::Sync(NiStreamReversible& stream) {
	textures.Sync(stream);
}

BSLightingShaderProperty::BSLightingShaderProperty() {
	NiObjectNET::bBSLightingShaderProperty = true;

	shaderFlags1 = 0x80400203;
	shaderFlags2 = 0x00000081;
}

BSLightingShaderProperty::BSLightingShaderProperty(NiVersion& version)
	: BSLightingShaderProperty() {
	if (version.User() == 12 && version.Stream() >= 120) {
		shaderFlags1 = 0x80400203;
		shaderFlags2 = 0x00000081;
	}
	else {
		shaderFlags1 = 0x82400303;
		shaderFlags2 = 0x00008001;
	}

	if (version.User() == 12 && version.Stream() >= 120)
		glossiness = 1.0f;
	else
		glossiness = 20.0f;
}

void BSLightingShaderProperty::Sync(NiStreamReversible& stream) {
	if (stream.GetVersion().User() == 12 && stream.GetVersion().Stream() > 139) {
		std::string nameStr = stream.GetHeader().GetStringById(name.GetIndex());
		if (!nameStr.empty())
			return;
	}

	if (stream.GetVersion().Stream() > 139) {
		// Adjust shader type to old value internally due to removed Height/Parallax enum value (3)
		if (stream.GetMode() == NiStreamReversible::Mode::Reading) {
			stream.Sync(bslspShaderType);

			if (bslspShaderType > 3)
				bslspShaderType += 1;
		}
		else {
			// Write the file value without touching the internal one (inverse of the adjustment above)
			auto fileShaderType = bslspShaderType;
			if (fileShaderType > 3)
				fileShaderType -= 1;

			stream.Sync(fileShaderType);
		}
	}

	if (stream.GetVersion().Stream() >= 132) {
		stream.Sync(numSF1);
		SF1.resize(numSF1);
	}

	if (stream.GetVersion().Stream() >= 152) {
		stream.Sync(numSF2);
		SF2.resize(numSF2);
	}

	if (stream.GetVersion().Stream() >= 132) {
		for (uint32_t i = 0; i < numSF1; i++)
			stream.Sync(SF1[i]);
	}

	if (stream.GetVersion().Stream() >= 152) {
		for (uint32_t i = 0; i < numSF2; i++)
			stream.Sync(SF2[i]);
	}

	if (stream.GetVersion().Stream() >= 132) {
		stream.Sync(uvOffset);
		stream.Sync(uvScale);
	}

	textureSetRef.Sync(stream);

	stream.Sync(emissiveColor);
	stream.Sync(emissiveMultiple);

	if (stream.GetVersion().User() == 12 && stream.GetVersion().Stream() >= 130)
		rootMaterialName.Sync(stream);

	if (stream.GetVersion().User() == 12 && stream.GetVersion().Stream() >= 172)
		stream.Sync(unkFloat);

	stream.Sync(textureClampMode);
	stream.Sync(alpha);
	stream.Sync(refractionStrength);
	stream.Sync(glossiness);
	stream.Sync(specularColor);
	stream.Sync(specularStrength);

	if (stream.GetVersion().User() <= 12 && stream.GetVersion().Stream() < 130) {
		stream.Sync(softlighting);
		stream.Sync(rimlightPower);
	}

	if (stream.GetVersion().IsFO4()) {
		stream.Sync(subsurfaceRolloff);
		stream.Sync(rimlightPower2);

		if (rimlightPower2 >= NiFloatMax && rimlightPower2 < NiFloatInf)
			stream.Sync(backlightPower);
	}

	if (stream.GetVersion().User() == 12 && stream.GetVersion().Stream() >= 130) {
		stream.Sync(grayscaleToPaletteScale);
		stream.Sync(fresnelPower);
		stream.Sync(wetnessSpecScale);
		stream.Sync(wetnessSpecPower);
		stream.Sync(wetnessMinVar);

		if (stream.GetVersion().Stream() == 130)
			stream.Sync(wetnessEnvmapScale);

		stream.Sync(wetnessFresnelPower);
		stream.Sync(wetnessMetalness);

		if (stream.GetVersion().Stream() > 130)
			stream.Sync(wetnessUnknown1);
		if (stream.GetVersion().Stream() >= 155)
			stream.Sync(wetnessUnknown2);
	}

	if (stream.GetVersion().User() == 12 && stream.GetVersion().Stream() > 139) {
		stream.Sync(lumEmittance);
		stream.Sync(exposureOffset);
		stream.Sync(finalExposureMin);
		stream.Sync(finalExposureMax);

		if (stream.GetVersion().Stream() < 172) {
			stream.Sync(doTranslucency);
			if (doTranslucency) {
				stream.Sync(subsurfaceColor);
				stream.Sync(transmissiveScale);
				stream.Sync(turbulence);
				stream.Sync(thickObject);
				stream.Sync(mixAlbedo);
			}

			stream.Sync(hasTextureArrays);

			if (hasTextureArrays) {
				stream.Sync(numTextureArrays);

				textureArrays.resize(numTextureArrays);

				for (uint32_t i = 0; i < numTextureArrays; i++)
					textureArrays[i].Sync(stream);
			}
		}
		else {
			stream.Sync(unkFloat1);
			stream.Sync(unkFloat2);
			stream.Sync(unkShort1);
		}
	}

	switch (bslspShaderType) {
		case 1:
			stream.Sync(environmentMapScale);

			if (stream.GetVersion().IsFO4()) {
				stream.Sync(useSSR);
				stream.Sync(wetnessUseSSR);
			}
			break;
		case 5:
			stream.Sync(skinTintColor);

			if (stream.GetVersion().User() == 12 && stream.GetVersion().Stream() >= 130)
				stream.Sync(skinTintAlpha);
			break;
		case 6:
			stream.Sync(hairTintColor);
			break;
		case 7:
			stream.Sync(maxPasses);
			stream.Sync(scale);
			break;
		case 11:
			stream.Sync(parallaxInnerLayerThickness);
			stream.Sync(parallaxRefractionScale);
			stream.Sync(parallaxInnerLayerTextureScale);
			stream.Sync(parallaxEnvmapStrength);
			break;
		case 14: stream.Sync(sparkleParameters); break;
		case 16:
			stream.Sync(eyeCubemapScale);
			stream.Sync(eyeLeftReflectionCenter);
			stream.Sync(eyeRightReflectionCenter);
			break;
	}
}

void BSLightingShaderProperty::GetStringRefs(std::vector<NiStringRef*>& refs) {
	BSShaderProperty::GetStringRefs(refs);

	refs.emplace_back(&rootMaterialName);
}

void BSLightingShaderProperty::GetChildRefs(std::set<NiRef*>& refs) {
	BSShaderProperty::GetChildRefs(refs);

	refs.insert(&textureSetRef);
}

void BSLightingShaderProperty::GetChildIndices(std::vector<uint32_t>& indices) {
	BSShaderProperty::GetChildIndices(indices);

	indices.push_back(textureSetRef.index);
}

bool BSLightingShaderProperty::IsSkinTinted() const {
	return bslspShaderType == BSLSP_SKINTINT;
}

bool BSLightingShaderProperty::IsFaceTinted() const {
	return bslspShaderType == BSLSP_FACE;
}

bool BSLightingShaderProperty::HasGlowmap() const {
	return bslspShaderType == BSLSP_GLOWMAP && BSShaderProperty::HasGlowmap();
}

bool BSLightingShaderProperty::HasEnvironmentMapping() const {
	return bslspShaderType == BSLSP_ENVMAP && BSShaderProperty::HasEnvironmentMapping();
}

uint32_t BSLightingShaderProperty::GetShaderType() const {
	return bslspShaderType;
}

void BSLightingShaderProperty::SetShaderType(const uint32_t type) {
	bslspShaderType = type;
}

Vector3 BSLightingShaderProperty::GetSpecularColor() const {
	return specularColor;
}

void BSLightingShaderProperty::SetSpecularColor(const Vector3& color) {
	specularColor = color;
}

float BSLightingShaderProperty::GetSpecularStrength() const {
	return specularStrength;
}

void BSLightingShaderProperty::SetSpecularStrength(const float strength) {
	specularStrength = strength;
}

float BSLightingShaderProperty::GetGlossiness() const {
	return glossiness;
}

void BSLightingShaderProperty::SetGlossiness(const float gloss) {
	glossiness = gloss;
}

Color4 BSLightingShaderProperty::GetEmissiveColor() const {
	Color4 color;
	color.r = emissiveColor.x;
	color.g = emissiveColor.y;
	color.b = emissiveColor.z;
	return color;
}

void BSLightingShaderProperty::SetEmissiveColor(const Color4& color) {
	emissiveColor.x = color.r;
	emissiveColor.y = color.g;
	emissiveColor.z = color.b;
}

float BSLightingShaderProperty::GetEmissiveMultiple() const {
	return emissiveMultiple;
}

void BSLightingShaderProperty::SetEmissiveMultiple(const float emissive) {
	emissiveMultiple = emissive;
}

float BSLightingShaderProperty::GetAlpha() const {
	return alpha;
}

void BSLightingShaderProperty::SetAlpha(const float alphaValue) {
	alpha = alphaValue;
}

float BSLightingShaderProperty::GetBacklightPower() const {
	return backlightPower;
}

float BSLightingShaderProperty::GetRimlightPower() const {
	return rimlightPower;
}

float BSLightingShaderProperty::GetSoftlight() const {
	return softlighting;
}

float BSLightingShaderProperty::GetSubsurfaceRolloff() const {
	return subsurfaceRolloff;
}

float BSLightingShaderProperty::GetGrayscaleToPaletteScale() const {
	return grayscaleToPaletteScale;
}

float BSLightingShaderProperty::GetFresnelPower() const {
	return fresnelPower;
}

std::string BSLightingShaderProperty::GetWetMaterialName() const {
	return rootMaterialName.get();
}

void BSLightingShaderProperty::SetWetMaterialName(const std::string& matName) {
	rootMaterialName.get() = matName;
}


void BSEffectShaderProperty::Sync(NiStreamReversible& stream) {
	if (stream.GetVersion().User() == 12 && stream.GetVersion().Stream() > 130) {
		std::string nameStr = stream.GetHeader().GetStringById(name.GetIndex());
		if (!nameStr.empty())
			return;
	}

	if (stream.GetVersion().Stream() >= 132) {
		stream.Sync(numSF1);
		SF1.resize(numSF1);
	}

	if (stream.GetVersion().Stream() >= 152) {
		stream.Sync(numSF2);
		SF2.resize(numSF2);
	}

	if (stream.GetVersion().Stream() >= 132) {
		for (uint32_t i = 0; i < numSF1; i++)
			stream.Sync(SF1[i]);
	}

	if (stream.GetVersion().Stream() >= 152) {
		for (uint32_t i = 0; i < numSF2; i++)
			stream.Sync(SF2[i]);
	}

	if (stream.GetVersion().Stream() >= 132) {
		stream.Sync(uvOffset);
		stream.Sync(uvScale);
	}

	sourceTexture.Sync(stream, 4);

	if (stream.GetVersion().Stream() >= 172)
		stream.Sync(unkFloat);

	stream.Sync(textureClampMode);

	stream.Sync(falloffStartAngle);
	stream.Sync(falloffStopAngle);
	stream.Sync(falloffStartOpacity);
	stream.Sync(falloffStopOpacity);

	if (stream.GetVersion().User() == 12 && stream.GetVersion().Stream() > 139 && stream.GetVersion().Stream() < 172)
		stream.Sync(refractionPower);

	stream.Sync(baseColor);
	stream.Sync(baseColorScale);
	stream.Sync(softFalloffDepth);
	greyscaleTexture.Sync(stream, 4);

	if (stream.GetVersion().User() == 12 && stream.GetVersion().Stream() >= 130) {
		envMapTexture.Sync(stream, 4);
		normalTexture.Sync(stream, 4);
		envMaskTexture.Sync(stream, 4);
		stream.Sync(envMapScale);
	}

	if (stream.GetVersion().User() == 12 && stream.GetVersion().Stream() > 139) {
		reflectanceTexture.Sync(stream, 4);
		lightingTexture.Sync(stream, 4);
		stream.Sync(emittanceColor);
		emitGradientTexture.Sync(stream, 4);

		stream.Sync(lumEmittance);
		stream.Sync(exposureOffset);
		stream.Sync(finalExposureMin);
		stream.Sync(finalExposureMax);
	}

	if (stream.GetVersion().User() == 12 && stream.GetVersion().Stream() >= 172) {
		for (uint8_t& b : unkBytes)
			stream.Sync(b);

		for (float& f : unkFloats)
			stream.Sync(f);

		stream.Sync(unkByte1);
	}
}

float BSEffectShaderProperty::GetEnvironmentMapScale() const {
	return envMapScale;
}

Color4 BSEffectShaderProperty::GetEmissiveColor() const {
	return baseColor;
}

void BSEffectShaderProperty::SetEmissiveColor(const Color4& color) {
	baseColor = color;
}

float BSEffectShaderProperty::GetEmissiveMultiple() const {
	return baseColorScale;
}

void BSEffectShaderProperty::SetEmissiveMultiple(const float emissive) {
	baseColorScale = emissive;
}


void BSWaterShaderProperty::Sync(NiStreamReversible& stream) {
	if (stream.GetVersion().User() == 12 && stream.GetVersion().Stream() > 139) {
		std::string nameStr = stream.GetHeader().GetStringById(name.GetIndex());
		if (!nameStr.empty())
			return;
	}

	if (stream.GetVersion().Stream() >= 132) {
		stream.Sync(numSF1);
		SF1.resize(numSF1);
	}

	if (stream.GetVersion().Stream() >= 152) {
		stream.Sync(numSF2);
		SF2.resize(numSF2);
	}

	if (stream.GetVersion().Stream() >= 132) {
		for (uint32_t i = 0; i < numSF1; i++)
			stream.Sync(SF1[i]);
	}

	if (stream.GetVersion().Stream() >= 152) {
		for (uint32_t i = 0; i < numSF2; i++)
			stream.Sync(SF2[i]);
	}

	if (stream.GetVersion().Stream() >= 132) {
		stream.Sync(uvOffset);
		stream.Sync(uvScale);
	}

	stream.Sync(waterFlags);
}


void BSSkyShaderProperty::Sync(NiStreamReversible& stream) {
	if (stream.GetVersion().User() == 12 && stream.GetVersion().Stream() > 139) {
		std::string nameStr = stream.GetHeader().GetStringById(name.GetIndex());
		if (!nameStr.empty())
			return;
	}

	if (stream.GetVersion().Stream() >= 132) {
		stream.Sync(numSF1);
		SF1.resize(numSF1);
	}

	if (stream.GetVersion().Stream() >= 152) {
		stream.Sync(numSF2);
		SF2.resize(numSF2);
	}

	if (stream.GetVersion().Stream() >= 132) {
		for (uint32_t i = 0; i < numSF1; i++)
			stream.Sync(SF1[i]);
	}

	if (stream.GetVersion().Stream() >= 152) {
		for (uint32_t i = 0; i < numSF2; i++)
			stream.Sync(SF2[i]);
	}

	if (stream.GetVersion().Stream() >= 132) {
		stream.Sync(uvOffset);
		stream.Sync(uvScale);
	}

	baseTexture.Sync(stream, 4);
	stream.Sync(skyFlags);
}


void BSShaderLightingProperty::Sync(NiStreamReversible& stream) {
	if (stream.GetVersion().User() <= 11)
		stream.Sync(textureClampMode);
}


void BSShaderPPLightingProperty::Sync(NiStreamReversible& stream) {
	textureSetRef.Sync(stream);

	if (stream.GetVersion().User() == 11 && stream.GetVersion().Stream() > 14) {
		stream.Sync(refractionStrength);
		stream.Sync(refractionFirePeriod);
	}

	if (stream.GetVersion().User() == 11 && stream.GetVersion().Stream() > 24) {
		stream.Sync(parallaxMaxPasses);
		stream.Sync(parallaxScale);
	}

	if (stream.GetVersion().User() >= 12)
		stream.Sync(emissiveColor);
}

void BSShaderPPLightingProperty::GetChildRefs(std::set<NiRef*>& refs) {
	BSShaderLightingProperty::GetChildRefs(refs);

	refs.insert(&textureSetRef);
}

void BSShaderPPLightingProperty::GetChildIndices(std::vector<uint32_t>& indices) {
	BSShaderLightingProperty::GetChildIndices(indices);

	indices.push_back(textureSetRef.index);
}

bool BSShaderPPLightingProperty::IsSkinned() const {
	return (shaderFlags1 & (1 << 1)) != 0;
}

void BSShaderPPLightingProperty::SetSkinned(const bool enable) {
	if (enable)
		shaderFlags1 |= 1 << 1;
	else
		shaderFlags1 &= ~(1 << 1);
}


void BSShaderNoLightingProperty::Sync(NiStreamReversible& stream) {
	baseTexture.Sync(stream, 4);

	if (stream.GetVersion().Stream() > 26) {
		stream.Sync(falloffStartAngle);
		stream.Sync(falloffStopAngle);
		stream.Sync(falloffStartOpacity);
		stream.Sync(falloffStopOpacity);
	}
}

bool BSShaderNoLightingProperty::IsSkinned() const {
	return (shaderFlags1 & (1 << 1)) != 0;
}

void BSShaderNoLightingProperty::SetSkinned(const bool enable) {
	if (enable)
		shaderFlags1 |= 1 << 1;
	else
		shaderFlags1 &= ~(1 << 1);
}


void NiAlphaProperty::Sync(NiStreamReversible& stream) {
	stream.Sync(flags);
	stream.Sync(threshold);
}


void NiMaterialProperty::Sync(NiStreamReversible& stream) {
	const NiFileVersion fileVersion = stream.GetVersion().File();

	if (fileVersion >= NiFileVersion::V3_0 && fileVersion <= NiFileVersion::V10_0_1_2)
		stream.Sync(legacyFlags);

	if (stream.GetVersion().Stream() < 26) {
		stream.Sync(colorAmbient);
		stream.Sync(colorDiffuse);
	}

	stream.Sync(colorSpecular);
	stream.Sync(colorEmissive);
	stream.Sync(glossiness);
	stream.Sync(alpha);

	if (stream.GetVersion().Stream() > 21)
		stream.Sync(emitMulti);
}

bool NiMaterialProperty::IsEmissive() const {
	return !colorEmissive.IsZero();
}

bool NiMaterialProperty::HasSpecular() const {
	return !colorSpecular.IsZero();
}

void NiMaterialProperty::SetSpecularColor(const Vector3& color) {
	colorSpecular = color;
}

Vector3 NiMaterialProperty::GetSpecularColor() const {
	return colorSpecular;
}

float NiMaterialProperty::GetGlossiness() const {
	return glossiness;
}

void NiMaterialProperty::SetGlossiness(const float gloss) {
	glossiness = gloss;
}

Color4 NiMaterialProperty::GetEmissiveColor() const {
	Color4 color;
	color.r = colorEmissive.x;
	color.g = colorEmissive.y;
	color.b = colorEmissive.z;
	return color;
}

void NiMaterialProperty::SetEmissiveColor(const Color4& color) {
	colorEmissive.x = color.r;
	colorEmissive.y = color.g;
	colorEmissive.z = color.b;
}

float NiMaterialProperty::GetEmissiveMultiple() const {
	return emitMulti;
}

void NiMaterialProperty::SetEmissiveMultiple(const float emissive) {
	emitMulti = emissive;
}

float NiMaterialProperty::GetAlpha() const {
	return alpha;
}

void NiMaterialProperty::SetAlpha(const float alphaValue) {
	alpha = alphaValue;
}


void NiStencilProperty::Sync(NiStreamReversible& stream) {
	const NiFileVersion fileVersion = stream.GetVersion().File();

	if (fileVersion >= NiFileVersion::V3_0 && fileVersion <= NiFileVersion::V10_0_1_2)
		stream.Sync(legacyFlags);

	if (fileVersion <= NiFileVersion::V20_0_0_5) {
		stream.Sync(stencilEnabled);
		stream.Sync(stencilFunction);
		stream.Sync(stencilRef);
		stream.Sync(stencilMask);
		stream.Sync(failAction);
		stream.Sync(zFailAction);
		stream.Sync(passAction);
		stream.Sync(drawMode);
	}
	else if (fileVersion >= NiFileVersion::V20_1_0_3) {
		stream.Sync(flags);
		stream.Sync(stencilRef);
		stream.Sync(stencilMask);
	}
}
