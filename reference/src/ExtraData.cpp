/*
nifly
C++ NIF library for the Gamebryo/NetImmerse File Format
See the included GPLv3 LICENSE file
*/

#include "ExtraData.hpp"

#include <fstream>

using namespace nifly;

void NiExtraData::Sync(NiStreamReversible& stream) {
	name.Sync(stream);
}

void NiExtraData::GetStringRefs(std::vector<NiStringRef*>& refs) {
	NiObject::GetStringRefs(refs);

	refs.emplace_back(&name);
}


void NiBinaryExtraData::Sync(NiStreamReversible& stream) {
	data.Sync(stream);
}


void NiFloatExtraData::Sync(NiStreamReversible& stream) {
	stream.Sync(floatData);
}


void NiFloatsExtraData::Sync(NiStreamReversible& stream) {
	floatsData.Sync(stream);
}


void NiStringsExtraData::Sync(NiStreamReversible& stream) {
	stringsData.Sync(stream);
}


void NiStringExtraData::Sync(NiStreamReversible& stream) {
	stringData.Sync(stream);
}

void NiStringExtraData::GetStringRefs(std::vector<NiStringRef*>& refs) {
	NiExtraData::GetStringRefs(refs);

	refs.emplace_back(&stringData);
}


void NiBooleanExtraData::Sync(NiStreamReversible& stream) {
	stream.Sync(booleanData);
}


void NiIntegerExtraData::Sync(NiStreamReversible& stream) {
	stream.Sync(integerData);
}


void NiIntegersExtraData::Sync(NiStreamReversible& stream) {
	integersData.Sync(stream);
}


void NiVectorExtraData::Sync(NiStreamReversible& stream) {
	stream.Sync(vectorData);
}


void NiColorExtraData::Sync(NiStreamReversible& stream) {
	stream.Sync(colorData);
}


void BSWArray::Sync(NiStreamReversible& stream) {
	data.Sync(stream);
}


void BSPositionData::Sync(NiStreamReversible& stream) {
	data.Sync(stream);
}


void BSEyeCenterExtraData::Sync(NiStreamReversible& stream) {
	data.Sync(stream);
}


void BSPackedGeomData::Sync(NiStreamReversible& stream) {
	stream.Sync(numVertices);

	stream.Sync(lodLevels);
	stream.Sync(triCountLod0);
	stream.Sync(triOffsetLod0);
	stream.Sync(triCountLod1);
	stream.Sync(triOffsetLod1);
	stream.Sync(triCountLod2);
	stream.Sync(triOffsetLod2);

	combined.Sync(stream);

	stream.Sync(vertexDesc);

	vertData.resize(numVertices);

	for (uint32_t i = 0; i < numVertices; i++) {
		auto& vertex = vertData[i];
		if (HasVertices()) {
			if (IsFullPrecision() || stream.GetVersion().Stream() == 100) {
				// Full precision
				stream.Sync(vertex.vert);
				stream.Sync(vertex.bitangentX);
			}
			else {
				// Half precision
				stream.SyncHalf(vertex.vert.x);
				stream.SyncHalf(vertex.vert.y);
				stream.SyncHalf(vertex.vert.z);

				stream.SyncHalf(vertex.bitangentX);
			}
		}

		if (HasUVs()) {
			stream.SyncHalf(vertex.uv.u);
			stream.SyncHalf(vertex.uv.v);
		}

		if (HasNormals()) {
			for (uint8_t& j : vertex.normal)
				stream.Sync(j);

			stream.Sync(vertex.bitangentY);

			if (HasTangents()) {
				for (uint8_t& j : vertex.tangent)
					stream.Sync(j);

				stream.Sync(vertex.bitangentZ);
			}
		}


		if (HasVertexColors())
			for (uint8_t& j : vertex.colorData)
				stream.Sync(j);

		if (IsSkinned()) {
			for (float& weight : vertex.weights)
				stream.SyncHalf(weight);

			for (uint8_t& weightBone : vertex.weightBones)
				stream.Sync(weightBone);
		}

		if (HasEyeData())
			stream.Sync(vertex.eyeData);
	}

	triangles.resize(triCountLod0 + triCountLod1 + triCountLod2);
	for (auto& t : triangles)
		stream.Sync(t);
}

void BSPackedGeomData::SetVertices(const bool enable) {
	if (enable) {
		vertexDesc.SetFlag(VF_VERTEX);
		vertData.resize(numVertices);
	}
	else {
		vertexDesc.RemoveFlag(VF_VERTEX);
		vertData.clear();
		numVertices = 0;

		SetUVs(false);
		SetNormals(false);
		SetTangents(false);
		SetVertexColors(false);
		SetSkinned(false);
	}
}

void BSPackedGeomData::SetUVs(const bool enable) {
	if (enable)
		vertexDesc.SetFlag(VF_UV);
	else
		vertexDesc.RemoveFlag(VF_UV);
}

void BSPackedGeomData::SetSecondUVs(const bool enable) {
	if (enable)
		vertexDesc.SetFlag(VF_UV_2);
	else
		vertexDesc.RemoveFlag(VF_UV_2);
}

void BSPackedGeomData::SetNormals(const bool enable) {
	if (enable)
		vertexDesc.SetFlag(VF_NORMAL);
	else
		vertexDesc.RemoveFlag(VF_NORMAL);
}

void BSPackedGeomData::SetTangents(const bool enable) {
	if (enable)
		vertexDesc.SetFlag(VF_TANGENT);
	else
		vertexDesc.RemoveFlag(VF_TANGENT);
}

void BSPackedGeomData::SetVertexColors(const bool enable) {
	if (enable) {
		if (!vertexDesc.HasFlag(VF_COLORS)) {
			for (auto& v : vertData) {
				v.colorData[0] = 255;
				v.colorData[1] = 255;
				v.colorData[2] = 255;
				v.colorData[3] = 255;
			}
		}

		vertexDesc.SetFlag(VF_COLORS);
	}
	else
		vertexDesc.RemoveFlag(VF_COLORS);
}

void BSPackedGeomData::SetSkinned(const bool enable) {
	if (enable)
		vertexDesc.SetFlag(VF_SKINNED);
	else
		vertexDesc.RemoveFlag(VF_SKINNED);
}

void BSPackedGeomData::SetEyeData(const bool enable) {
	if (enable)
		vertexDesc.SetFlag(VF_EYEDATA);
	else
		vertexDesc.RemoveFlag(VF_EYEDATA);
}

void BSPackedGeomData::SetFullPrecision(const bool enable) {
	if (!CanChangePrecision())
		return;

	if (enable)
		vertexDesc.SetFlag(VF_FULLPREC);
	else
		vertexDesc.RemoveFlag(VF_FULLPREC);
}


void BSPackedCombinedSharedGeomDataExtra::Sync(NiStreamReversible& stream) {
	vertexDesc.Sync(stream);
	stream.Sync(numVertices);
	stream.Sync(numTriangles);
	stream.Sync(unkFlags1);
	stream.Sync(unkFlags2);

	stream.Sync(numData);
	objects.resize(numData);
	data.resize(numData);

	for (uint32_t i = 0; i < numData; i++)
		stream.Sync(objects[i]);

	for (uint32_t i = 0; i < numData; i++)
		data[i].Sync(stream);
}


void BSInvMarker::Sync(NiStreamReversible& stream) {
	stream.Sync(rotationX);
	stream.Sync(rotationY);
	stream.Sync(rotationZ);
	stream.Sync(zoom);
}


void FurniturePosition::Sync(NiStreamReversible& stream) {
	stream.Sync(offset);

	if (stream.GetVersion().User() <= 11) {
		stream.Sync(orientation);
		stream.Sync(posRef1);
		stream.Sync(posRef2);
	}

	if (stream.GetVersion().User() >= 12) {
		stream.Sync(heading);
		stream.Sync(animationType);
		stream.Sync(entryPoints);
	}
}


void BSFurnitureMarker::Sync(NiStreamReversible& stream) {
	positions.Sync(stream);
}

void DecalVectorBlock::Sync(NiStreamReversible& stream) {
	points.Sync(stream);
	normals.SyncData(stream, points.size());
}


void BSDecalPlacementVectorExtraData::Sync(NiStreamReversible& stream) {
	decalVectorBlocks.Sync(stream);
}


void BSBehaviorGraphExtraData::Sync(NiStreamReversible& stream) {
	behaviorGraphFile.Sync(stream);
	stream.Sync(controlsBaseSkel);
}

void BSBehaviorGraphExtraData::GetStringRefs(std::vector<NiStringRef*>& refs) {
	NiExtraData::GetStringRefs(refs);

	refs.emplace_back(&behaviorGraphFile);
}


void BSBound::Sync(NiStreamReversible& stream) {
	stream.Sync(center);
	stream.Sync(halfExtents);
}


void BoneLOD::Sync(NiStreamReversible& stream) {
	stream.Sync(distance);
	boneName.Sync(stream);
}

void BoneLOD::GetStringRefs(std::vector<NiStringRef*>& refs) {
	refs.emplace_back(&boneName);
}


void BSBoneLODExtraData::Sync(NiStreamReversible& stream) {
	boneLODs.Sync(stream);
}

void BSBoneLODExtraData::GetStringRefs(std::vector<NiStringRef*>& refs) {
	NiExtraData::GetStringRefs(refs);

	boneLODs.GetStringRefs(refs);
}


void NiTextKeyExtraData::Sync(NiStreamReversible& stream) {
	textKeys.Sync(stream);
}

void NiTextKeyExtraData::GetStringRefs(std::vector<NiStringRef*>& refs) {
	NiExtraData::GetStringRefs(refs);

	textKeys.GetStringRefs(refs);
}


void BSDistantObjectLargeRefExtraData::Sync(NiStreamReversible& stream) {
	stream.Sync(largeRef);
}


void BSDistantObjectExtraData::Sync(NiStreamReversible& stream) {
	stream.Sync(distantObjectFlags);
}


void BSConnectPoint::Sync(NiStreamReversible& stream) {
	root.Sync(stream, 4);
	variableName.Sync(stream, 4);

	stream.Sync(rotation);
	stream.Sync(translation);
	stream.Sync(scale);
}


void BSConnectPointParents::Sync(NiStreamReversible& stream) {
	connectPoints.Sync(stream);
}


void BSConnectPointChildren::Sync(NiStreamReversible& stream) {
	stream.Sync(skinned);
	targets.Sync(stream);
}


BSClothExtraData::BSClothExtraData(const uint32_t size) {
	data.resize(size);
}

void BSClothExtraData::Sync(NiStreamReversible& stream) {
	data.SyncByteArray(stream);
}


bool BSClothExtraData::ToHKX(const std::string& fileName) {
	std::ofstream file(fileName, std::ios_base::binary);
	if (!file)
		return false;

	file.write(data.data(), data.size());
	return true;
}

bool BSClothExtraData::FromHKX(const std::string& fileName) {
	std::ifstream file(fileName, std::ios::binary | std::ios::ate);
	if (!file)
		return false;

	auto numBytes = static_cast<uint32_t>(file.tellg());
	file.seekg(0, std::ios::beg);

	data.resize(numBytes);
	file.read(data.data(), numBytes);
	return true;
}


void BSCollisionQueryProxyExtraData::Sync(NiStreamReversible& stream) {
	data.SyncByteArray(stream);
}


void SkinAttach::Sync(NiStreamReversible& stream) {
	bones.Sync(stream);
}


void BoneTranslations::Sync(NiStreamReversible& stream) {
	stream.Sync(numTranslations);
	translations.resize(numTranslations);
	for (uint32_t i = 0; i < numTranslations; i++) {
		translations[i].bone.Sync(stream, 4);
		stream.Sync(translations[i].trans);
	}
}
