/*
nifly
C++ NIF library for the Gamebryo/NetImmerse File Format
See the included GPLv3 LICENSE file
*/

#include "Animation.hpp"

using namespace nifly;

void NiKeyframeData::Sync(NiStreamReversible& stream) {
	uint32_t numRotationKeys = 0;

	if (stream.GetMode() == NiStreamReversible::Mode::Writing) {
		if (rotationType == XYZ_ROTATION_KEY)
			numRotationKeys = 1;
		else
			numRotationKeys = static_cast<uint32_t>(quaternionKeys.size());
	}

	stream.Sync(numRotationKeys);

	if (numRotationKeys > 0) {
		stream.Sync(rotationType);

		if (rotationType != XYZ_ROTATION_KEY) {
			quaternionKeys.resize(numRotationKeys);

			for (uint32_t i = 0; i < numRotationKeys; i++) {
				stream.Sync(quaternionKeys[i].time);
				stream.Sync(quaternionKeys[i].value);

				if (rotationType == TBC_KEY)
					stream.Sync(quaternionKeys[i].tbc);
			}
		}
		else {
			xRotations.Sync(stream);
			yRotations.Sync(stream);
			zRotations.Sync(stream);
		}
	}

	translations.Sync(stream);
	scales.Sync(stream);
}


void NiPosData::Sync(NiStreamReversible& stream) {
	data.Sync(stream);
}


void NiBoolData::Sync(NiStreamReversible& stream) {
	data.Sync(stream);
}


void NiFloatData::Sync(NiStreamReversible& stream) {
	data.Sync(stream);
}


void NiBSplineData::Sync(NiStreamReversible& stream) {
	floatControlPoints.Sync(stream);
	shortControlPoints.Sync(stream);
}


void NiBSplineBasisData::Sync(NiStreamReversible& stream) {
	stream.Sync(numControlPoints);
}


void NiTimeController::Sync(NiStreamReversible& stream) {
	nextControllerRef.Sync(stream);
	stream.Sync(flags);
	stream.Sync(frequency);
	stream.Sync(phase);
	stream.Sync(startTime);
	stream.Sync(stopTime);
	targetRef.Sync(stream);
}

void NiTimeController::GetChildRefs(std::set<NiRef*>& refs) {
	NiObject::GetChildRefs(refs);

	refs.insert(&nextControllerRef);
}

void NiTimeController::GetChildIndices(std::vector<uint32_t>& indices) {
	NiObject::GetChildIndices(indices);

	indices.push_back(nextControllerRef.index);
}

void NiTimeController::GetPtrs(std::set<NiPtr*>& ptrs) {
	NiObject::GetPtrs(ptrs);

	ptrs.insert(&targetRef);
}


void NiLookAtController::Sync(NiStreamReversible& stream) {
	stream.Sync(lookAtFlags);
	lookAtNodePtr.Sync(stream);
}

void NiLookAtController::GetPtrs(std::set<NiPtr*>& ptrs) {
	NiTimeController::GetPtrs(ptrs);

	ptrs.insert(&lookAtNodePtr);
}


void NiPathController::Sync(NiStreamReversible& stream) {
	stream.Sync(pathFlags);
	stream.Sync(bankDir);
	stream.Sync(maxBankAngle);
	stream.Sync(smoothing);
	stream.Sync(followAxis);
	pathDataRef.Sync(stream);
	percentDataRef.Sync(stream);
}

void NiPathController::GetChildRefs(std::set<NiRef*>& refs) {
	NiTimeController::GetChildRefs(refs);

	refs.insert(&pathDataRef);
	refs.insert(&percentDataRef);
}

void NiPathController::GetChildIndices(std::vector<uint32_t>& indices) {
	NiTimeController::GetChildIndices(indices);

	indices.push_back(pathDataRef.index);
	indices.push_back(percentDataRef.index);
}


void NiUVData::Sync(NiStreamReversible& stream) {
	uTrans.Sync(stream);
	vTrans.Sync(stream);
	uScale.Sync(stream);
	vScale.Sync(stream);
}


void NiUVController::Sync(NiStreamReversible& stream) {
	stream.Sync(textureSet);
	dataRef.Sync(stream);
}

void NiUVController::GetChildRefs(std::set<NiRef*>& refs) {
	NiTimeController::GetChildRefs(refs);

	refs.insert(&dataRef);
}

void NiUVController::GetChildIndices(std::vector<uint32_t>& indices) {
	NiTimeController::GetChildIndices(indices);

	indices.push_back(dataRef.index);
}


void BSFrustumFOVController::Sync(NiStreamReversible& stream) {
	interpolatorRef.Sync(stream);
}

void BSFrustumFOVController::GetChildRefs(std::set<NiRef*>& refs) {
	NiTimeController::GetChildRefs(refs);

	refs.insert(&interpolatorRef);
}

void BSFrustumFOVController::GetChildIndices(std::vector<uint32_t>& indices) {
	NiTimeController::GetChildIndices(indices);

	indices.push_back(interpolatorRef.index);
}


void BSLagBoneController::Sync(NiStreamReversible& stream) {
	stream.Sync(linearVelocity);
	stream.Sync(linearRotation);
	stream.Sync(maxDistance);
}


void BSProceduralLightningController::Sync(NiStreamReversible& stream) {
	generationInterpRef.Sync(stream);
	mutationInterpRef.Sync(stream);
	subdivisionInterpRef.Sync(stream);
	numBranchesInterpRef.Sync(stream);
	numBranchesVarInterpRef.Sync(stream);
	lengthInterpRef.Sync(stream);
	lengthVarInterpRef.Sync(stream);
	widthInterpRef.Sync(stream);
	arcOffsetInterpRef.Sync(stream);

	stream.Sync(subdivisions);
	stream.Sync(numBranches);
	stream.Sync(numBranchesPerVariation);

	stream.Sync(length);
	stream.Sync(lengthVariation);
	stream.Sync(width);
	stream.Sync(childWidthMult);
	stream.Sync(arcOffset);

	stream.Sync(fadeMainBolt);
	stream.Sync(fadeChildBolts);
	stream.Sync(animateArcOffset);

	shaderPropertyRef.Sync(stream);
}

void BSProceduralLightningController::GetChildRefs(std::set<NiRef*>& refs) {
	NiTimeController::GetChildRefs(refs);

	refs.insert(&generationInterpRef);
	refs.insert(&mutationInterpRef);
	refs.insert(&subdivisionInterpRef);
	refs.insert(&numBranchesInterpRef);
	refs.insert(&numBranchesVarInterpRef);
	refs.insert(&lengthInterpRef);
	refs.insert(&lengthVarInterpRef);
	refs.insert(&widthInterpRef);
	refs.insert(&arcOffsetInterpRef);
	refs.insert(&shaderPropertyRef);
}

void BSProceduralLightningController::GetChildIndices(std::vector<uint32_t>& indices) {
	NiTimeController::GetChildIndices(indices);

	indices.push_back(generationInterpRef.index);
	indices.push_back(mutationInterpRef.index);
	indices.push_back(subdivisionInterpRef.index);
	indices.push_back(numBranchesInterpRef.index);
	indices.push_back(numBranchesVarInterpRef.index);
	indices.push_back(lengthInterpRef.index);
	indices.push_back(lengthVarInterpRef.index);
	indices.push_back(widthInterpRef.index);
	indices.push_back(arcOffsetInterpRef.index);
	indices.push_back(shaderPropertyRef.index);
}


void NiBoneLODController::Sync(NiStreamReversible& stream) {
	stream.Sync(lod);
	stream.Sync(numLODs);

	boneArrays.Sync(stream);
}

void NiBoneLODController::GetPtrs(std::set<NiPtr*>& ptrs) {
	NiTimeController::GetPtrs(ptrs);

	for (auto& bp : boneArrays)
		bp.GetIndexPtrs(ptrs);
}


void NiMorphData::Sync(NiStreamReversible& stream) {
	stream.Sync(numMorphs);
	stream.Sync(numVertices);
	stream.Sync(relativeTargets);

	morphs.resize(numMorphs);
	for (uint32_t i = 0; i < numMorphs; i++)
		morphs[i].Sync(stream, numVertices);
}

void NiMorphData::GetStringRefs(std::vector<NiStringRef*>& refs) {
	NiObject::GetStringRefs(refs);

	for (auto& m : morphs)
		m.GetStringRefs(refs);
}

std::vector<Morph> NiMorphData::GetMorphs() const {
	return morphs;
}

void NiMorphData::SetMorphs(const uint32_t numVerts, const std::vector<Morph>& m) {
	numVertices = numVerts;
	numMorphs = static_cast<uint32_t>(m.size());
	morphs = m;

	for (auto& morph : morphs)
		morph.vectors.resize(numVertices);
}


void NiInterpController::Sync(NiStreamReversible& stream) {
	if (stream.GetVersion().File() >= V10_1_0_104 && stream.GetVersion().File() <= V10_1_0_108)
		stream.Sync(managerControlled);
}


void NiGeomMorpherController::Sync(NiStreamReversible& stream) {
	stream.Sync(morpherFlags);
	dataRef.Sync(stream);
	stream.Sync(alwaysUpdate);

	if (stream.GetVersion().File() >= V10_1_0_106 && stream.GetVersion().File() <= V20_1_0_3)
		interpolatorRefs.Sync(stream);

	if (stream.GetVersion().File() >= V10_2_0_0 && stream.GetVersion().File() <= V20_0_0_5 && stream.GetVersion().Stream() > 9)
		unknownInts.Sync(stream);

	if (stream.GetVersion().File() >= V20_1_0_3)
		interpWeights.Sync(stream);
}

void NiGeomMorpherController::GetChildRefs(std::set<NiRef*>& refs) {
	NiInterpController::GetChildRefs(refs);

	refs.insert(&dataRef);

	interpolatorRefs.GetIndexPtrs(refs);

	for (auto& m : interpWeights)
		m.GetChildRefs(refs);
}

void NiGeomMorpherController::GetChildIndices(std::vector<uint32_t>& indices) {
	NiInterpController::GetChildIndices(indices);

	indices.push_back(dataRef.index);

	interpolatorRefs.GetIndices(indices);

	for (auto& m : interpWeights)
		m.GetChildIndices(indices);
}


void NiSingleInterpController::Sync(NiStreamReversible& stream) {
	if (stream.GetVersion().File() >= V10_1_0_104)
		interpolatorRef.Sync(stream);
}

void NiSingleInterpController::GetChildRefs(std::set<NiRef*>& refs) {
	NiInterpController::GetChildRefs(refs);

	refs.insert(&interpolatorRef);
}

void NiSingleInterpController::GetChildIndices(std::vector<uint32_t>& indices) {
	NiInterpController::GetChildIndices(indices);

	indices.push_back(interpolatorRef.index);
}


void NiRollController::Sync(NiStreamReversible& stream) {
	dataRef.Sync(stream);
}

void NiRollController::GetChildRefs(std::set<NiRef*>& refs) {
	NiSingleInterpController::GetChildRefs(refs);

	refs.insert(&dataRef);
}

void NiRollController::GetChildIndices(std::vector<uint32_t>& indices) {
	NiSingleInterpController::GetChildIndices(indices);

	indices.push_back(dataRef.index);
}


void NiPoint3InterpController::Sync(NiStreamReversible& stream) {
	stream.Sync(targetColor);
}


void NiFloatExtraDataController::Sync(NiStreamReversible& stream) {
	extraData.Sync(stream);
}

void NiFloatExtraDataController::GetStringRefs(std::vector<NiStringRef*>& refs) {
	NiExtraDataController::GetStringRefs(refs);

	refs.emplace_back(&extraData);
}


void NiVisData::Sync(NiStreamReversible& stream) {
	keys.Sync(stream);
}


void NiFlipController::Sync(NiStreamReversible& stream) {
	stream.Sync(textureSlot);
	sourceRefs.Sync(stream);
}

void NiFlipController::GetChildRefs(std::set<NiRef*>& refs) {
	NiFloatInterpController::GetChildRefs(refs);

	sourceRefs.GetIndexPtrs(refs);
}

void NiFlipController::GetChildIndices(std::vector<uint32_t>& indices) {
	NiFloatInterpController::GetChildIndices(indices);

	sourceRefs.GetIndices(indices);
}


void NiTextureTransformController::Sync(NiStreamReversible& stream) {
	stream.Sync(shaderMap);
	stream.Sync(textureSlot);
	stream.Sync(operation);
}


void NiKeyframeController::Sync(NiStreamReversible& stream) {
	if (stream.GetVersion().File() < V10_1_0_104)
		dataRef.Sync(stream);
}

void NiKeyframeController::GetChildRefs(std::set<NiRef*>& refs) {
	NiSingleInterpController::GetChildRefs(refs);

	refs.insert(&dataRef);
}

void NiKeyframeController::GetChildIndices(std::vector<uint32_t>& indices) {
	NiSingleInterpController::GetChildIndices(indices);

	indices.push_back(dataRef.index);
}


void BSLightingShaderPropertyColorController::Sync(NiStreamReversible& stream) {
	stream.Sync(typeOfControlledColor);
}


void BSLightingShaderPropertyFloatController::Sync(NiStreamReversible& stream) {
	stream.Sync(typeOfControlledVariable);
}


void BSLightingShaderPropertyUShortController::Sync(NiStreamReversible& stream) {
	stream.Sync(typeOfControlledVariable);
}


void BSEffectShaderPropertyColorController::Sync(NiStreamReversible& stream) {
	stream.Sync(typeOfControlledColor);
}


void BSEffectShaderPropertyFloatController::Sync(NiStreamReversible& stream) {
	stream.Sync(typeOfControlledVariable);
}


void NiMultiTargetTransformController::Sync(NiStreamReversible& stream) {
	targetRefs.SetKeepEmptyRefs();
	targetRefs.Sync(stream);
}

void NiMultiTargetTransformController::GetPtrs(std::set<NiPtr*>& ptrs) {
	NiInterpController::GetPtrs(ptrs);

	targetRefs.GetIndexPtrs(ptrs);
}


void NiPSysModifierCtlr::Sync(NiStreamReversible& stream) {
	modifierName.Sync(stream);
}

void NiPSysModifierCtlr::GetStringRefs(std::vector<NiStringRef*>& refs) {
	NiSingleInterpController::GetStringRefs(refs);

	refs.emplace_back(&modifierName);
}


void NiBSplineInterpolator::Sync(NiStreamReversible& stream) {
	stream.Sync(startTime);
	stream.Sync(stopTime);
	splineDataRef.Sync(stream);
	basisDataRef.Sync(stream);
}

void NiBSplineInterpolator::GetChildRefs(std::set<NiRef*>& refs) {
	NiInterpolator::GetChildRefs(refs);

	refs.insert(&splineDataRef);
	refs.insert(&basisDataRef);
}

void NiBSplineInterpolator::GetChildIndices(std::vector<uint32_t>& indices) {
	NiInterpolator::GetChildIndices(indices);

	indices.push_back(splineDataRef.index);
	indices.push_back(basisDataRef.index);
}


void NiBSplineCompFloatInterpolator::Sync(NiStreamReversible& stream) {
	stream.Sync(base);
	stream.Sync(offset);
	stream.Sync(bias);
	stream.Sync(multiplier);
}


void NiBSplinePoint3Interpolator::Sync(NiStreamReversible& stream) {
	stream.Sync(value);
	stream.Sync(handle);
}


void NiBSplineCompPoint3Interpolator::Sync(NiStreamReversible& stream) {
	stream.Sync(positionOffset);
	stream.Sync(positionHalfRange);
}


void NiBSplineTransformInterpolator::Sync(NiStreamReversible& stream) {
	stream.Sync(translation);
	stream.Sync(rotation);
	stream.Sync(scale);

	stream.Sync(translationOffset);
	stream.Sync(rotationOffset);
	stream.Sync(scaleOffset);
}


void NiBSplineCompTransformInterpolator::Sync(NiStreamReversible& stream) {
	stream.Sync(translationBias);
	stream.Sync(translationMultiplier);
	stream.Sync(rotationBias);
	stream.Sync(rotationMultiplier);
	stream.Sync(scaleBias);
	stream.Sync(scaleMultiplier);
}


void InterpBlendItem::Sync(NiStreamReversible& stream) {
	interpolatorRef.Sync(stream);
	stream.Sync(weight);
	stream.Sync(normalizedWeight);
	if (stream.GetVersion().File() < V10_1_0_110)
		stream.Sync(priorityInt);
	else
		stream.Sync(priority);
	stream.Sync(easeSpinner);
}


void NiBlendInterpolator::Sync(NiStreamReversible& stream) {
	if (stream.GetVersion().File() >= V10_1_0_112)
		stream.Sync(flags);

	if (stream.GetVersion().File() < V10_1_0_110) {
		stream.Sync(arraySize);
	}
	else {
		uint8_t arraySizeByte = 0;
		if (stream.GetMode() == NiStreamReversible::Mode::Writing)
			arraySizeByte = static_cast<uint8_t>(arraySize);

		stream.Sync(arraySizeByte);

		if (stream.GetMode() == NiStreamReversible::Mode::Reading)
			arraySize = arraySizeByte;
	}

	if (stream.GetVersion().File() < V10_1_0_110)
		stream.Sync(arrayGrowBy);

	if (stream.GetVersion().File() >= V10_1_0_112)
		stream.Sync(weightThreshold);

	if (stream.GetVersion().File() >= V10_1_0_112) {
		if ((flags & INTERP_BLEND_MANAGER_CONTROLLED) == 0) {
			uint8_t interpCountByte = 0;
			if (stream.GetMode() == NiStreamReversible::Mode::Writing)
				interpCountByte = static_cast<uint8_t>(interpCount);

			stream.Sync(interpCountByte);

			if (stream.GetMode() == NiStreamReversible::Mode::Reading)
				interpCount = interpCountByte;

			stream.Sync(singleIndex);
			stream.Sync(highPriority);
			stream.Sync(nextHighPriority);
			stream.Sync(singleTime);
			stream.Sync(highWeightsSum);
			stream.Sync(nextHighWeightsSum);
			stream.Sync(highEaseSpinner);

			interpItems.resize(arraySize);
			for (auto& item : interpItems)
				item.Sync(stream);
		}
	}
	else {
		interpItems.resize(arraySize);
		for (auto& item : interpItems)
			item.Sync(stream);

		stream.Sync(managerControlled);
		stream.Sync(weightThreshold);
		stream.Sync(onlyUseHighestWeight);
	}

	if (stream.GetVersion().File() < V10_1_0_110) {
		stream.Sync(interpCount);
		stream.Sync(singleIndexShort);
	}

	if (stream.GetVersion().File() >= V10_1_0_110 && stream.GetVersion().File() < V10_1_0_112) {
		uint8_t interpCountByte = 0;
		if (stream.GetMode() == NiStreamReversible::Mode::Writing)
			interpCountByte = static_cast<uint8_t>(interpCount);

		stream.Sync(interpCountByte);

		if (stream.GetMode() == NiStreamReversible::Mode::Reading)
			interpCount = interpCountByte;

		stream.Sync(singleIndex);
	}

	if (stream.GetVersion().File() >= V10_1_0_108 && stream.GetVersion().File() < V10_1_0_112) {
		singleInterpolatorRef.Sync(stream);
		stream.Sync(singleTime);
	}

	if (stream.GetVersion().File() < V10_1_0_110) {
		stream.Sync(highPriorityInt);
		stream.Sync(nextHighPriorityInt);
	}

	if (stream.GetVersion().File() >= V10_1_0_110 && stream.GetVersion().File() < V10_1_0_112) {
		stream.Sync(highPriority);
		stream.Sync(nextHighPriority);
	}
}

void NiBlendInterpolator::GetChildRefs(std::set<NiRef*>& refs) {
	NiInterpolator::GetChildRefs(refs);

	refs.insert(&singleInterpolatorRef);

	for (auto& item : interpItems)
		refs.insert(&item.interpolatorRef);
}

void NiBlendInterpolator::GetChildIndices(std::vector<uint32_t>& indices) {
	NiInterpolator::GetChildIndices(indices);

	indices.push_back(singleInterpolatorRef.index);

	for (auto& item : interpItems)
		indices.push_back(item.interpolatorRef.index);
}


void NiBlendBoolInterpolator::Sync(NiStreamReversible& stream) {
	stream.Sync(value);
}


void NiBlendFloatInterpolator::Sync(NiStreamReversible& stream) {
	stream.Sync(value);
}


void NiBlendPoint3Interpolator::Sync(NiStreamReversible& stream) {
	stream.Sync(point);
}


void NiBlendTransformInterpolator::Sync(NiStreamReversible& stream) {
	if (stream.GetVersion().File() < V10_1_0_110)
		value.Sync(stream);
}


void NiBoolInterpolator::Sync(NiStreamReversible& stream) {
	stream.Sync(boolValue);
	dataRef.Sync(stream);
}

void NiBoolInterpolator::GetChildRefs(std::set<NiRef*>& refs) {
	NiKeyBasedInterpolator::GetChildRefs(refs);

	refs.insert(&dataRef);
}

void NiBoolInterpolator::GetChildIndices(std::vector<uint32_t>& indices) {
	NiKeyBasedInterpolator::GetChildIndices(indices);

	indices.push_back(dataRef.index);
}


void NiFloatInterpolator::Sync(NiStreamReversible& stream) {
	stream.Sync(floatValue);
	dataRef.Sync(stream);
}

void NiFloatInterpolator::GetChildRefs(std::set<NiRef*>& refs) {
	NiKeyBasedInterpolator::GetChildRefs(refs);

	refs.insert(&dataRef);
}

void NiFloatInterpolator::GetChildIndices(std::vector<uint32_t>& indices) {
	NiKeyBasedInterpolator::GetChildIndices(indices);

	indices.push_back(dataRef.index);
}


void NiTransformInterpolator::Sync(NiStreamReversible& stream) {
	stream.Sync(translation);
	stream.Sync(rotation);
	stream.Sync(scale);
	dataRef.Sync(stream);
}

void NiTransformInterpolator::GetChildRefs(std::set<NiRef*>& refs) {
	NiKeyBasedInterpolator::GetChildRefs(refs);

	refs.insert(&dataRef);
}

void NiTransformInterpolator::GetChildIndices(std::vector<uint32_t>& indices) {
	NiKeyBasedInterpolator::GetChildIndices(indices);

	indices.push_back(dataRef.index);
}


void NiPoint3Interpolator::Sync(NiStreamReversible& stream) {
	stream.Sync(point3Value);
	dataRef.Sync(stream);
}

void NiPoint3Interpolator::GetChildRefs(std::set<NiRef*>& refs) {
	NiKeyBasedInterpolator::GetChildRefs(refs);

	refs.insert(&dataRef);
}

void NiPoint3Interpolator::GetChildIndices(std::vector<uint32_t>& indices) {
	NiKeyBasedInterpolator::GetChildIndices(indices);

	indices.push_back(dataRef.index);
}


void NiPathInterpolator::Sync(NiStreamReversible& stream) {
	stream.Sync(pathFlags);
	stream.Sync(bankDir);
	stream.Sync(maxBankAngle);
	stream.Sync(smoothing);
	stream.Sync(followAxis);
	pathDataRef.Sync(stream);
	percentDataRef.Sync(stream);
}

void NiPathInterpolator::GetChildRefs(std::set<NiRef*>& refs) {
	NiKeyBasedInterpolator::GetChildRefs(refs);

	refs.insert(&pathDataRef);
	refs.insert(&percentDataRef);
}

void NiPathInterpolator::GetChildIndices(std::vector<uint32_t>& indices) {
	NiKeyBasedInterpolator::GetChildIndices(indices);

	indices.push_back(pathDataRef.index);
	indices.push_back(percentDataRef.index);
}


void NiLookAtInterpolator::Sync(NiStreamReversible& stream) {
	stream.Sync(flags);
	lookAtRef.Sync(stream);
	lookAtName.Sync(stream);
	transform.Sync(stream);
	translateInterpRef.Sync(stream);
	rollInterpRef.Sync(stream);
	scaleInterpRef.Sync(stream);
}

void NiLookAtInterpolator::GetStringRefs(std::vector<NiStringRef*>& refs) {
	NiInterpolator::GetStringRefs(refs);

	refs.emplace_back(&lookAtName);
}

void NiLookAtInterpolator::GetChildRefs(std::set<NiRef*>& refs) {
	NiInterpolator::GetChildRefs(refs);

	refs.insert(&translateInterpRef);
	refs.insert(&rollInterpRef);
	refs.insert(&scaleInterpRef);
}

void NiLookAtInterpolator::GetChildIndices(std::vector<uint32_t>& indices) {
	NiInterpolator::GetChildIndices(indices);

	indices.push_back(translateInterpRef.index);
	indices.push_back(rollInterpRef.index);
	indices.push_back(scaleInterpRef.index);
}

void NiLookAtInterpolator::GetPtrs(std::set<NiPtr*>& ptrs) {
	NiInterpolator::GetPtrs(ptrs);

	ptrs.insert(&lookAtRef);
}


void BSTreadTransfInterpolator::Sync(NiStreamReversible& stream) {
	treadTransforms.Sync(stream);
	dataRef.Sync(stream);
}

void BSTreadTransfInterpolator::GetStringRefs(std::vector<NiStringRef*>& refs) {
	NiInterpolator::GetStringRefs(refs);

	for (auto& tt : treadTransforms)
		tt.GetStringRefs(refs);
}

void BSTreadTransfInterpolator::GetChildRefs(std::set<NiRef*>& refs) {
	NiInterpolator::GetChildRefs(refs);

	refs.insert(&dataRef);
}

void BSTreadTransfInterpolator::GetChildIndices(std::vector<uint32_t>& indices) {
	NiInterpolator::GetChildIndices(indices);

	indices.push_back(dataRef.index);
}


void NiStringPalette::Sync(NiStreamReversible& stream) {
	palette.Sync(stream, 4);
	length = static_cast<uint32_t>(palette.length());
	stream.Sync(length);
}


void NiSequence::Sync(NiStreamReversible& stream) {
	name.Sync(stream);

	uint32_t sz = controlledBlocks.SyncSize(stream);

	if (stream.GetVersion().File() >= V10_1_0_106)
		stream.Sync(arrayGrowBy);

	controlledBlocks.SyncData(stream, sz);
}

void NiSequence::GetStringRefs(std::vector<NiStringRef*>& refs) {
	NiObject::GetStringRefs(refs);

	refs.emplace_back(&name);
	controlledBlocks.GetStringRefs(refs);
}

void NiSequence::GetChildRefs(std::set<NiRef*>& refs) {
	NiObject::GetChildRefs(refs);

	controlledBlocks.GetChildRefs(refs);
}

void NiSequence::GetChildIndices(std::vector<uint32_t>& indices) {
	NiObject::GetChildIndices(indices);

	controlledBlocks.GetChildIndices(indices);
}


void BSAnimNote::Sync(NiStreamReversible& stream) {
	stream.Sync(type);
	stream.Sync(time);

	if (type == ANT_GRABIK)
		stream.Sync(arm);

	if (type != ANT_INVALID) {
		stream.Sync(gain);
		stream.Sync(state);
	}
}


void BSAnimNotes::Sync(NiStreamReversible& stream) {
	animNoteRefs.Sync(stream);
}

void BSAnimNotes::GetChildRefs(std::set<NiRef*>& refs) {
	NiObject::GetChildRefs(refs);

	animNoteRefs.GetIndexPtrs(refs);
}

void BSAnimNotes::GetChildIndices(std::vector<uint32_t>& indices) {
	NiObject::GetChildIndices(indices);

	animNoteRefs.GetIndices(indices);
}


void NiControllerSequence::Sync(NiStreamReversible& stream) {
	if (stream.GetVersion().File() >= V10_1_0_106) {
		stream.Sync(weight);
		textKeyRef.Sync(stream);
		stream.Sync(cycleType);
		stream.Sync(frequency);

		if (stream.GetVersion().File() <= V10_4_0_1)
			stream.Sync(phase);

		stream.Sync(startTime);
		stream.Sync(stopTime);

		if (stream.GetVersion().File() == V10_1_0_106)
			stream.Sync(playBackwards);

		managerRef.Sync(stream);
		accumRootName.Sync(stream);
	}

	if (stream.GetVersion().File() >= V10_1_0_113 && stream.GetVersion().File() < V20_1_0_1)
		stringPaletteRef.Sync(stream);

	if (stream.GetVersion().Stream() >= 24 && stream.GetVersion().Stream() <= 28)
		animNotesRef.Sync(stream);
	else if (stream.GetVersion().Stream() > 28)
		animNotesRefs.Sync(stream);
}

void NiControllerSequence::GetStringRefs(std::vector<NiStringRef*>& refs) {
	NiSequence::GetStringRefs(refs);

	refs.emplace_back(&accumRootName);
}

void NiControllerSequence::GetChildRefs(std::set<NiRef*>& refs) {
	NiSequence::GetChildRefs(refs);

	refs.insert(&textKeyRef);
	refs.insert(&stringPaletteRef);
	refs.insert(&animNotesRef);
	animNotesRefs.GetIndexPtrs(refs);
}

void NiControllerSequence::GetChildIndices(std::vector<uint32_t>& indices) {
	NiSequence::GetChildIndices(indices);

	indices.push_back(textKeyRef.index);
	indices.push_back(stringPaletteRef.index);
	indices.push_back(animNotesRef.index);
	animNotesRefs.GetIndices(indices);
}

void NiControllerSequence::GetPtrs(std::set<NiPtr*>& ptrs) {
	NiSequence::GetPtrs(ptrs);

	ptrs.insert(&managerRef);
}


void NiControllerManager::Sync(NiStreamReversible& stream) {
	stream.Sync(cumulative);

	controllerSequenceRefs.Sync(stream);
	objectPaletteRef.Sync(stream);
}

void NiControllerManager::GetChildRefs(std::set<NiRef*>& refs) {
	NiTimeController::GetChildRefs(refs);

	controllerSequenceRefs.GetIndexPtrs(refs);
	refs.insert(&objectPaletteRef);
}

void NiControllerManager::GetChildIndices(std::vector<uint32_t>& indices) {
	NiTimeController::GetChildIndices(indices);

	controllerSequenceRefs.GetIndices(indices);
	indices.push_back(objectPaletteRef.index);
}
