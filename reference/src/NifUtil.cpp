/*
nifly
C++ NIF library for the Gamebryo/NetImmerse File Format
See the included GPLv3 LICENSE file
*/

#pragma once

#include "NifUtil.hpp"

namespace nifly {

void trim_whitespace(std::string& str) {
	if (str.empty())
		return;

	std::string::size_type i, j;
	i = 0;

	while (i < str.size() && isspace(str[i]))
		++i;

	if (i == str.size()) {
		str.clear();
		return;
	}

	j = str.size() - 1;

	while (isspace(str[j]))
		--j;

	str = str.substr(i, j - i + 1);
}

} // namespace nifly