/*
nifly
C++ NIF library for the Gamebryo/NetImmerse File Format
See the included GPLv3 LICENSE file
*/

#pragma once

#include "BasicTypes.hpp"
#include "Objects.hpp"

namespace nifly {
enum BSShaderType : uint32_t {
	SHADER_TALL_GRASS,
	SHADER_DEFAULT,
	SHADER_SKY = 10,
	SHADER_SKIN = 14,
	SHADER_WATER = 17,
	SHADER_LIGHTING30 = 29,
	SHADER_TILE = 32,
	SHADER_NOLIGHTING
};

enum BSLightingShaderPropertyShaderType : uint32_t {
	BSLSP_DEFAULT,
	BSLSP_ENVMAP,
	BSLSP_GLOWMAP,
	BSLSP_PARALLAX,
	BSLSP_FACE,
	BSLSP_SKINTINT,
	BSLSP_HAIRTINT,
	BSLSP_PARALLAXOCC,
	BSLSP_MULTITEXTURELANDSCAPE,
	BSLSP_LODLANDSCAPE,
	BSLSP_SNOW,
	BSLSP_MULTILAYERPARALLAX,
	BSLSP_TREEANIM,
	BSLSP_LODOBJECTS,
	BSLSP_MULTIINDEXSNOW,
	BSLSP_LODOBJECTSHD,
	BSLSP_EYE,
	BSLSP_CLOUD,
	BSLSP_LODLANDSCAPENOISE,
	BSLSP_MULTITEXTURELANDSCAPELODBLEND,
	BSLSP_DISMEMBERMENT,
	BSLSP_LAST = BSLSP_DISMEMBERMENT
};

enum SkyrimShaderPropertyFlags1 : uint32_t {
	SLSF1_SPECULAR = 1 << 0,					// Enables specularity
	SLSF1_SKINNED = 1 << 1,						// Required for skinned meshes
	SLSF1_TEMP_REFRACTION = 1 << 2,
	SLSF1_VERTEX_ALPHA = 1 << 3,				// Enables using alpha component of vertex colors
	SLSF1_GREYSCALETOPALETTE_COLOR = 1 << 4,	// For effect shader property
	SLSF1_GREYSCALETOPALETTE_ALPHA = 1 << 5,	// For effect shader property
	SLSF1_USE_FALLOFF = 1 << 6,					// Use falloff value in effect shader property
	SLSF1_ENVIRONMENT_MAPPING = 1 << 7,			// Enables environment mapping (uses environment map scale)
	SLSF1_RECEIVE_SHADOWS = 1 << 8,				// Can receive shadows
	SLSF1_CAST_SHADOWS = 1 << 9,				// Can cast shadows
	SLSF1_FACEGEN_DETAIL_MAP = 1 << 10,			// Use a face detail map in the fourth texture slot
	SLSF1_PARALLAX = 1 << 11,
	SLSF1_MODEL_SPACE_NORMALS = 1 << 12,		// Use model space normals and an external specular map
	SLSF1_NON_PROJECTIVE_SHADOWS = 1 << 13,
	SLSF1_LANDSCAPE = 1 << 14,
	SLSF1_REFRACTION = 1 << 15,					// Use normal map for refraction effect
	SLSF1_FIRE_REFRACTION = 1 << 16,
	SLSF1_EYE_ENVIRONMENT_MAPPING = 1 << 17,	// Enables eye environment mapping (must use the eye shader and the model must be skinned)
	SLSF1_HAIR_SOFT_LIGHTING = 1 << 18,			// Keeps from going too bright under lights (hair shader only)
	SLSF1_SCREENDOOR_ALPHA_FADE = 1 << 19,
	SLSF1_LOCALMAP_HIDE_SECRET = 1 << 20,		// Object and anything it is positioned above will not render on local map view
	SLSF1_FACEGEN_RGB_TINT = 1 << 21,			// Use tint mask for face
	SLSF1_OWN_EMIT = 1 << 22,					// Provides its own emittance color (will not absorb light/ambient color?)
	SLSF1_PROJECTED_UV = 1 << 23,				// Used for decalling?
	SLSF1_MULTIPLE_TEXTURES = 1 << 24,
	SLSF1_REMAPPABLE_TEXTURES = 1 << 25,
	SLSF1_DECAL = 1 << 26,
	SLSF1_DYNAMIC_DECAL = 1 << 27,
	SLSF1_PARALLAX_OCCLUSION = 1 << 28,
	SLSF1_EXTERNAL_EMITTANCE = 1 << 29,
	SLSF1_SOFT_EFFECT = 1 << 30,
	SLSF1_ZBUFFER_TEST = static_cast<uint32_t>(1) << 31				// Enables Z-Buffer testing
};

enum SkyrimShaderPropertyFlags2 : uint32_t {
	SLSF2_ZBUFFER_WRITE = 1 << 0,				// Enables writing to the Z-Buffer
	SLSF2_LOD_LANDSCAPE = 1 << 1,
	SLSF2_LOD_OBJECTS = 1 << 2,
	SLSF2_NO_FADE = 1 << 3,
	SLSF2_DOUBLE_SIDED = 1 << 4,				// Enables double-sided rendering
	SLSF2_VERTEX_COLORS = 1 << 5,				// Enables vertex color rendering
	SLSF2_GLOW_MAP = 1 << 6,					// Use glow map in the third texture slot
	SLSF2_ASSUME_SHADOWMASK = 1 << 7,
	SLSF2_PACKED_TANGENT = 1 << 8,
	SLSF2_MULTI_INDEX_SNOW = 1 << 9,
	SLSF2_VERTEX_LIGHTING = 1 << 10,
	SLSF2_UNIFORM_SCALE = 1 << 11,
	SLSF2_FIT_SLOPE = 1 << 12,
	SLSF2_BILLBOARD = 1 << 13,
	SLSF2_NO_LOD_LAND_BLEND = 1 << 14,
	SLSF2_ENVMAP_LIGHT_FADE = 1 << 15,
	SLSF2_WIREFRAME = 1 << 16,
	SLSF2_WEAPON_BLODD = 1 << 17,				// Used for blood decals on weapons
	SLSF2_HIDE_ON_LOCAL_MAP = 1 << 18,			// Similar to hide secret, but only for self?
	SLSF2_PREMULT_ALPHA = 1 << 19,				// Has premultiplied alpha
	SLSF2_CLOUD_LOD = 1 << 20,
	SLSF2_ANISOTROPIC_LIGHTING = 1 << 21,		// Hair only?
	SLSF2_NO_TRANSPARENCY_MULTISAMPLING = 1 << 22,
	SLSF2_UNUSED01 = 1 << 23,
	SLSF2_MULTI_LAYER_PARALLAX = 1 << 24,		// Use multilayer (inner-layer) map
	SLSF2_SOFT_LIGHTING = 1 << 25,				// Use soft lighting map
	SLSF2_RIM_LIGHTING = 1 << 26,				// Use rim lighting map
	SLSF2_BACK_LIGHTING = 1 << 27,				// Use back lighting map
	SLSF2_UNUSED02 = 1 << 28,
	SLSF2_TREE_ANIM = 1 << 29,					// Enables vertex animation, flutter animation
	SLSF2_EFFECT_LIGHTING = 1 << 30,
	SLSF2_HD_LOD_OBJECTS = static_cast<uint32_t>(1) << 31
};

enum Fallout4ShaderPropertyFlags1 : uint32_t {
	F4SF1_SPECULAR = 1 << 0,					// Enables specularity
	F4SF1_SKINNED = 1 << 1,						// Required for skinned meshes
	F4SF1_TEMP_REFRACTION = 1 << 2,
	F4SF1_VERTEX_ALPHA = 1 << 3,				// Enables using alpha component of vertex colors
	F4SF1_GREYSCALETOPALETTE_COLOR = 1 << 4,	// For effect shader property
	F4SF1_GREYSCALETOPALETTE_ALPHA = 1 << 5,	// For effect shader property
	F4SF1_USE_FALLOFF = 1 << 6,					// Use falloff value in effect shader property
	F4SF1_ENVIRONMENT_MAPPING = 1 << 7,			// Enables environment mapping (uses environment map scale)
	F4SF1_RGB_FALLOFF = 1 << 8,
	F4SF1_CAST_SHADOWS = 1 << 9,				// Can cast shadows
	F4SF1_FACE = 1 << 10,
	F4SF1_UI_MASK_RECTS = 1 << 11,
	F4SF1_MODEL_SPACE_NORMALS = 1 << 12,
	F4SF1_NON_PROJECTIVE_SHADOWS = 1 << 13,
	F4SF1_LANDSCAPE = 1 << 14,
	F4SF1_REFRACTION = 1 << 15,
	F4SF1_FIRE_REFRACTION = 1 << 16,
	F4SF1_EYE_ENVIRONMENT_MAPPING = 1 << 17,
	F4SF1_HAIR = 1 << 18,
	F4SF1_SCREENDOOR_ALPHA_FADE = 1 << 19,
	F4SF1_LOCALMAP_HIDE_SECRET = 1 << 20,
	F4SF1_SKIN_TINT = 1 << 21,
	F4SF1_OWN_EMIT = 1 << 22,
	F4SF1_PROJECTED_UV = 1 << 23,				// Used for decalling?
	F4SF1_MULTIPLE_TEXTURES = 1 << 24,
	F4SF1_TESSELLATE = 1 << 25,
	F4SF1_DECAL = 1 << 26,
	F4SF1_DYNAMIC_DECAL = 1 << 27,
	F4SF1_CHARACTER_LIGHTING = 1 << 28,
	F4SF1_EXTERNAL_EMITTANCE = 1 << 29,
	F4SF1_SOFT_EFFECT = 1 << 30,
	F4SF1_ZBUFFER_TEST = static_cast<uint32_t>(1) << 31				// Enables Z-Buffer testing
};

enum Fallout4ShaderPropertyFlags2 : uint32_t {
	F4SF2_ZBUFFER_WRITE = 1 << 0,				// Enables writing to the Z-Buffer
	F4SF2_LOD_LANDSCAPE = 1 << 1,
	F4SF2_LOD_OBJECTS = 1 << 2,
	F4SF2_NO_FADE = 1 << 3,
	F4SF2_DOUBLE_SIDED = 1 << 4,				// Enables double-sided rendering
	F4SF2_VERTEX_COLORS = 1 << 5,				// Enables vertex color rendering
	F4SF2_GLOW_MAP = 1 << 6,
	F4SF2_TRANSFORM_CHANGED = 1 << 7,
	F4SF2_DISMEMBERMENT_MEATCUFF = 1 << 8,
	F4SF2_TINT = 1 << 9,
	F4SF2_GRASS_VERTEX_LIGHTING = 1 << 10,
	F4SF2_GRASS_UNIFORM_SCALE = 1 << 11,
	F4SF2_GRASS_FIT_SLOPE = 1 << 12,
	F4SF2_GRASS_BILLBOARD = 1 << 13,
	F4SF2_NO_LOD_LAND_BLEND = 1 << 14,
	F4SF2_DISMEMBERMENT = 1 << 15,
	F4SF2_WIREFRAME = 1 << 16,
	F4SF2_WEAPON_BLODD = 1 << 17,
	F4SF2_HIDE_ON_LOCAL_MAP = 1 << 18,
	F4SF2_PREMULT_ALPHA = 1 << 19,
	F4SF2_VATS_TARGET = 1 << 20,
	F4SF2_ANISOTROPIC_LIGHTING = 1 << 21,
	F4SF2_SKEW_SPECULAR_ALPHA = 1 << 22,
	F4SF2_MENU_SCREEN = 1 << 23,
	F4SF2_MULTI_LAYER_PARALLAX = 1 << 24,
	F4SF2_ALPHA_TEST = 1 << 25,
	F4SF2_GRADIENT_REMAP = 1 << 26,
	F4SF2_VATS_TARGET_DRAW_ALL = 1 << 27,
	F4SF2_PIPBOY_SCREEN = 1 << 28,
	F4SF2_TREE_ANIM = 1 << 29,
	F4SF2_EFFECT_LIGHTING = 1 << 30,
	F4SF2_REFRACTION_WRITES_DEPTH = static_cast<uint32_t>(1) << 31
};

class NiProperty : public NiCloneable<NiProperty, NiObjectNET> {};

class NiShadeProperty : public NiCloneableStreamable<NiShadeProperty, NiProperty> {
public:
	uint16_t flags = 0;

	static constexpr const char* BlockName = "NiShadeProperty";
	const char* GetBlockName() override { return BlockName; }

	void Sync(NiStreamReversible& stream);
};

class NiSpecularProperty : public NiCloneableStreamable<NiSpecularProperty, NiProperty> {
public:
	uint16_t flags = 0;

	static constexpr const char* BlockName = "NiSpecularProperty";
	const char* GetBlockName() override { return BlockName; }

	void Sync(NiStreamReversible& stream);
};

struct TexTransform {
	Vector2 translation;
	Vector2 scale;
	float wRotation = 0.0f;
	uint32_t transformType = 0;
	Vector2 center;
};

class TexDesc {
public:
	NiBlockRef<NiSourceTexture> sourceRef;
	TexClampMode clampMode = TexClampMode::WRAP_S_WRAP_T;
	TexFilterMode filterMode = TexFilterMode::FILTER_TRILERP;
	uint16_t flags = 0; // TexturingMapFlags
	uint16_t maxAnisotropy = 0;
	uint32_t uvSet = 0;
	int16_t ps2_l = 0;
	int16_t ps2_k = -75;
	bool hasTexTransform = false;
	TexTransform transform;

	void Sync(NiStreamReversible& stream) {
		const NiFileVersion fileVersion = stream.GetVersion().File();

		if (fileVersion >= NiFileVersion::V3_3_0_13)
			sourceRef.Sync(stream);

		if (fileVersion <= NiFileVersion::V20_0_0_5) {
			stream.Sync(clampMode);
			stream.Sync(filterMode);
			stream.Sync(uvSet);

			if (fileVersion < NiFileVersion::V10_4_0_1) {
				stream.Sync(ps2_l);
				stream.Sync(ps2_k);
			}
		}

		if (fileVersion >= NiFileVersion::V20_1_0_3)
			stream.Sync(flags);

		if (fileVersion >= NiVersion::ToFile(20, 5, 0, 4))
			stream.Sync(maxAnisotropy);

		if (fileVersion >= NiFileVersion::V10_1_0_0) {
			stream.Sync(hasTexTransform);

			if (hasTexTransform)
				stream.Sync(transform);
		}
	}

	void GetChildRefs(std::set<NiRef*>& refs) { refs.insert(&sourceRef); }
	void GetChildIndices(std::vector<uint32_t>& indices) { indices.push_back(sourceRef.index); }
};

class ShaderTexDesc {
public:
	bool isUsed = false;
	TexDesc data;
	uint32_t mapIndex = 0;

	void Sync(NiStreamReversible& stream) {
		stream.Sync(isUsed);

		if (isUsed) {
			data.Sync(stream);
			stream.Sync(mapIndex);
		}
	}

	void GetChildRefs(std::set<NiRef*>& refs) { data.GetChildRefs(refs); }
	void GetChildIndices(std::vector<uint32_t>& indices) { data.GetChildIndices(indices); }
};

class NiTexturingProperty : public NiCloneableStreamable<NiTexturingProperty, NiProperty> {
public:
	uint16_t flags = 0;
	uint32_t applyMode = 2;
	uint32_t textureCount = 7;

	bool hasBaseTex = false;
	TexDesc baseTex;

	bool hasDarkTex = false;
	TexDesc darkTex;

	bool hasDetailTex = false;
	TexDesc detailTex;

	bool hasGlossTex = false;
	TexDesc glossTex;

	bool hasGlowTex = false;
	TexDesc glowTex;

	bool hasBumpTex = false;
	TexDesc bumpTex;
	float lumaScale = 1.0f;
	float lumaOffset = 0.0f;
	Vector4 bumpMatrix;

	bool hasNormalTex = false;
	TexDesc normalTex;

	bool hasParallaxTex = false;
	TexDesc parallaxTex;
	float parallaxOffset = 0.0f;

	bool hasDecalTex0 = false;
	TexDesc decalTex0;

	bool hasDecalTex1 = false;
	TexDesc decalTex1;

	bool hasDecalTex2 = false;
	TexDesc decalTex2;

	bool hasDecalTex3 = false;
	TexDesc decalTex3;

	NiSyncVector<ShaderTexDesc> shaderTex;

	static constexpr const char* BlockName = "NiTexturingProperty";
	const char* GetBlockName() override { return BlockName; }

	void Sync(NiStreamReversible& stream);
	void GetChildRefs(std::set<NiRef*>& refs) override;
	void GetChildIndices(std::vector<uint32_t>& indices) override;
};

class NiVertexColorProperty : public NiCloneableStreamable<NiVertexColorProperty, NiProperty> {
public:
	uint16_t flags = 0;
	uint32_t vertexMode = 0;
	uint32_t lightingMode = 0;

	static constexpr const char* BlockName = "NiVertexColorProperty";
	const char* GetBlockName() override { return BlockName; }

	void Sync(NiStreamReversible& stream);
};

class NiDitherProperty : public NiCloneableStreamable<NiDitherProperty, NiProperty> {
public:
	uint16_t flags = 0;

	static constexpr const char* BlockName = "NiDitherProperty";
	const char* GetBlockName() override { return BlockName; }

	void Sync(NiStreamReversible& stream);
};

class NiFogProperty : public NiCloneableStreamable<NiFogProperty, NiProperty> {
public:
	uint16_t flags = 0;
	float fogDepth = 1.0f;
	Color3 fogColor;

	static constexpr const char* BlockName = "NiFogProperty";
	const char* GetBlockName() override { return BlockName; }

	void Sync(NiStreamReversible& stream);
};

class NiWireframeProperty : public NiCloneableStreamable<NiWireframeProperty, NiProperty> {
public:
	uint16_t flags = 0;

	static constexpr const char* BlockName = "NiWireframeProperty";
	const char* GetBlockName() override { return BlockName; }

	void Sync(NiStreamReversible& stream);
};

enum TestFunction : uint32_t {
	TEST_ALWAYS,
	TEST_LESS,
	TEST_EQUAL,
	TEST_LESS_EQUAL,
	TEST_GREATER,
	TEST_NOT_EQUAL,
	TEST_GREATER_EQUAL,
	TEST_NEVER
};

class NiZBufferProperty : public NiCloneableStreamable<NiZBufferProperty, NiProperty> {
public:
	uint16_t flags = 3;
	TestFunction testFunction = TEST_LESS_EQUAL;

	static constexpr const char* BlockName = "NiZBufferProperty";
	const char* GetBlockName() override { return BlockName; }

	void Sync(NiStreamReversible& stream);
};

class BSShaderTextureSet : public NiCloneableStreamable<BSShaderTextureSet, NiObject> {
public:
	NiStringVector<> textures = NiStringVector<>(13);

	BSShaderTextureSet() {}
	BSShaderTextureSet(NiVersion& version);

	static constexpr const char* BlockName = "BSShaderTextureSet";
	const char* GetBlockName() override { return BlockName; }

	void Sync(NiStreamReversible& stream);
};

class NiShader : public NiCloneable<NiShader, NiProperty> {
public:
	virtual bool HasTextureSet() const { return false; }
	virtual NiBlockRef<BSShaderTextureSet>* TextureSetRef() { return nullptr; }
	virtual const NiBlockRef<BSShaderTextureSet>* TextureSetRef() const { return nullptr; }

	virtual bool IsSkinTinted() const { return false; }
	virtual bool IsFaceTinted() const { return false; }
	virtual bool IsSkinned() const { return false; }
	virtual void SetSkinned(const bool) {}
	virtual bool IsDoubleSided() const { return false; }
	virtual void SetDoubleSided(const bool) {}
	virtual bool IsModelSpace() const { return false; }
	virtual bool IsEmissive() const { return false; }
	virtual bool HasSpecular() const { return true; }
	virtual bool HasVertexColors() const { return false; }
	virtual void SetVertexColors(const bool) {}
	virtual bool HasVertexAlpha() const { return false; }
	virtual void SetVertexAlpha(const bool) {}
	virtual bool HasBacklight() const { return false; }
	virtual bool HasRimlight() const { return false; }
	virtual bool HasSoftlight() const { return false; }
	virtual bool HasGlowmap() const { return false; }
	virtual bool HasGreyscaleColor() const { return false; }
	virtual bool HasEnvironmentMapping() const { return false; }
	virtual void SetEnvironmentMapping(const bool) {}
	virtual uint32_t GetShaderType() const { return 0; }
	virtual void SetShaderType(const uint32_t) {}
	virtual Vector2 GetUVOffset() const { return Vector2(); }
	virtual Vector2 GetUVScale() const { return Vector2(1.0f, 1.0f); }
	virtual Vector3 GetSpecularColor() const { return Vector3(); }
	virtual void SetSpecularColor(const Vector3&) {}
	virtual float GetSpecularStrength() const { return 0.0f; }
	virtual void SetSpecularStrength(const float) {}
	virtual float GetGlossiness() const { return 0.0f; }
	virtual void SetGlossiness(const float) {}
	virtual float GetEnvironmentMapScale() const { return 0.0f; }
	virtual Color4 GetEmissiveColor() const { return Color4(); }
	virtual void SetEmissiveColor(const Color4&) {}
	virtual float GetEmissiveMultiple() const { return 0.0f; }
	virtual void SetEmissiveMultiple(const float) {}
	virtual float GetAlpha() const { return 1.0f; }
	virtual void SetAlpha(const float) {}
	virtual float GetBacklightPower() const { return 0.0f; }
	virtual float GetRimlightPower() const { return 2.0f; }
	virtual float GetSoftlight() const { return 0.3f; }
	virtual float GetSubsurfaceRolloff() const { return 0.3f; }
	virtual float GetGrayscaleToPaletteScale() const { return 1.0; }
	virtual float GetFresnelPower() const { return 5.0f; }
	virtual std::string GetWetMaterialName() const { return std::string(); }
	virtual void SetWetMaterialName(const std::string&) {}
};

class BSShaderProperty : public NiCloneableStreamable<BSShaderProperty, NiShader> {
public:
	uint16_t shaderFlags = 1;
	BSShaderType shaderType = SHADER_DEFAULT;
	uint32_t shaderFlags1 = 0x82000000;
	uint32_t shaderFlags2 = 1;
	float environmentMapScale = 1.0f;

	uint32_t numSF1 = 0;
	uint32_t numSF2 = 0;
	std::vector<uint32_t> SF1;
	std::vector<uint32_t> SF2;

	Vector2 uvOffset;
	Vector2 uvScale = Vector2(1.0f, 1.0f);

	void Sync(NiStreamReversible& stream);

	uint32_t GetShaderType() const override;
	void SetShaderType(const uint32_t type) override;
	bool IsSkinTinted() const override;
	bool IsFaceTinted() const override;
	bool IsSkinned() const override;
	void SetSkinned(const bool enable) override;
	bool IsDoubleSided() const override;
	void SetDoubleSided(const bool enable) override;
	bool IsModelSpace() const override;
	bool IsEmissive() const override;
	bool HasSpecular() const override;
	bool HasVertexColors() const override;
	void SetVertexColors(const bool enable) override;
	bool HasVertexAlpha() const override;
	void SetVertexAlpha(const bool enable) override;
	bool HasBacklight() const override;
	bool HasRimlight() const override;
	bool HasSoftlight() const override;
	bool HasGlowmap() const override;
	bool HasGreyscaleColor() const override;
	bool HasEnvironmentMapping() const override;
	void SetEnvironmentMapping(const bool enable) override;
	float GetEnvironmentMapScale() const override;
	Vector2 GetUVOffset() const override;
	Vector2 GetUVScale() const override;
};

class WaterShaderProperty : public NiCloneable<WaterShaderProperty, BSShaderProperty> {
public:
	static constexpr const char* BlockName = "WaterShaderProperty";
	const char* GetBlockName() override { return BlockName; }
};

class HairShaderProperty : public NiCloneable<HairShaderProperty, BSShaderProperty> {
public:
	static constexpr const char* BlockName = "HairShaderProperty";
	const char* GetBlockName() override { return BlockName; }
};

class DistantLODShaderProperty : public NiCloneable<DistantLODShaderProperty, BSShaderProperty> {
public:
	static constexpr const char* BlockName = "DistantLODShaderProperty";
	const char* GetBlockName() override { return BlockName; }
};

class BSDistantTreeShaderProperty : public NiCloneable<BSDistantTreeShaderProperty, BSShaderProperty> {
public:
	static constexpr const char* BlockName = "BSDistantTreeShaderProperty";
	const char* GetBlockName() override { return BlockName; }
};

class TallGrassShaderProperty : public NiCloneableStreamable<TallGrassShaderProperty, BSShaderProperty> {
public:
	NiString fileName;

	static constexpr const char* BlockName = "TallGrassShaderProperty";
	const char* GetBlockName() override { return BlockName; }

	void Sync(NiStreamReversible& stream);
};

class VolumetricFogShaderProperty : public NiCloneable<VolumetricFogShaderProperty, BSShaderProperty> {
public:
	static constexpr const char* BlockName = "VolumetricFogShaderProperty";
	const char* GetBlockName() override { return BlockName; }
};

class BSLightingShaderProperty : public NiCloneableStreamable<BSLightingShaderProperty, BSShaderProperty> {
public:
	NiBlockRef<BSShaderTextureSet> textureSetRef;

	Vector3 emissiveColor;
	float emissiveMultiple = 1.0f;
	NiStringRef rootMaterialName;
	float unkFloat = 0.0f;
	uint32_t textureClampMode = 3;
	float alpha = 1.0f;
	float refractionStrength = 0.0f;
	float glossiness = 1.0f;
	Vector3 specularColor = Vector3(1.0f, 1.0f, 1.0f);
	float specularStrength = 1.0f;
	float softlighting = 0.3f;
	float rimlightPower = 2.0f;

	float subsurfaceRolloff = 0.3f;
	float rimlightPower2 = NiFloatMax;
	float backlightPower = 0.0f;
	float grayscaleToPaletteScale = 1.0f;
	float fresnelPower = 5.0f;
	float wetnessSpecScale = 0.6f;
	float wetnessSpecPower = 1.4f;
	float wetnessMinVar = 0.2f;
	float wetnessEnvmapScale = 1.0f;
	float wetnessFresnelPower = 1.6f;
	float wetnessMetalness = 0.0f;
	float wetnessUnknown1 = 0.0f;
	float wetnessUnknown2 = 0.0f;

	float lumEmittance = 100.0f;
	float exposureOffset = 13.5f;
	float finalExposureMin = 2.0f;
	float finalExposureMax = 3.0f;

	bool doTranslucency = false;
	Color3 subsurfaceColor;
	float transmissiveScale = 1.0f;
	float turbulence = 0.0f;
	bool thickObject = false;
	bool mixAlbedo = false;

	bool hasTextureArrays = false;
	uint32_t numTextureArrays = 0;
	std::vector<BSTextureArray> textureArrays;

	float unkFloat1 = 0.0f;
	float unkFloat2 = 0.0f;
	uint16_t unkShort1 = 0;

	bool useSSR = false;
	bool wetnessUseSSR = false;
	Vector3 skinTintColor = Vector3(1.0f,
									1.0f,
									1.0f);
	float skinTintAlpha = 0.0f;
	Vector3 hairTintColor = Vector3(1.0f,
									1.0f,
									1.0f);
	float maxPasses = 1.0f;
	float scale = 1.0f;
	float parallaxInnerLayerThickness = 0.0f;
	float parallaxRefractionScale = 1.0f;
	Vector2 parallaxInnerLayerTextureScale = Vector2(1.0f, 1.0f);
	float parallaxEnvmapStrength = 1.0f;
	Color4 sparkleParameters;
	float eyeCubemapScale = 1.0f;
	Vector3 eyeLeftReflectionCenter;
	Vector3 eyeRightReflectionCenter;

	BSLightingShaderProperty();
	BSLightingShaderProperty(NiVersion& version);

	static constexpr const char* BlockName = "BSLightingShaderProperty";
	const char* GetBlockName() override { return BlockName; }

	void Sync(NiStreamReversible& stream);
	void GetStringRefs(std::vector<NiStringRef*>& refs) override;
	void GetChildRefs(std::set<NiRef*>& refs) override;
	void GetChildIndices(std::vector<uint32_t>& indices) override;

	bool HasTextureSet() const override { return !textureSetRef.IsEmpty(); }
	NiBlockRef<BSShaderTextureSet>* TextureSetRef() override { return &textureSetRef; }
	const NiBlockRef<BSShaderTextureSet>* TextureSetRef() const override { return &textureSetRef; }

	bool IsSkinTinted() const override;
	bool IsFaceTinted() const override;
	bool HasGlowmap() const override;
	bool HasEnvironmentMapping() const override;
	uint32_t GetShaderType() const override;
	void SetShaderType(const uint32_t type) override;
	Vector3 GetSpecularColor() const override;
	void SetSpecularColor(const Vector3& color) override;
	float GetSpecularStrength() const override;
	void SetSpecularStrength(const float strength) override;
	float GetGlossiness() const override;
	void SetGlossiness(const float gloss) override;
	Color4 GetEmissiveColor() const override;
	void SetEmissiveColor(const Color4& color) override;
	float GetEmissiveMultiple() const override;
	void SetEmissiveMultiple(const float emissive) override;
	float GetAlpha() const override;
	void SetAlpha(const float alphaValue) override;
	float GetBacklightPower() const override;
	float GetRimlightPower() const override;
	float GetSoftlight() const override;
	float GetSubsurfaceRolloff() const override;
	float GetGrayscaleToPaletteScale() const override;
	float GetFresnelPower() const override;
	std::string GetWetMaterialName() const override;
	void SetWetMaterialName(const std::string& matName) override;
};

class BSEffectShaderProperty : public NiCloneableStreamable<BSEffectShaderProperty, BSShaderProperty> {
public:
	NiString sourceTexture;
	float unkFloat = 0.0f;
	uint32_t textureClampMode = 0;
	float falloffStartAngle = 1.0f;
	float falloffStopAngle = 1.0f;
	float falloffStartOpacity = 0.0f;
	float falloffStopOpacity = 0.0f;
	float refractionPower = 0.0f;
	Color4 baseColor;
	float baseColorScale = 1.0f;
	float softFalloffDepth = 0.0f;
	NiString greyscaleTexture;

	NiString envMapTexture;
	NiString normalTexture;
	NiString envMaskTexture;
	float envMapScale = 1.0f;

	NiString reflectanceTexture;
	NiString lightingTexture;
	Color3 emittanceColor;
	NiString emitGradientTexture;

	float lumEmittance = 100.0f;
	float exposureOffset = 13.5f;
	float finalExposureMin = 2.0f;
	float finalExposureMax = 3.0f;

	uint8_t unkBytes[7]{};
	float unkFloats[6]{};
	uint8_t unkByte1 = 0;

	static constexpr const char* BlockName = "BSEffectShaderProperty";
	const char* GetBlockName() override { return BlockName; }

	void Sync(NiStreamReversible& stream);

	float GetEnvironmentMapScale() const override;
	Color4 GetEmissiveColor() const override;
	void SetEmissiveColor(const Color4& color) override;
	float GetEmissiveMultiple() const override;
	void SetEmissiveMultiple(const float emissive) override;
};

class BSWaterShaderProperty : public NiCloneableStreamable<BSWaterShaderProperty, BSShaderProperty> {
public:
	uint32_t waterFlags = 0;

	static constexpr const char* BlockName = "BSWaterShaderProperty";
	const char* GetBlockName() override { return BlockName; }

	void Sync(NiStreamReversible& stream);
};

class BSSkyShaderProperty : public NiCloneableStreamable<BSSkyShaderProperty, BSShaderProperty> {
public:
	NiString baseTexture;
	uint32_t skyFlags = 0;

	static constexpr const char* BlockName = "BSSkyShaderProperty";
	const char* GetBlockName() override { return BlockName; }

	void Sync(NiStreamReversible& stream);
};

class BSShaderLightingProperty : public NiCloneableStreamable<BSShaderLightingProperty, BSShaderProperty> {
public:
	uint32_t textureClampMode = 3; // User Version <= 11

	void Sync(NiStreamReversible& stream);
};

enum SkyObjectType : uint32_t {
	BSSM_SKY_TEXTURE,
	BSSM_SKY_SUNGLARE,
	BSSM_SKY,
	BSSM_SKY_CLOUDS,
	BSSM_SKY_STARS = 5,
	BSSM_SKY_MOON_STARS_MASK = 7
};

class SkyShaderProperty : public NiCloneableStreamable<SkyShaderProperty, BSShaderLightingProperty> {
public:
	NiString fileName;
	SkyObjectType skyObjectType = BSSM_SKY_TEXTURE;

	static constexpr const char* BlockName = "SkyShaderProperty";
	const char* GetBlockName() override { return BlockName; }

	void Sync(NiStreamReversible& stream);
};

class TileShaderProperty : public NiCloneableStreamable<TileShaderProperty, BSShaderLightingProperty> {
public:
	NiString fileName;

	static constexpr const char* BlockName = "TileShaderProperty";
	const char* GetBlockName() override { return BlockName; }

	void Sync(NiStreamReversible& stream);
};

class BSShaderNoLightingProperty
	: public NiCloneableStreamable<BSShaderNoLightingProperty, BSShaderLightingProperty> {
public:
	NiString baseTexture;
	float falloffStartAngle = 1.0f;	  // User Version 2 > 26
	float falloffStopAngle = 0.0f;	  // User Version 2 > 26
	float falloffStartOpacity = 1.0f; // User Version 2 > 26
	float falloffStopOpacity = 1.0f;  // User Version 2 > 26

	static constexpr const char* BlockName = "BSShaderNoLightingProperty";
	const char* GetBlockName() override { return BlockName; }

	void Sync(NiStreamReversible& stream);

	bool IsSkinned() const override;
	void SetSkinned(const bool enable) override;
};

class BSShaderPPLightingProperty
	: public NiCloneableStreamable<BSShaderPPLightingProperty, BSShaderLightingProperty> {
public:
	NiBlockRef<BSShaderTextureSet> textureSetRef;

	float refractionStrength = 0.0f; // User Version == 11 && User Version 2 > 14
	int refractionFirePeriod = 0;	 // User Version == 11 && User Version 2 > 14
	float parallaxMaxPasses = 4.0f;	 // User Version == 11 && User Version 2 > 24
	float parallaxScale = 1.0f;		 // User Version == 11 && User Version 2 > 24
	Color4 emissiveColor;			 // User Version >= 12

	static constexpr const char* BlockName = "BSShaderPPLightingProperty";
	const char* GetBlockName() override { return BlockName; }

	void Sync(NiStreamReversible& stream);
	void GetChildRefs(std::set<NiRef*>& refs) override;
	void GetChildIndices(std::vector<uint32_t>& indices) override;

	bool HasTextureSet() const override { return !textureSetRef.IsEmpty(); }
	NiBlockRef<BSShaderTextureSet>* TextureSetRef() override { return &textureSetRef; }
	const NiBlockRef<BSShaderTextureSet>* TextureSetRef() const override { return &textureSetRef; }

	bool IsSkinned() const override;
	void SetSkinned(const bool enable) override;
};

class Lighting30ShaderProperty : public NiCloneable<Lighting30ShaderProperty, BSShaderPPLightingProperty> {
public:
	static constexpr const char* BlockName = "Lighting30ShaderProperty";
	const char* GetBlockName() override { return BlockName; }
};

class NiAlphaProperty : public NiCloneableStreamable<NiAlphaProperty, NiProperty> {
public:
	uint16_t flags = 4844;
	uint8_t threshold = 128;

	static constexpr const char* BlockName = "NiAlphaProperty";
	const char* GetBlockName() override { return BlockName; }

	void Sync(NiStreamReversible& stream);
};


class NiMaterialProperty : public NiCloneableStreamable<NiMaterialProperty, NiShader> {
protected:
	uint16_t legacyFlags = 0;
	Vector3 colorSpecular = Vector3(1.0f, 1.0f, 1.0f);
	Vector3 colorEmissive;
	float glossiness = 10.0f;
	float alpha = 1.0f;
	float emitMulti = 1.0f;

public:
	Vector3 colorAmbient = Vector3(1.0f, 1.0f, 1.0f);
	Vector3 colorDiffuse = Vector3(1.0f, 1.0f, 1.0f);

	static constexpr const char* BlockName = "NiMaterialProperty";
	const char* GetBlockName() override { return BlockName; }

	void Sync(NiStreamReversible& stream);

	bool IsEmissive() const override;
	bool HasSpecular() const override;
	void SetSpecularColor(const Vector3& color) override;
	Vector3 GetSpecularColor() const override;
	float GetGlossiness() const override;
	void SetGlossiness(const float gloss) override;
	Color4 GetEmissiveColor() const override;
	void SetEmissiveColor(const Color4& color) override;
	float GetEmissiveMultiple() const override;
	void SetEmissiveMultiple(const float emissive) override;
	float GetAlpha() const override;
	void SetAlpha(const float alpha) override;
};

enum StencilMasks {
	ENABLE_MASK = 0x0001,
	FAIL_MASK = 0x000E,
	FAIL_POS = 1,
	ZFAIL_MASK = 0x0070,
	ZFAIL_POS = 4,
	ZPASS_MASK = 0x0380,
	ZPASS_POS = 7,
	DRAW_MASK = 0x0C00,
	DRAW_POS = 10,
	TEST_MASK = 0x7000,
	TEST_POS = 12
};

enum DrawMode { DRAW_CCW_OR_BOTH, DRAW_CCW, DRAW_CW, DRAW_BOTH, DRAW_MAX };

class NiStencilProperty : public NiCloneableStreamable<NiStencilProperty, NiProperty> {
public:
	uint16_t legacyFlags = 0;
	uint16_t flags = 19840;
	bool stencilEnabled = false;
	uint32_t stencilFunction = 0;
	uint32_t stencilRef = 0;
	uint32_t stencilMask = 0xFFFFFFFF;
	uint32_t failAction = 0;
	uint32_t zFailAction = 0;
	uint32_t passAction = 0;
	uint32_t drawMode = 3;

	static constexpr const char* BlockName = "NiStencilProperty";
	const char* GetBlockName() override { return BlockName; }

	void Sync(NiStreamReversible& stream);
};
} // namespace nifly
