/*
nifly
C++ NIF library for the Gamebryo/NetImmerse File Format
See the included GPLv3 LICENSE file
*/

#pragma once

#include "BasicTypes.hpp"
#include "Objects.hpp"
#include "Shaders.hpp"
#include "Skin.hpp"
#include "VertexData.hpp"

#include <deque>

namespace nifly {
struct AdditionalDataInfo {
	int dataType = 0;
	uint32_t numChannelBytesPerElement = 0;
	uint32_t numChannelBytes = 0;
	uint32_t numTotalBytesPerElement = 0;
	uint32_t blockIndex = 0;
	uint32_t channelOffset = 0;
	uint8_t unkByte1 = 2;

	void Sync(NiStreamReversible& stream) {
		stream.Sync(dataType);
		stream.Sync(numChannelBytesPerElement);
		stream.Sync(numChannelBytes);
		stream.Sync(numTotalBytesPerElement);
		stream.Sync(blockIndex);
		stream.Sync(channelOffset);
		stream.Sync(unkByte1);
	}
};

struct AdditionalDataBlock {
	bool hasData = false;
	uint32_t blockSize = 0;

	uint32_t numBlocks = 0;
	std::vector<uint32_t> blockOffsets;

	uint32_t numData = 0;
	std::vector<uint32_t> dataSizes;
	std::vector<std::vector<uint8_t>> data;

	void Sync(NiStreamReversible& stream) {
		stream.Sync(hasData);

		if (hasData) {
			stream.Sync(blockSize);

			stream.Sync(numBlocks);
			blockOffsets.resize(numBlocks);
			for (uint32_t i = 0; i < numBlocks; i++)
				stream.Sync(blockOffsets[i]);

			stream.Sync(numData);
			dataSizes.resize(numData);
			for (uint32_t i = 0; i < numData; i++)
				stream.Sync(dataSizes[i]);

			data.resize(numData);
			for (uint32_t i = 0; i < numData; i++) {
				data[i].resize(blockSize);
				for (uint32_t j = 0; j < blockSize; j++)
					stream.Sync(data[i][j]);
			}
		}
	}
};

class AdditionalGeomData : public NiCloneable<AdditionalGeomData, NiObject> {};

class NiAdditionalGeometryData : public NiCloneableStreamable<NiAdditionalGeometryData, AdditionalGeomData> {
public:
	uint16_t numVertices = 0;
	NiSyncVector<AdditionalDataInfo> blockInfos;
	NiSyncVector<AdditionalDataBlock> blocks;

	static constexpr const char* BlockName = "NiAdditionalGeometryData";
	const char* GetBlockName() override { return BlockName; }

	void Sync(NiStreamReversible& stream);
};

struct BSPackedAdditionalDataBlock {
	bool hasData = false;
	uint32_t numTotalBytes = 0;

	uint32_t numBlocks = 0;
	std::vector<uint32_t> blockOffsets;

	uint32_t numAtoms = 0;
	std::vector<uint32_t> atomSizes;
	std::vector<uint8_t> data;

	uint32_t unkInt1 = 0;
	uint32_t numTotalBytesPerElement = 0;

	void Sync(NiStreamReversible& stream) {
		stream.Sync(hasData);

		if (hasData) {
			stream.Sync(numTotalBytes);

			stream.Sync(numBlocks);
			blockOffsets.resize(numBlocks);
			for (uint32_t i = 0; i < numBlocks; i++)
				stream.Sync(blockOffsets[i]);

			stream.Sync(numAtoms);
			atomSizes.resize(numAtoms);
			for (uint32_t i = 0; i < numAtoms; i++)
				stream.Sync(atomSizes[i]);

			data.resize(numTotalBytes);
			for (uint32_t i = 0; i < numTotalBytes; i++)
				stream.Sync(data[i]);
		}

		stream.Sync(unkInt1);
		stream.Sync(numTotalBytesPerElement);
	}
};

class BSPackedAdditionalGeometryData
	: public NiCloneableStreamable<BSPackedAdditionalGeometryData, AdditionalGeomData> {
public:
	uint16_t numVertices = 0;
	NiSyncVector<AdditionalDataInfo> blockInfos;
	NiSyncVector<BSPackedAdditionalDataBlock> blocks;

	static constexpr const char* BlockName = "BSPackedAdditionalGeometryData";
	const char* GetBlockName() override { return BlockName; }

	void Sync(NiStreamReversible& stream);
};

enum ConsistencyType : uint16_t { CT_MUTABLE = 0x0000, CT_STATIC = 0x4000, CT_VOLATILE = 0x8000 };

class NiGeometryData : public NiCloneableStreamable<NiGeometryData, NiObject> {
protected:
	bool isPSys = false;

	uint16_t numVertices = 0;
	bool hasVertices = true;
	bool hasNormals = false;
	bool hasVertexColors = false;
	BoundingSphere bounds;

public:
	std::vector<Vector3> vertices;
	std::vector<Vector3> normals;
	std::vector<Vector3> tangents;
	std::vector<Vector3> bitangents;
	std::vector<Color4> vertexColors;

	int groupID = 0;
	uint8_t compressFlags = 0;
	uint32_t materialCRC = 0;

	uint8_t keepFlags = 0;
	uint16_t dataFlags = 0;
	std::vector<std::vector<Vector2>> uvSets;

	ConsistencyType consistencyFlags = CT_MUTABLE;
	NiBlockRef<AdditionalGeomData> additionalDataRef;

	void Sync(NiStreamReversible& stream);
	void GetChildRefs(std::set<NiRef*>& refs) override;
	void GetChildIndices(std::vector<uint32_t>& indices) override;

	void notifyVerticesDelete(const std::vector<uint16_t>& vertIndices) override;

	uint16_t GetNumVertices() const;
	void SetVertices(const bool enable);
	bool HasVertices() const { return hasVertices; }

	void SetNormals(const bool enable);
	bool HasNormals() const { return hasNormals; }

	void SetVertexColors(const bool enable);
	bool HasVertexColors() const { return hasVertexColors; }

	void SetUVs(const bool enable);
	bool HasUVs() const { return (dataFlags & (1 << 0)) != 0; }

	void SetTangents(const bool enable);
	bool HasTangents() const { return (dataFlags & (1 << 12)) != 0; }

	virtual uint32_t GetNumTriangles() const;
	virtual bool GetTriangles(std::vector<Triangle>& tris) const;
	virtual void SetTriangles(const std::vector<Triangle>& tris);

	void SetBounds(const BoundingSphere& newBounds) { this->bounds = newBounds; }
	BoundingSphere GetBounds() const { return bounds; }
	void UpdateBounds();

	virtual void Create(NiVersion& version,
						const std::vector<Vector3>* verts,
						const std::vector<Triangle>* tris,
						const std::vector<Vector2>* uvs,
						const std::vector<Vector3>* norms);
	virtual void RecalcNormals(const bool smooth = true,
							   const float smoothThres = 60.0f,
							   std::unordered_set<uint32_t>* lockedIndices = nullptr);
	virtual void CalcTangentSpace();
};

class NiShape : public NiCloneable<NiShape, NiAVObject> {
public:
	virtual NiGeometryData* GetGeomData() const { return nullptr; }
	virtual void SetGeomData(NiGeometryData*) {}

	virtual bool HasData() const { return false; }
	virtual NiBlockRef<NiGeometryData>* DataRef() { return nullptr; }
	virtual const NiBlockRef<NiGeometryData>* DataRef() const { return nullptr; }

	virtual bool HasSkinInstance() const { return false; }
	virtual NiBlockRef<NiBoneContainer>* SkinInstanceRef() { return nullptr; }
	virtual const NiBlockRef<NiBoneContainer>* SkinInstanceRef() const { return nullptr; }

	virtual bool HasShaderProperty() const { return false; }
	virtual NiBlockRef<NiShader>* ShaderPropertyRef() { return nullptr; }
	virtual const NiBlockRef<NiShader>* ShaderPropertyRef() const { return nullptr; }

	virtual bool HasAlphaProperty() const { return false; }
	virtual NiBlockRef<NiAlphaProperty>* AlphaPropertyRef() { return nullptr; }
	virtual const NiBlockRef<NiAlphaProperty>* AlphaPropertyRef() const { return nullptr; }

	virtual uint16_t GetNumVertices() const;
	virtual void SetVertices(const bool enable);
	virtual bool HasVertices() const;

	virtual void SetUVs(const bool enable);
	virtual bool HasUVs() const;

	virtual void SetNormals(const bool enable);
	virtual bool HasNormals() const;

	virtual void SetTangents(const bool enable);
	virtual bool HasTangents() const;

	virtual void SetVertexColors(const bool enable);
	virtual bool HasVertexColors() const;

	virtual void SetSkinned(const bool enable);
	virtual bool IsSkinned() const;

	virtual uint32_t GetNumTriangles() const;
	virtual bool GetTriangles(std::vector<Triangle>& tris) const;
	virtual void SetTriangles(const std::vector<Triangle>& tris);
	virtual bool ReorderTriangles(const std::vector<uint32_t>& triInds);

	virtual void SetBounds(const BoundingSphere& bounds);
	virtual BoundingSphere GetBounds() const;
	virtual void UpdateBounds();

	int GetBoneID(const NiHeader& hdr, const std::string& boneName) const;
};


class BSTriShape : public NiCloneableStreamable<BSTriShape, NiShape> {
protected:
	NiBlockRef<NiBoneContainer> skinInstanceRef;
	NiBlockRef<NiShader> shaderPropertyRef;
	NiBlockRef<NiAlphaProperty> alphaPropertyRef;

	BoundingSphere bounds;
	float boundMinMax[6]{};

	uint32_t numTriangles = 0;
	uint16_t numVertices = 0;

public:
	VertexDesc vertexDesc;

	uint32_t dataSize = 0;
	uint32_t vertexSize = 0; // Not in file

	uint32_t particleDataSize = 0;
	std::vector<Vector3> particleVerts;
	std::vector<Vector3> particleNorms;
	std::vector<Triangle> particleTris;

	std::vector<Vector3> rawVertices;	// temporary copy filled by UpdateRawVertices function
	std::vector<Vector3> rawNormals;	// temporary copy filled by UpdateRawNormals function
	std::vector<Vector3> rawTangents;	// temporary copy filled by UpdateRawTangents function
	std::vector<Vector3> rawBitangents; // temporary copy filled by UpdateRawBitangents function
	std::vector<Vector2> rawUvs;		// temporary copy filled by UpdateRawUvs function
	std::vector<Color4> rawColors;		// temporary copy filled by UpdateRawColors function
	std::vector<float> rawEyeData;		// temporary copy filled by UpdateRawEyeData function

	std::vector<uint32_t> deletedTris; // temporary storage for BSSubIndexTriShape

	std::vector<BSVertexData> vertData;
	std::vector<Triangle> triangles;

	BSTriShape();

	static constexpr const char* BlockName = "BSTriShape";
	const char* GetBlockName() override { return BlockName; }

	void Sync(NiStreamReversible& stream);
	void notifyVerticesDelete(const std::vector<uint16_t>& vertIndices) override;
	void GetChildRefs(std::set<NiRef*>& refs) override;
	void GetChildIndices(std::vector<uint32_t>& indices) override;

	bool HasSkinInstance() const override { return !skinInstanceRef.IsEmpty(); }
	NiBlockRef<NiBoneContainer>* SkinInstanceRef() override { return &skinInstanceRef; }
	const NiBlockRef<NiBoneContainer>* SkinInstanceRef() const override { return &skinInstanceRef; }

	bool HasShaderProperty() const override { return !shaderPropertyRef.IsEmpty(); }
	NiBlockRef<NiShader>* ShaderPropertyRef() override { return &shaderPropertyRef; }
	const NiBlockRef<NiShader>* ShaderPropertyRef() const override { return &shaderPropertyRef; }

	bool HasAlphaProperty() const override { return !alphaPropertyRef.IsEmpty(); }
	NiBlockRef<NiAlphaProperty>* AlphaPropertyRef() override { return &alphaPropertyRef; }
	const NiBlockRef<NiAlphaProperty>* AlphaPropertyRef() const override { return &alphaPropertyRef; }

	std::vector<Vector3>& UpdateRawVertices();
	std::vector<Vector3>& UpdateRawNormals();
	std::vector<Vector3>& UpdateRawTangents();
	std::vector<Vector3>& UpdateRawBitangents();
	std::vector<Vector2>& UpdateRawUvs();
	std::vector<Color4>& UpdateRawColors();
	std::vector<float>& UpdateRawEyeData();

	uint16_t GetNumVertices() const override;
	void SetVertices(const bool enable) override;
	bool HasVertices() const override { return vertexDesc.HasFlag(VF_VERTEX); }

	void SetUVs(const bool enable) override;
	bool HasUVs() const override { return vertexDesc.HasFlag(VF_UV); }

	void SetSecondUVs(const bool enable);
	bool HasSecondUVs() const { return vertexDesc.HasFlag(VF_UV_2); }

	void SetNormals(const bool enable) override;
	bool HasNormals() const override { return vertexDesc.HasFlag(VF_NORMAL); }

	void SetTangents(const bool enable) override;
	bool HasTangents() const override { return vertexDesc.HasFlag(VF_TANGENT); }

	void SetVertexColors(const bool enable) override;
	bool HasVertexColors() const override { return vertexDesc.HasFlag(VF_COLORS); }

	void SetSkinned(const bool enable) override;
	bool IsSkinned() const override { return vertexDesc.HasFlag(VF_SKINNED); }

	void SetEyeData(const bool enable);
	bool HasEyeData() const { return vertexDesc.HasFlag(VF_EYEDATA); }

	void SetFullPrecision(const bool enable);
	bool IsFullPrecision() const { return vertexDesc.HasFlag(VF_FULLPREC); }
	bool CanChangePrecision() const { return (HasVertices()); }

	uint32_t GetNumTriangles() const override;
	bool GetTriangles(std::vector<Triangle>&) const override;
	void SetTriangles(const std::vector<Triangle>&) override;

	void SetBounds(const BoundingSphere& newBounds) override { bounds = newBounds; }
	BoundingSphere GetBounds() const override { return bounds; }
	void UpdateBounds() override;

	void SetVertexData(const std::vector<BSVertexData>& bsVertData);

	void SetNormals(const std::vector<Vector3>& inNorms);
	void RecalcNormals(const bool smooth = true,
					   const float smoothThres = 60.0f,
					   std::unordered_set<uint32_t>* lockedIndices = nullptr);
	void CalcTangentSpace();
	int CalcDataSizes(NiVersion& version);

	void SetTangentData(const std::vector<Vector3>& in);
	void SetBitangentData(const std::vector<Vector3>& in);
	void SetEyeData(const std::vector<float>& in);

	virtual void Create(NiVersion& version,
						const std::vector<Vector3>* verts,
						const std::vector<Triangle>* tris,
						const std::vector<Vector2>* uvs,
						const std::vector<Vector3>* normals = nullptr);
};


// NifSubSegmentInfo: not in file.  The portion of a subsegment's data
// that has nothing to do with triangle set partitioning.
struct NifSubSegmentInfo {
	// partID: a small nonnegative integer uniquely identifying this
	// subsegment among all the segments and subsegments.  Used as a value
	// in triParts.  Not in the file.
	int partID = 0;
	uint32_t userSlotID = 0;
	uint32_t material = 0;
	std::vector<float> extraData;
};

// NifSegmentInfo: not in file.  The portion of a segment's data that
// has nothing to do with triangle set partitioning.
struct NifSegmentInfo {
	// partID: a small nonnegative integer uniquely identifying this
	// segment among all the segments and subsegments.  Used as a value
	// in triParts.  Not in the file.
	int partID = 0;
	std::vector<NifSubSegmentInfo> subs;
};

// NifSegmentationInfo: not in file.  The portion of a shape's
// segmentation data that has nothing to do with triangle set partitioning.
// The intention is that this data structure can be used for any type of
// segmentation data, both BSSITSSegmentation and BSGeometrySegmentData.
struct NifSegmentationInfo {
	std::vector<NifSegmentInfo> segs;
	std::string ssfFile;
};


class BSGeometrySegmentData {
public:
	uint8_t flags = 0;
	uint32_t index = 0;
	uint32_t numTris = 0;

	void Sync(NiStreamReversible& stream);
};

class BSSubIndexTriShape : public NiCloneableStreamable<BSSubIndexTriShape, BSTriShape> {
public:
	class BSSITSSubSegment {
	public:
		uint32_t startIndex = 0;
		uint32_t numPrimitives = 0;
		uint32_t arrayIndex = 0;
		uint32_t unkInt1 = 0;
	};

	class BSSITSSegment {
	public:
		uint32_t startIndex = 0;
		uint32_t numPrimitives = 0;
		uint32_t parentArrayIndex = 0xFFFFFFFF;
		uint32_t numSubSegments = 0;
		std::vector<BSSITSSubSegment> subSegments;
	};

	class BSSITSSubSegmentDataRecord {
	public:
		uint32_t userSlotID = 0;
		uint32_t material = 0xFFFFFFFF;
		uint32_t numData = 0;
		std::vector<float> extraData;
	};

	class BSSITSSubSegmentData {
	public:
		uint32_t numSegments = 0;
		uint32_t numTotalSegments = 0;
		std::vector<uint32_t> arrayIndices;
		std::vector<BSSITSSubSegmentDataRecord> dataRecords;
		NiString ssfFile;
	};

	class BSSITSSegmentation {
	public:
		uint32_t numPrimitives = 0;
		uint32_t numSegments = 0;
		uint32_t numTotalSegments = 0;
		std::vector<BSSITSSegment> segments;
		BSSITSSubSegmentData subSegmentData;
	};

protected:
	// SSE
	uint32_t numSegments = 0;
	std::vector<BSGeometrySegmentData> segments;

	// FO4
	BSSITSSegmentation segmentation;

public:
	static constexpr const char* BlockName = "BSSubIndexTriShape";
	const char* GetBlockName() override { return BlockName; }

	void Sync(NiStreamReversible& stream);
	void notifyVerticesDelete(const std::vector<uint16_t>& vertIndices) override;

	std::vector<BSGeometrySegmentData> GetSegments() const;
	void SetSegments(const std::vector<BSGeometrySegmentData>& sd);

	void GetSegmentation(NifSegmentationInfo& inf, std::vector<int>& triParts) const;
	void SetSegmentation(const NifSegmentationInfo& inf, const std::vector<int>& triParts);

#ifdef NIFLY_VERIF
	// Verification hook (guard NIFLY_VERIF): read-only view of the raw FO4 segment ranges.
	const BSSITSSegmentation& VerifSegmentation() const { return segmentation; }
#endif

	void SetDefaultSegments();
	void Create(NiVersion& version,
				const std::vector<Vector3>* verts,
				const std::vector<Triangle>* tris,
				const std::vector<Vector2>* uvs,
				const std::vector<Vector3>* normals = nullptr) override;
};

class BSMeshLODTriShape : public NiCloneableStreamable<BSMeshLODTriShape, BSTriShape> {
public:
	uint32_t lodSize0 = 0;
	uint32_t lodSize1 = 0;
	uint32_t lodSize2 = 0;

	static constexpr const char* BlockName = "BSMeshLODTriShape";
	const char* GetBlockName() override { return BlockName; }

	void Sync(NiStreamReversible& stream);
	void notifyVerticesDelete(const std::vector<uint16_t>& vertIndices) override;
};

class BSDynamicTriShape : public NiCloneableStreamable<BSDynamicTriShape, BSTriShape> {
public:
	uint32_t dynamicDataSize;
	std::vector<Vector4> dynamicData;

	BSDynamicTriShape();

	static constexpr const char* BlockName = "BSDynamicTriShape";
	const char* GetBlockName() override { return BlockName; }

	void Sync(NiStreamReversible& stream);
	void notifyVerticesDelete(const std::vector<uint16_t>& vertIndices) override;
	void CalcDynamicData();

	void Create(NiVersion& version,
				const std::vector<Vector3>* verts,
				const std::vector<Triangle>* tris,
				const std::vector<Vector2>* uvs,
				const std::vector<Vector3>* normals = nullptr) override;
};

// BSGeometryMeshData is not a nif block object.  In order to be able to use the data as if it were a block
// data object for reading and modifying geometry data, we inherit the NiGeometryData interface, and override
// the Sync function.  The stream provided to sync for this object is not the same stream that is working with
// a nif file.  
class BSGeometryMeshData : public NiCloneableStreamable<BSGeometryMeshData, NiGeometryData> {
private:
	// Traditional scale based on havok to unit transform used in skyrim, fallout, etc. In Starfield mesh files are normalized to metric units,
	// this scale makes default vertex positions closely match the older games
	const float havokScale = 69.969f;
	// experimentally, the below scale produced very accurate values to SSE mesh sizes (comparing markerxheading.nif)
	// const float havokScale = 69.9866f;

public:
	struct BoneWeight {
		uint16_t boneIndex = 0;
		uint16_t weight = 0;
	};

	struct Meshlet {
		uint32_t vertCount = 0;
		uint32_t vertOffset = 0;
		uint32_t primCount = 0;
		uint32_t primOffset = 0;
	};

	struct CullData {
		Vector3 center;
		Vector3 expand;
	};

	uint32_t version = 0;

	uint32_t nTriIndices = 0;
	std::vector<Triangle> tris;

	float scale = 0.0f;
	uint32_t nWeightsPerVert = 0;

	// Vert count is a full 32 bits, versus the 16 bit count in NiGeometryData
	uint32_t nVertices = 0;
	std::vector<uint16_t> packedVerts;
	// vertices from NIGeometryData

	uint32_t nUV1 = 0;
	//std::vector<Vector2> uvs1;
	uint32_t nUV2 = 0;
	//std::vector<Vector2> uvs2;
	// uvSets from NiGeometryData  -- read/write interspersed with nUV1, nUV2

	uint32_t nColors = 0;
	std::vector<ByteColor4> vColors;
	// vertexColors from NiGeometryData

	uint32_t nNormals = 0;
	std::vector<uint32_t> packedNormals;
	// normals from NiGeometryData  (UDEC3 packed in file)

	uint32_t nTangents = 0;
	std::vector<uint32_t> packedTangents;
	// tangents from NiGeometryData  (UDEC3 packed in file)

	uint32_t nTotalWeights = 0;
	std::vector<std::vector<BoneWeight>> skinWeights;

	uint32_t nLODS = 0;
	std::vector<std::vector<Triangle>> lods;

	uint32_t nMeshlets = 0;
	std::vector<Meshlet> meshletList;

	uint32_t nCullData = 0;
	std::vector<CullData> cullDataList;

	void Sync(NiStreamReversible& stream);
};

struct BSGeometryMesh {
	uint32_t triSize = 0;
	uint32_t numVerts = 0;
	uint32_t flags = 0;		// Often 64

	// in official files, this is 41 characters: hex characters from sha1 of the mesh data split into 2 parts
	// with a path separator. The game does not seem to check the digest, so the same name can be used for
	// replacement, or probably a human-readable one
	NiString meshName;		

	BSGeometryMeshData meshData;
	void Sync(NiStreamReversible& stream);
};

class BSGeometry : public NiCloneableStreamable<BSGeometry, NiShape> {
protected:
	BoundingSphere bounds;
	float boundMinMax[6]{};

	NiBlockRef<NiBoneContainer> skinInstanceRef;
	NiBlockRef<NiShader> shaderPropertyRef;
	NiBlockRef<NiAlphaProperty> alphaPropertyRef;

	std::vector<BSGeometryMesh> meshes;

	// A currently selected BSGeometryMesh in the list of meshes. All get/set data accessors use this to
	// address a desired mesh
	uint8_t selectedMesh = 0;

public:
	static constexpr const char* BlockName = "BSGeometry";
	const char* GetBlockName() override { return BlockName; }

	void Sync(NiStreamReversible& stream);
	void GetChildRefs(std::set<NiRef*>& refs) override;
	void GetChildIndices(std::vector<uint32_t>& indices) override;
		
	NiGeometryData* GetGeomData() const override;

	bool GetTriangles(std::vector<Triangle>& tris) const override;
	void SetTriangles(const std::vector<Triangle>& tris) override;

	uint8_t MeshCount() { return (uint8_t) meshes.size();	}

	// SelectMesh provides a way to choose which mesh from the BSGeometryMesh list data accesessors will use.
	// If this is not called, functions to retrieve vertices, triangles, etc will default to the first mesh.
	// Returns a pointer to the mesh data selected.
	// TODO: this is not thread safe.  A mutex should be set in SelectMesh and released in ReleaseMesh to
	// avoid synchronization issues.  Alternatively, Get/Set data functions could be changed to take a
	// selector option, but that's a significant API change.
	BSGeometryMesh* SelectMesh(uint8_t whichMesh) {
		if (whichMesh < meshes.size()) {
			selectedMesh = whichMesh;
			return &meshes[selectedMesh];
		}
		return nullptr;
	}
	// ReleaseMesh resets the selected mesh data to default.  This is a stand in for a mutex unlock operation
	// so should always be called as soon after SelectMesh as possble.
	void ReleaseMesh() {
		selectedMesh = 0;
		return;
	}
};

class NiSkinInstance;

class NiGeometry : public NiCloneableStreamable<NiGeometry, NiShape> {
protected:
	NiBlockRef<NiGeometryData> dataRef;
	NiBlockRef<NiBoneContainer> skinInstanceRef;
	NiBlockRef<NiShader> shaderPropertyRef;
	NiBlockRef<NiAlphaProperty> alphaPropertyRef;

public:
	NiSyncVector<NiStringRef> materialNames;
	NiVector<uint32_t> materialExtraData;

	int activeMaterial = 0;
	uint8_t defaultMatNeedsUpdateFlag = 0;

	bool shader = false;
	NiStringRef shaderName;
	uint32_t implementation = 0;

	void Sync(NiStreamReversible& stream);
	void GetStringRefs(std::vector<NiStringRef*>& refs) override;
	void GetChildRefs(std::set<NiRef*>& refs) override;
	void GetChildIndices(std::vector<uint32_t>& indices) override;

	bool IsSkinned() const override;

	bool HasData() const override { return !dataRef.IsEmpty(); }
	NiBlockRef<NiGeometryData>* DataRef() override { return &dataRef; }
	const NiBlockRef<NiGeometryData>* DataRef() const override { return &dataRef; }

	bool HasSkinInstance() const override { return !skinInstanceRef.IsEmpty(); }
	NiBlockRef<NiBoneContainer>* SkinInstanceRef() override { return &skinInstanceRef; }
	const NiBlockRef<NiBoneContainer>* SkinInstanceRef() const override { return &skinInstanceRef; }

	bool HasShaderProperty() const override { return !shaderPropertyRef.IsEmpty(); }
	NiBlockRef<NiShader>* ShaderPropertyRef() override { return &shaderPropertyRef; }
	const NiBlockRef<NiShader>* ShaderPropertyRef() const override { return &shaderPropertyRef; }

	bool HasAlphaProperty() const override { return !alphaPropertyRef.IsEmpty(); }
	NiBlockRef<NiAlphaProperty>* AlphaPropertyRef() override { return &alphaPropertyRef; }
	const NiBlockRef<NiAlphaProperty>* AlphaPropertyRef() const override { return &alphaPropertyRef; }
};

class NiTriBasedGeom : public NiCloneable<NiTriBasedGeom, NiGeometry> {};

class NiTriBasedGeomData : public NiCloneableStreamable<NiTriBasedGeomData, NiGeometryData> {
protected:
	uint16_t numTriangles = 0;

public:
	void Sync(NiStreamReversible& stream);

	void Create(NiVersion& version,
				const std::vector<Vector3>* verts,
				const std::vector<Triangle>* tris,
				const std::vector<Vector2>* uvs,
				const std::vector<Vector3>* norms) override;
};

struct MatchGroup {
	uint16_t count = 0;
	std::vector<uint16_t> matches;
};

class NiTriShapeData : public NiCloneableStreamable<NiTriShapeData, NiTriBasedGeomData> {
protected:
	uint32_t numTrianglePoints = 0;
	bool hasTriangles = false;
	std::vector<Triangle> triangles;

	uint16_t numMatchGroups = 0;
	std::vector<MatchGroup> matchGroups;

public:
	static constexpr const char* BlockName = "NiTriShapeData";
	const char* GetBlockName() override { return BlockName; }

	void Sync(NiStreamReversible& stream);
	void Create(NiVersion& version,
				const std::vector<Vector3>* verts,
				const std::vector<Triangle>* tris,
				const std::vector<Vector2>* uvs,
				const std::vector<Vector3>* norms) override;
	void notifyVerticesDelete(const std::vector<uint16_t>& vertIndices) override;

	std::vector<MatchGroup> GetMatchGroups() const;
	void SetMatchGroups(const std::vector<MatchGroup>& mg);

	uint32_t GetNumTriangles() const override;
	bool GetTriangles(std::vector<Triangle>& tris) const override;
	void SetTriangles(const std::vector<Triangle>& tris) override;

	void RecalcNormals(const bool smooth = true,
					   const float smoothThres = 60.0f,
					   std::unordered_set<uint32_t>* lockedIndices = nullptr) override;
	void CalcTangentSpace() override;
};

class NiTriShape : public NiCloneable<NiTriShape, NiTriBasedGeom> {
protected:
	NiTriShapeData* shapeData = nullptr;

public:
	static constexpr const char* BlockName = "NiTriShape";
	const char* GetBlockName() override { return BlockName; }

	NiGeometryData* GetGeomData() const override;
	void SetGeomData(NiGeometryData* geomDataPtr) override;
};

class StripsInfo {
public:
	NiVector<uint16_t, uint16_t> stripLengths;
	bool hasPoints = true;
	std::vector<std::vector<uint16_t>> points;

	void Sync(NiStreamReversible& stream);
};

class NiTriStripsData : public NiCloneableStreamable<NiTriStripsData, NiTriBasedGeomData> {
public:
	StripsInfo stripsInfo;

	static constexpr const char* BlockName = "NiTriStripsData";
	const char* GetBlockName() override { return BlockName; }

	void Sync(NiStreamReversible& stream);
	void notifyVerticesDelete(const std::vector<uint16_t>& vertIndices) override;

	uint32_t GetNumTriangles() const override;
	bool GetTriangles(std::vector<Triangle>& tris) const override;
	void SetTriangles(const std::vector<Triangle>& tris) override;
	std::vector<Triangle> StripsToTris() const;

	void RecalcNormals(const bool smooth = true,
					   const float smoothThres = 60.0f,
					   std::unordered_set<uint32_t>* lockedIndices = nullptr) override;
	void CalcTangentSpace() override;
};

class NiTriStrips : public NiCloneable<NiTriStrips, NiTriBasedGeom> {
protected:
	NiTriStripsData* stripsData = nullptr;

public:
	static constexpr const char* BlockName = "NiTriStrips";
	const char* GetBlockName() override { return BlockName; }

	NiGeometryData* GetGeomData() const override;
	void SetGeomData(NiGeometryData* geomDataPtr) override;

	bool ReorderTriangles(const std::vector<uint32_t>&) override { return false; }
};

class NiLinesData : public NiCloneableStreamable<NiLinesData, NiGeometryData> {
public:
	std::deque<bool> lineFlags;

	static constexpr const char* BlockName = "NiLinesData";
	const char* GetBlockName() override { return BlockName; }

	void Sync(NiStreamReversible& stream);
	void notifyVerticesDelete(const std::vector<uint16_t>& vertIndices) override;
};

class NiLines : public NiCloneable<NiLines, NiTriBasedGeom> {
protected:
	NiLinesData* linesData = nullptr;

public:
	static constexpr const char* BlockName = "NiLines";
	const char* GetBlockName() override { return BlockName; }

	NiGeometryData* GetGeomData() const override;
	void SetGeomData(NiGeometryData* geomDataPtr) override;
};

struct PolygonInfo {
	uint16_t numVertices = 0;
	uint16_t vertexOffset = 0;
	uint16_t numTriangles = 0;
	uint16_t triangleOffset = 0;
};

class NiScreenElementsData : public NiCloneableStreamable<NiScreenElementsData, NiTriShapeData> {
protected:
	uint16_t maxPolygons = 0;
	std::vector<PolygonInfo> polygons;
	std::vector<uint16_t> polygonIndices;

	uint16_t polygonGrowBy = 1;
	uint16_t numPolygons = 0;
	uint16_t maxVertices = 0;
	uint16_t verticesGrowBy = 1;
	uint16_t maxIndices = 0;
	uint16_t indicesGrowBy = 1;

public:
	static constexpr const char* BlockName = "NiScreenElementsData";
	const char* GetBlockName() override { return BlockName; }

	void Sync(NiStreamReversible& stream);
	void notifyVerticesDelete(const std::vector<uint16_t>& vertIndices) override;
};

class NiScreenElements : public NiCloneable<NiScreenElements, NiTriShape> {
protected:
	NiScreenElementsData* elemData = nullptr;

public:
	static constexpr const char* BlockName = "NiScreenElements";
	const char* GetBlockName() override { return BlockName; }

	NiGeometryData* GetGeomData() const override;
	void SetGeomData(NiGeometryData* geomDataPtr) override;
};

class BSLODTriShape : public NiCloneableStreamable<BSLODTriShape, NiTriBasedGeom> {
protected:
	NiTriShapeData* shapeData = nullptr;

public:
	uint32_t level0 = 0;
	uint32_t level1 = 0;
	uint32_t level2 = 0;

	static constexpr const char* BlockName = "BSLODTriShape";
	const char* GetBlockName() override { return BlockName; }

	NiGeometryData* GetGeomData() const override;
	void SetGeomData(NiGeometryData* geomDataPtr) override;

	void Sync(NiStreamReversible& stream);
};

class BSSegmentedTriShape : public NiCloneableStreamable<BSSegmentedTriShape, NiTriShape> {
protected:
	uint32_t numSegments = 0;
	std::vector<BSGeometrySegmentData> segments;

public:
	static constexpr const char* BlockName = "BSSegmentedTriShape";
	const char* GetBlockName() override { return BlockName; }

	void Sync(NiStreamReversible& stream);

	std::vector<BSGeometrySegmentData> GetSegments() const;
	void SetSegments(const std::vector<BSGeometrySegmentData>& sd);
};
} // namespace nifly
