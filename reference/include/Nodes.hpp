/*
nifly
C++ NIF library for the Gamebryo/NetImmerse File Format
See the included GPLv3 LICENSE file
*/

#pragma once

#include "BasicTypes.hpp"
#include "Objects.hpp"

namespace nifly {
class NiNode : public NiCloneableStreamable<NiNode, NiAVObject> {
public:
	NiBlockRefArray<NiAVObject> childRefs;
	NiBlockRefArray<NiDynamicEffect> effectRefs;

	static constexpr const char* BlockName = "NiNode";
	const char* GetBlockName() override { return BlockName; }

	void Sync(NiStreamReversible& stream);

	void GetChildRefs(std::set<NiRef*>& refs) override;
	void GetChildIndices(std::vector<uint32_t>& indices) override;
};

class BSFadeNode : public NiCloneable<BSFadeNode, NiNode> {
public:
	static constexpr const char* BlockName = "BSFadeNode";
	const char* GetBlockName() override { return BlockName; }
};

enum BSValueNodeFlags : uint8_t {
	BSVN_NONE = 0x0,
	BSVN_BILLBOARD_WORLD_Z = 0x1,
	BSVN_USE_PLAYER_ADJUST = 0x2
};

class BSValueNode : public NiCloneableStreamable<BSValueNode, NiNode> {
public:
	int value = 0;
	BSValueNodeFlags valueFlags = BSVN_NONE;

	static constexpr const char* BlockName = "BSValueNode";
	const char* GetBlockName() override { return BlockName; }

	void Sync(NiStreamReversible& stream);
};

class BSLeafAnimNode : public NiCloneable<BSLeafAnimNode, NiNode> {
public:
	static constexpr const char* BlockName = "BSLeafAnimNode";
	const char* GetBlockName() override { return BlockName; }
};

class BSTreeNode : public NiCloneableStreamable<BSTreeNode, NiNode> {
public:
	NiBlockRefArray<NiNode> bones1;
	NiBlockRefArray<NiNode> bones2;

	static constexpr const char* BlockName = "BSTreeNode";
	const char* GetBlockName() override { return BlockName; }

	void Sync(NiStreamReversible& stream);

	void GetChildRefs(std::set<NiRef*>& refs) override;
	void GetChildIndices(std::vector<uint32_t>& indices) override;
};

class BSOrderedNode : public NiCloneableStreamable<BSOrderedNode, NiNode> {
public:
	Vector4 alphaSortBound;
	bool isStaticBound = false;

	static constexpr const char* BlockName = "BSOrderedNode";
	const char* GetBlockName() override { return BlockName; }

	void Sync(NiStreamReversible& stream);
};

class BSMultiBoundData : public NiCloneable<BSMultiBoundData, NiObject> {};

class BSMultiBoundOBB : public NiCloneableStreamable<BSMultiBoundOBB, BSMultiBoundData> {
public:
	Vector3 center;
	Vector3 size;
	Matrix3 rotation;

	static constexpr const char* BlockName = "BSMultiBoundOBB";
	const char* GetBlockName() override { return BlockName; }

	void Sync(NiStreamReversible& stream);
};

class BSMultiBoundAABB : public NiCloneableStreamable<BSMultiBoundAABB, BSMultiBoundData> {
public:
	Vector3 center;
	Vector3 halfExtent;

	static constexpr const char* BlockName = "BSMultiBoundAABB";
	const char* GetBlockName() override { return BlockName; }

	void Sync(NiStreamReversible& stream);
};

class BSMultiBoundSphere : public NiCloneableStreamable<BSMultiBoundSphere, BSMultiBoundData> {
public:
	Vector3 center;
	float radius = 0.0f;

	static constexpr const char* BlockName = "BSMultiBoundSphere";
	const char* GetBlockName() override { return BlockName; }

	void Sync(NiStreamReversible& stream);
};

class BSMultiBound : public NiCloneableStreamable<BSMultiBound, NiObject> {
public:
	NiBlockRef<BSMultiBoundData> dataRef;

	static constexpr const char* BlockName = "BSMultiBound";
	const char* GetBlockName() override { return BlockName; }

	void Sync(NiStreamReversible& stream);

	void GetChildRefs(std::set<NiRef*>& refs) override;
	void GetChildIndices(std::vector<uint32_t>& indices) override;
};

enum BSCPCullingType : uint32_t {
	BSCP_CULL_NORMAL,
	BSCP_CULL_ALLPASS,
	BSCP_CULL_ALLFAIL,
	BSCP_CULL_IGNOREMULTIBOUNDS,
	BSCP_CULL_FORCEMULTIBOUNDSNOUPDATE
};

class BSMultiBoundNode : public NiCloneableStreamable<BSMultiBoundNode, NiNode> {
public:
	NiBlockRef<BSMultiBound> multiBoundRef;
	BSCPCullingType cullingMode = BSCP_CULL_NORMAL;

	static constexpr const char* BlockName = "BSMultiBoundNode";
	const char* GetBlockName() override { return BlockName; }

	void Sync(NiStreamReversible& stream);

	void GetChildRefs(std::set<NiRef*>& refs) override;
	void GetChildIndices(std::vector<uint32_t>& indices) override;
};

struct BSResourceID {
    uint32_t fileHash = 0;
    char extension[4];
    uint32_t dirHash = 0;
};

#pragma pack(push, 1)
struct BSDistantObjectUnknown {
	uint64_t unknown1 = 0;
	uint32_t unknown2 = 0;
};
#pragma pack(pop)

struct BSDistantObjectInstance {
	BSResourceID resourceID;
	NiVector<BSDistantObjectUnknown> unknownData;
	NiVector<Matrix4> transforms;

	void Sync(NiStreamReversible& stream) {
		stream.Sync(resourceID);
		unknownData.Sync(stream);
		transforms.Sync(stream);
	}
};

struct BSShaderTextureArray {
	uint8_t unknownByte = 1;
	NiSyncVector<BSTextureArray> textureArrays;

	void Sync(NiStreamReversible& stream) {
		stream.Sync(unknownByte);
		textureArrays.Sync(stream);
	}
};

class BSDistantObjectInstancedNode : public NiCloneableStreamable<BSDistantObjectInstancedNode, BSMultiBoundNode> {
public:
	NiSyncVector<BSDistantObjectInstance> instances;
	BSShaderTextureArray textureArrays[3]{};

	static constexpr const char* BlockName = "BSDistantObjectInstancedNode";
	const char* GetBlockName() override { return BlockName; }

	void Sync(NiStreamReversible& stream);
};

class BSRangeNode : public NiCloneableStreamable<BSRangeNode, NiNode> {
public:
	uint8_t min = 0;
	uint8_t max = 0;
	uint8_t current = 0;

	static constexpr const char* BlockName = "BSRangeNode";
	const char* GetBlockName() override { return BlockName; }

	void Sync(NiStreamReversible& stream);
};

class BSDebrisNode : public NiCloneable<BSDebrisNode, BSRangeNode> {
public:
	static constexpr const char* BlockName = "BSDebrisNode";
	const char* GetBlockName() override { return BlockName; }
};

class BSBlastNode : public NiCloneable<BSBlastNode, BSRangeNode> {
public:
	static constexpr const char* BlockName = "BSBlastNode";
	const char* GetBlockName() override { return BlockName; }
};

class BSDamageStage : public NiCloneable<BSDamageStage, BSBlastNode> {
public:
	static constexpr const char* BlockName = "BSDamageStage";
	const char* GetBlockName() override { return BlockName; }
};

struct UnkMaterialStruct {
	uint32_t biomeFormID = 0;
	uint32_t dirHash = 0;
	uint32_t fileHash = 0;
	std::string mat; // mat\0

	void Sync(NiStreamReversible& stream);
};

struct BSWaterReferenceStruct {
    Matrix4 transform;
    BSResourceID resourceID;
    uint32_t unkInt1 = 0;
    NiString material;

	void Sync(NiStreamReversible& stream);
};

struct BSWeakReference {
	uint32_t formID = 0;
	BSResourceID resourceID;

	uint32_t numTransforms = 0;
	std::vector<Matrix4> transforms;

	uint32_t numMaterials;
	std::vector<UnkMaterialStruct> unkMaterials;

	void Sync(NiStreamReversible& stream);
};

class BSWeakReferenceNode : public NiCloneableStreamable<BSWeakReferenceNode, NiNode> {
public:
	uint32_t numWeakRefs = 0;
	std::vector<BSWeakReference> weakRefs;

	uint32_t unkInt1 = 0;
	uint32_t numWaterRefs = 0;
	std::vector<BSWaterReferenceStruct> waterRefs;

	static constexpr const char* BlockName = "BSWeakReferenceNode";
	const char* GetBlockName() override { return BlockName; }

	void Sync(NiStreamReversible& stream);
};

class BSFaceGenNiNode : public NiCloneableStreamable<BSFaceGenNiNode, NiNode> {
public:
	uint16_t unkShort = 0;

	static constexpr const char* BlockName = "BSFaceGenNiNode";
	const char* GetBlockName() override { return BlockName; }

	void Sync(NiStreamReversible& stream);
};

enum BillboardMode : uint16_t {
	ALWAYS_FACE_CAMERA,
	ROTATE_ABOUT_UP,
	RIGID_FACE_CAMERA,
	ALWAYS_FACE_CENTER,
	RIGID_FACE_CENTER,
	BSROTATE_ABOUT_UP,
	ROTATE_ABOUT_UP2 = 9
};

class NiBillboardNode : public NiCloneableStreamable<NiBillboardNode, NiNode> {
public:
	BillboardMode billboardMode = ALWAYS_FACE_CAMERA;

	static constexpr const char* BlockName = "NiBillboardNode";
	const char* GetBlockName() override { return BlockName; }

	void Sync(NiStreamReversible& stream);
};

enum NiSwitchFlags : uint16_t { UPDATE_ONLY_ACTIVE_CHILD, UPDATE_CONTROLLERS };

class NiSwitchNode : public NiCloneableStreamable<NiSwitchNode, NiNode> {
public:
	NiSwitchFlags flags = UPDATE_ONLY_ACTIVE_CHILD;
	uint32_t index = 0;

	static constexpr const char* BlockName = "NiSwitchNode";
	const char* GetBlockName() override { return BlockName; }

	void Sync(NiStreamReversible& stream);
};

struct LODRange {
	float nearExtent = 0.0f;
	float farExtent = 0.0f;
};

class NiLODData : public NiCloneable<NiLODData, NiObject> {};

class NiRangeLODData : public NiCloneableStreamable<NiRangeLODData, NiLODData> {
public:
	Vector3 lodCenter;
	NiVector<LODRange> lodLevels;

	static constexpr const char* BlockName = "NiRangeLODData";
	const char* GetBlockName() override { return BlockName; }

	void Sync(NiStreamReversible& stream);
};

class NiScreenLODData : public NiCloneableStreamable<NiScreenLODData, NiLODData> {
public:
	Vector3 boundCenter;
	float boundRadius = 0.0f;
	Vector3 worldCenter;
	float worldRadius = 0.0f;
	NiVector<float> proportionLevels;

	static constexpr const char* BlockName = "NiScreenLODData";
	const char* GetBlockName() override { return BlockName; }

	void Sync(NiStreamReversible& stream);
};

class NiLODNode : public NiCloneableStreamable<NiLODNode, NiSwitchNode> {
public:
	NiBlockRef<NiLODData> lodLevelData;

	static constexpr const char* BlockName = "NiLODNode";
	const char* GetBlockName() override { return BlockName; }

	void Sync(NiStreamReversible& stream);

	void GetChildRefs(std::set<NiRef*>& refs) override;
	void GetChildIndices(std::vector<uint32_t>& indices) override;
};

class NiBone : public NiCloneable<NiBone, NiNode> {
public:
	static constexpr const char* BlockName = "NiBone";
	const char* GetBlockName() override { return BlockName; }
};

enum SortingMode { SORTING_INHERIT, SORTING_OFF };

class NiSortAdjustNode : public NiCloneableStreamable<NiSortAdjustNode, NiNode> {
public:
	SortingMode sortingMode = SORTING_INHERIT;

	static constexpr const char* BlockName = "NiSortAdjustNode";
	const char* GetBlockName() override { return BlockName; }

	void Sync(NiStreamReversible& stream);
};
} // namespace nifly
