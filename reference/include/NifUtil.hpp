/*
nifly
C++ NIF library for the Gamebryo/NetImmerse File Format
See the included GPLv3 LICENSE file
*/

#pragma once

#include "Object3d.hpp"

#include <filesystem>
#include <memory>
#include <string_view>

namespace nifly {
// Applies a vertex index renumbering map to p1, p2, and p3 of a vector of triangles.
// If a triangle has an index out of range of the map
// or if an index maps to a negative number, the triangle is removed.
template<typename IndexType1, typename IndexType2 = int>
void ApplyMapToTriangles(std::vector<Triangle>& tris,
						 const std::vector<IndexType1>& map,
						 std::vector<IndexType2>* deletedTris = nullptr) {
	const size_t mapsz = map.size();
	int di = 0;
	for (IndexType2 si = 0; si < static_cast<IndexType2>(tris.size()); ++si) {
		const Triangle& stri = tris[si];
		// Triangle's indices are unsigned, but IndexType might be signed.
		if (stri.p1 >= mapsz || stri.p2 >= mapsz || stri.p3 >= mapsz || map[stri.p1] < 0 || map[stri.p2] < 0
			|| map[stri.p3] < 0) {
			if (deletedTris)
				deletedTris->push_back(si);

			continue;
		}

		Triangle& dtri = tris[di];
		dtri.p1 = static_cast<uint16_t>(map[stri.p1]);
		dtri.p2 = static_cast<uint16_t>(map[stri.p2]);
		dtri.p3 = static_cast<uint16_t>(map[stri.p3]);
		++di;
	}

	tris.resize(di);
}

inline uint16_t CalcMaxTriangleIndex(const std::vector<Triangle>& v) {
	uint16_t maxind = 0;

	for (size_t i = 0; i < v.size(); ++i) {
		maxind = std::max(maxind, v[i].p1);
		maxind = std::max(maxind, v[i].p2);
		maxind = std::max(maxind, v[i].p3);
	}

	return maxind;
}

// 'indices' must be in sorted ascending order beforehand.
template<typename VectorType, typename IndexType>
void EraseVectorIndices(VectorType& v, const std::vector<IndexType>& indices) {
	if (indices.empty() || indices[0] >= v.size())
		return;

	size_t indi = 1;
	IndexType di = indices[0];
	IndexType si = di + 1;
	for (; si < v.size(); ++si) {
		if (indi < indices.size() && si == indices[indi])
			++indi;
		else
			v[di++] = std::move(v[si]);
	}

	v.resize(di);
}

// 'indices' must be in sorted ascending order beforehand.
template<typename VectorType, typename IndexType>
void InsertVectorIndices(VectorType& v, const std::vector<IndexType>& indices) {
	if (indices.empty() || indices.back() >= v.size() + indices.size())
		return;

	int64_t indi = static_cast<int64_t>(indices.size() - 1);
	IndexType di = v.size() + indices.size() - 1;
	IndexType si = v.size() - 1;
	v.resize(di + 1);

	while (true) {
		while (indi >= 0 && di == indices[indi])
			--di, --indi;

		if (indi < 0)
			break;

		v[di--] = std::move(v[si--]);
	}
}

// 'indices' must be in sorted ascending order beforehand.
template<typename IndexType1, typename IndexType2>
std::vector<int> GenerateIndexCollapseMap(const std::vector<IndexType1>& indices, const IndexType2 mapSize) {
	std::vector<int> map(mapSize);

	size_t indi = 0;
	for (IndexType2 si = 0, di = 0; si < mapSize; ++si) {
		if (indi < indices.size() && si == indices[indi]) {
			map[si] = -1;
			++indi;
		}
		else
			map[si] = static_cast<int>(di++);
	}

	return map;
}

// 'indices' must be in sorted ascending order beforehand.
template<typename IndexType1, typename IndexType2>
std::vector<int> GenerateIndexExpandMap(const std::vector<IndexType1>& indices, const IndexType2 mapSize) {
	std::vector<int> map(mapSize);

	size_t indi = 0;
	for (IndexType2 si = 0, di = 0; si < mapSize; ++si, ++di) {
		while (indi < indices.size() && di == indices[indi])
			++di, ++indi;

		map[si] = static_cast<int>(di);
	}
	return map;
}

// MapType is something like std::unordered_map<int, Data> or std::map<int, Data>.
// If a MapType-key k is in the indexMap, it is deleted if indexMap[k]
// is negative, or changed to indexMap[k] otherwise.
// If k is not in indexMap, defaultOffset is added to it.
template<typename MapType>
void ApplyIndexMapToMapKeys(MapType& keyMap, const std::vector<int> indexMap, const int defaultOffset) {
	using KeyType = typename MapType::key_type;
	MapType copy;

	for (auto& d : keyMap) {
		if (d.first >= indexMap.size()) {
			auto keyVal = static_cast<KeyType>(d.first + defaultOffset);
			copy[keyVal] = std::move(d.second);
		}
		else if (indexMap[d.first] >= 0) {
			auto keyVal = static_cast<KeyType>(indexMap[d.first]);
			copy[keyVal] = std::move(d.second);
		}
	}

	keyMap = std::move(copy);
}

// Strips with less than 3 points are skipped as they cannot become a triangle.
template<typename IndexType>
std::vector<Triangle> GenerateTrianglesFromStrips(const std::vector<std::vector<IndexType>>& strips) {
	std::vector<Triangle> tris;

	for (const std::vector<IndexType>& strip : strips) {
		if (strip.size() < 3)
			continue;

		uint16_t a = strip[0];
		uint16_t b = strip[1];
		for (size_t i = 2; i < strip.size(); ++i) {
			uint16_t c = strip[i];
			if (a != b && b != c && c != a) {
				if ((i & 1) == 0)
					tris.push_back(Triangle(a, b, c));
				else
					tris.push_back(Triangle(a, c, b));
			}

			a = b;
			b = c;
		}
	}

	return tris;
}

// Helper to check if a potentially non valid UTF8 path is relative
inline bool is_relative_path(std::string_view path) noexcept {
	try {
		return std::filesystem::u8path(path).is_relative();
	}
	catch (const std::exception&) {
		// ignore the exception
		// the path is invalid, but might be readable by the game
		return false;
	}
}

// Helper to trim whitespace characters including newlines from the start and end of a string
void trim_whitespace(std::string& str);

// Convenience wrapper for std::find
template<typename Container, typename Value = typename Container::value>
auto find(Container& cont, Value&& val) {
	return std::find(std::begin(cont), std::end(cont), std::forward<Value>(val));
}

// Convenience wrapper for std::find (const)
template<typename Container, typename Value = typename Container::value>
auto find(const Container& cont, Value&& val) {
	return std::find(std::cbegin(cont), std::cend(cont), std::forward<Value>(val));
}

// Convenience wrapper for std::find_if
template<typename Container, typename Pred>
auto find_if(Container& cont, Pred&& pred) {
	return std::find_if(std::begin(cont), std::end(cont), std::forward<Pred>(pred));
}

// Convenience wrapper for std::find_if (const)
template<typename Container, typename Pred>
auto find_if(const Container& cont, Pred&& pred) {
	return std::find_if(std::cbegin(cont), std::cend(cont), std::forward<Pred>(pred));
}

// Convenience wrapper for std::find
template<typename Container, typename Value = typename Container::value>
bool contains(const Container& cont, Value&& val) {
	return find(cont, std::forward<Value>(val)) != std::end(cont);
}

// Return new unique pointer and raw pointer to the same object as part of a pair.
// This way, the object can still be accessed using the raw pointer after moving the smart pointer.
// Usage: auto [triShapeS, triShape] = make_unique<NiTriShape>();
template<typename T>
std::pair<std::unique_ptr<T>, T*> make_unique() {
	auto ptr = std::make_unique<T>();
	auto raw = ptr.get();
	return std::make_pair(std::move(ptr), raw);
}

} // namespace nifly
