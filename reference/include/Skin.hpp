/*
nifly
C++ NIF library for the Gamebryo/NetImmerse File Format
See the included GPLv3 LICENSE file
*/

#pragma once

#include "BasicTypes.hpp"
#include "VertexData.hpp"

namespace nifly {
#pragma pack(push, 1)
struct SkinWeight {
	uint16_t index;
	float weight;

	SkinWeight(const uint16_t index_ = 0, const float weight_ = 0.0f)
		: index(index_)
		, weight(weight_) {}
};
#pragma pack(pop)

struct VertexWeight {
	float w1 = 0.0f;
	float w2 = 0.0f;
	float w3 = 0.0f;
	float w4 = 0.0f;
};

struct BoneIndices {
	uint8_t i1 = 0;
	uint8_t i2 = 0;
	uint8_t i3 = 0;
	uint8_t i4 = 0;
};

class NiSkinData : public NiCloneableStreamable<NiSkinData, NiObject> {
public:
	struct BoneData {
		// boneTransform transforms from skin CS to bone CS.
		// Recommend renaming boneTransform to transformSkinToBone.
		MatTransform boneTransform;
		BoundingSphere bounds;
		uint16_t numVertices = 0;
		std::vector<SkinWeight> vertexWeights;
	};

	// skinTransform transforms from the global CS to the skin CS.
	// Recommend renaming to "transformGlobalToSkin".
	MatTransform skinTransform;
	uint32_t numBones = 0;
	uint8_t hasVertWeights = 1;
	std::vector<BoneData> bones;

	static constexpr const char* BlockName = "NiSkinData";
	const char* GetBlockName() override { return BlockName; }

	void Sync(NiStreamReversible& stream);
	void notifyVerticesDelete(const std::vector<uint16_t>& vertIndices) override;
};

class NiSkinPartition : public NiCloneableStreamable<NiSkinPartition, NiObject> {
public:
	struct PartitionBlock {
		uint16_t numVertices = 0;
		uint16_t numTriangles = 0;
		uint16_t numBones = 0;
		uint16_t numStrips = 0;
		uint16_t numWeightsPerVertex = 0;
		std::vector<uint16_t> bones;
		bool hasVertexMap = false;
		std::vector<uint16_t> vertexMap;
		bool hasVertexWeights = false;
		std::vector<VertexWeight> vertexWeights;
		std::vector<uint16_t> stripLengths;
		bool hasFaces = false;
		std::vector<std::vector<uint16_t>> strips;
		std::vector<Triangle> triangles;
		bool hasBoneIndices = false;
		std::vector<BoneIndices> boneIndices;

		uint8_t lodLevel = 0;  // User Version >= 12
		bool globalVB = false; // User Version >= 12
		VertexDesc vertexDesc; // User Version >= 12, User Version 2 == 100
		// When trueTriangles is changed so it's no longer in sync with
		// triParts, triParts should be cleared.
		std::vector<Triangle> trueTriangles; // User Version >= 12, User Version 2 == 100

		bool ConvertStripsToTriangles();
		void GenerateTrueTrianglesFromMappedTriangles();
		void GenerateMappedTrianglesFromTrueTrianglesAndVertexMap();
		void GenerateVertexMapFromTrueTriangles();
	};

	uint32_t numPartitions = 0;
	uint32_t dataSize = 0;	 // User Version >= 12, User Version 2 == 100
	uint32_t vertexSize = 0; // User Version >= 12, User Version 2 == 100
	VertexDesc vertexDesc;	 // User Version >= 12, User Version 2 == 100

	uint32_t numVertices = 0;			// Not in file
	std::vector<BSVertexData> vertData; // User Version >= 12, User Version 2 == 100
	std::vector<PartitionBlock> partitions;

	// bMappedIndices is not in the file; it is calculated from
	// the file version.  If true, the vertex indices in triangles
	// and strips are indices into vertexMap, not the shape's vertices.
	// trueTriangles always uses indices into the shape's vertex list.
	bool bMappedIndices = true;

	// triParts is not in the file; it is generated as needed.  If
	// not empty, its size should match the shape's triangle list.
	// It gives the partition index (into "partitions") of each
	// triangle.  Whenever triParts is changed so it's not in sync
	// with trueTriangles, GenerateTrueTrianglesFromTriParts should
	// be called to get them back in sync.
	std::vector<int> triParts;

	bool HasVertices() const { return vertexDesc.HasFlag(VF_VERTEX); }
	bool HasUVs() const { return vertexDesc.HasFlag(VF_UV); }
	bool HasNormals() const { return vertexDesc.HasFlag(VF_NORMAL); }
	bool HasTangents() const { return vertexDesc.HasFlag(VF_TANGENT); }
	bool HasVertexColors() const { return vertexDesc.HasFlag(VF_COLORS); }
	bool IsSkinned() const { return vertexDesc.HasFlag(VF_SKINNED); }
	bool HasEyeData() const { return vertexDesc.HasFlag(VF_EYEDATA); }
	bool IsFullPrecision() const { return true; }

	static constexpr const char* BlockName = "NiSkinPartition";
	const char* GetBlockName() override { return BlockName; }

	void Sync(NiStreamReversible& stream);
	void notifyVerticesDelete(const std::vector<uint16_t>& vertIndices) override;
	// DeletePartitions: partInds must be in sorted ascending order
	void DeletePartitions(const std::vector<uint32_t>& partInds);
	uint32_t RemoveEmptyPartitions(std::vector<uint32_t>& outDeletedIndices);
	// ConvertStripsToTriangles returns true if any conversions were
	// actually performed.  After calling this function, all of the
	// strips will be empty.
	bool ConvertStripsToTriangles();
	// PrepareTrueTriangles: ensures each partition's trueTriangles has
	// valid data, if necessary by generating it from "triangles" or "strips".
	void PrepareTrueTriangles();
	// PrepareVertexMapsAndTriangles: ensures "vertexMap" and "triangles"
	// have valid data for every partition, if necessary by generating them
	// from trueTriangles.
	void PrepareVertexMapsAndTriangles();
	// GenerateTriPartsFromTrueTriangles: generates triParts from
	// the partitions' trueTriangles by looking them up in shapeTris.
	// The new triParts will have the same size as shapeTris.  Though
	// typically triParts[i] will be between 0 and partitions.size()-1,
	// it is theoretically possible for some triParts[i] to be -1
	// (like because of garbage data in the file).
	void GenerateTriPartsFromTrueTriangles(const std::vector<Triangle>& shapeTris);
	// GenerateTrueTrianglesFromTriParts: generates the partitions'
	// trueTriangles from triParts and shapeTris.  If triParts[i] is
	// out of range, the corresponding triangle will not be copied
	// into a partition.
	void GenerateTrueTrianglesFromTriParts(const std::vector<Triangle>& shapeTris);
	// PrepareTriParts: ensures triParts has data, generating it
	// if necessary from trueTriangles and shapeTris.
	void PrepareTriParts(const std::vector<Triangle>& shapeTris);
};

class NiNode;

class NiBoneContainer : public NiCloneable<NiBoneContainer, NiObject> {
public:
	NiBlockPtrArray<NiNode> boneRefs;
};

class NiSkinInstance : public NiCloneableStreamable<NiSkinInstance, NiBoneContainer> {
public:
	NiBlockRef<NiSkinData> dataRef;
	NiBlockRef<NiSkinPartition> skinPartitionRef;
	NiBlockPtr<NiNode> targetRef;

	static constexpr const char* BlockName = "NiSkinInstance";
	const char* GetBlockName() override { return BlockName; }

	void Sync(NiStreamReversible& stream);
	void GetChildRefs(std::set<NiRef*>& refs) override;
	void GetChildIndices(std::vector<uint32_t>& indices) override;
	void GetPtrs(std::set<NiRef*>& ptrs) override;
};


enum PartitionFlags : uint16_t { PF_NONE = 0, PF_EDITOR_VISIBLE = 1 << 0, PF_START_NET_BONESET = 1 << 8 };

class BSDismemberSkinInstance : public NiCloneableStreamable<BSDismemberSkinInstance, NiSkinInstance> {
public:
	struct PartitionInfo {
		PartitionFlags flags = PF_NONE;
		uint16_t partID = 0;
	};

	NiVector<PartitionInfo> partitions;

	static constexpr const char* BlockName = "BSDismemberSkinInstance";
	const char* GetBlockName() override { return BlockName; }

	void Sync(NiStreamReversible& stream);

	// DeletePartitions: partInds must be in sorted ascending order.
	void DeletePartitions(const std::vector<uint32_t>& partInds);
};

class BSSkinBoneData : public NiCloneableStreamable<BSSkinBoneData, NiObject> {
public:
	uint32_t nBones = 0;

	struct BoneData {
		BoundingSphere bounds;
		// boneTransform transforms from skin CS (which is usually not
		// the same as global CS for skins with BSSkinBoneData) to bone
		// CS.  Recommend renaming boneTransform to transformSkinToBone.
		MatTransform boneTransform;
	};
	// Note that, unlike for NiSkinData, the global-to-skin transform
	// "skinTransform" is not given explicitly but implied by the other
	// transforms.

	std::vector<BoneData> boneXforms;

	static constexpr const char* BlockName = "BSSkin::BoneData";
	const char* GetBlockName() override { return BlockName; }

	void Sync(NiStreamReversible& stream);
};

class NiAVObject;

class BSSkinInstance : public NiCloneableStreamable<BSSkinInstance, NiBoneContainer> {
public:
	NiBlockPtr<NiAVObject> targetRef;
	NiBlockRef<BSSkinBoneData> dataRef;
	NiVector<Vector3> scales;

	static constexpr const char* BlockName = "BSSkin::Instance";
	const char* GetBlockName() override { return BlockName; }

	void Sync(NiStreamReversible& stream);
	void GetChildRefs(std::set<NiRef*>& refs) override;
	void GetChildIndices(std::vector<uint32_t>& indices) override;
	void GetPtrs(std::set<NiRef*>& ptrs) override;
};
} // namespace nifly
