/*
nifly
C++ NIF library for the Gamebryo/NetImmerse File Format
See the included GPLv3 LICENSE file
*/

#pragma once

#include "BasicTypes.hpp"

#include <unordered_map>

namespace nifly {
class NiFactory {
public:
	virtual std::unique_ptr<NiObject> Create() = 0;
	virtual std::unique_ptr<NiObject> Load(NiIStream& stream) = 0;

	virtual ~NiFactory() = default;
};

template<typename T>
class NiFactoryType final : public NiFactory {
public:
	// Create new NiObject
	std::unique_ptr<NiObject> Create() override { return std::make_unique<T>(); }

	// Load new NiObject from file
	std::unique_ptr<NiObject> Load(NiIStream& stream) override {
		auto nio = std::make_unique<T>();
		nio->Get(stream);
		return nio;
	}
};

class NiFactoryRegister {
public:
	// Constructor registers the block types
	NiFactoryRegister();

	template<typename T>
	void RegisterFactory() {
		// Any NiObject can be registered together with its block name
		m_registrations.emplace(T::BlockName, std::make_unique<NiFactoryType<T>>());
	}

	// Get block factory via header std::string
	NiFactory* GetFactoryByName(const std::string& name) {
		auto it = m_registrations.find(name);
		if (it != m_registrations.end())
			return it->second.get();

		return nullptr;
	}

	// Get static instance of factory register
	static NiFactoryRegister& Get();

protected:
	std::unordered_map<std::string, std::unique_ptr<NiFactory>> m_registrations;
};
} // namespace nifly
