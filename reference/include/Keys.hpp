/*
nifly
C++ NIF library for the Gamebryo/NetImmerse File Format
See the included GPLv3 LICENSE file
*/

#pragma once

#include "BasicTypes.hpp"

namespace nifly {
class NiTextKey {
public:
	float time = 0.0f;
	NiStringRef value;

	void Sync(NiStreamReversible& stream) {
		stream.Sync(time);
		value.Sync(stream);
	}

	void GetStringRefs(std::vector<NiStringRef*>& refs) { refs.emplace_back(&value); }
};

enum NiKeyType : uint32_t { NO_INTERP, LINEAR_KEY, QUADRATIC_KEY, TBC_KEY, XYZ_ROTATION_KEY, CONST_KEY };

struct TBC {
	float tension = 0.0f;
	float bias = 0.0f;
	float continuity = 0.0f;
};

template<typename T>
class NiAnimationKey {
public:
	NiKeyType type = NiKeyType::NO_INTERP; // no IO, used for Sync condition only

	float time = 0.0f;
	T value{};
	T forward{};
	T backward{};
	TBC tbc;

	void Sync(NiStreamReversible& stream) {
		stream.Sync(time);
		stream.Sync(value);

		switch (type) {
			case NiKeyType::QUADRATIC_KEY:
				stream.Sync(forward);
				stream.Sync(backward);
				break;
			case NiKeyType::TBC_KEY: stream.Sync(tbc); break;
			default: break;
		}
	}
};

template<typename T>
class NiAnimationKeyGroup {
private:
	uint32_t numKeys = 0;
	NiKeyType interpolation = NO_INTERP;
	std::vector<NiAnimationKey<T>> keys;

public:
	void Sync(NiStreamReversible& stream) {
		stream.Sync(numKeys);
		keys.resize(numKeys);

		if (numKeys > 0) {
			stream.Sync(interpolation);

			for (uint32_t i = 0; i < numKeys; i++) {
				auto& key = keys[i];
				key.type = interpolation;
				key.Sync(stream);
			}
		}
	}

	NiKeyType GetInterpolationType() const { return interpolation; }

	void SetInterpolationType(const NiKeyType interp) { interpolation = interp; }

	uint32_t GetNumKeys() const { return numKeys; }

	NiAnimationKey<T> GetKey(const int id) const { return keys[id]; }

	void SetKey(const int id, const NiAnimationKey<T>& key) { keys[id] = key; }

	void AddKey(const NiAnimationKey<T>& key) {
		keys.push_back(key);
		numKeys++;
	}

	void RemoveKey(const int id) {
		keys.erase(keys.begin() + id);
		numKeys--;
	}

	void ClearKeys() {
		keys.clear();
		numKeys = 0;
	}
};
} // namespace nifly
