/*
nifly
C++ NIF library for the Gamebryo/NetImmerse File Format
See the included GPLv3 LICENSE file
*/

#pragma once

#include "BasicTypes.hpp"
#include "ExtraData.hpp"
#include "Keys.hpp"

namespace nifly {
struct QuatTransform {
	Vector3 translation;
	Quaternion rotation;
	float scale = 1.0f;
	bool trsValid[3]{};

	void Sync(NiStreamReversible& stream) {
		stream.Sync(translation);
		stream.Sync(rotation);
		stream.Sync(scale);

		if (stream.GetVersion().File() < V10_1_0_110)
			stream.Sync(trsValid);
	}
};

class NiKeyframeData : public NiCloneableStreamable<NiKeyframeData, NiObject> {
public:
	NiKeyType rotationType = NO_INTERP;
	std::vector<NiAnimationKey<Quaternion>> quaternionKeys;
	NiAnimationKeyGroup<float> xRotations;
	NiAnimationKeyGroup<float> yRotations;
	NiAnimationKeyGroup<float> zRotations;
	NiAnimationKeyGroup<Vector3> translations;
	NiAnimationKeyGroup<float> scales;

	static constexpr const char* BlockName = "NiKeyframeData";
	const char* GetBlockName() override { return BlockName; }

	void Sync(NiStreamReversible& stream);
};

class NiTransformData : public NiCloneable<NiTransformData, NiKeyframeData> {
public:
	static constexpr const char* BlockName = "NiTransformData";

	const char* GetBlockName() override { return BlockName; }
};

class NiPosData : public NiCloneableStreamable<NiPosData, NiObject> {
public:
	NiAnimationKeyGroup<Vector3> data;

	static constexpr const char* BlockName = "NiPosData";
	const char* GetBlockName() override { return BlockName; }

	void Sync(NiStreamReversible& stream);
};

class NiBoolData : public NiCloneableStreamable<NiBoolData, NiObject> {
public:
	NiAnimationKeyGroup<uint8_t> data;

	static constexpr const char* BlockName = "NiBoolData";
	const char* GetBlockName() override { return BlockName; }

	void Sync(NiStreamReversible& stream);
};

class NiFloatData : public NiCloneableStreamable<NiFloatData, NiObject> {
public:
	NiAnimationKeyGroup<float> data;

	static constexpr const char* BlockName = "NiFloatData";
	const char* GetBlockName() override { return BlockName; }

	void Sync(NiStreamReversible& stream);
};

class NiBSplineData : public NiCloneableStreamable<NiBSplineData, NiObject> {
public:
	NiVector<float> floatControlPoints;
	NiVector<short> shortControlPoints;

	static constexpr const char* BlockName = "NiBSplineData";
	const char* GetBlockName() override { return BlockName; }

	void Sync(NiStreamReversible& stream);
};

class NiBSplineBasisData : public NiCloneableStreamable<NiBSplineBasisData, NiObject> {
public:
	uint32_t numControlPoints = 0;

	static constexpr const char* BlockName = "NiBSplineBasisData";
	const char* GetBlockName() override { return BlockName; }

	void Sync(NiStreamReversible& stream);
};

class NiInterpolator : public NiCloneable<NiInterpolator, NiObject> {};

class NiBSplineInterpolator : public NiCloneableStreamable<NiBSplineInterpolator, NiInterpolator> {
public:
	float startTime = 0.0f;
	float stopTime = 0.0f;
	NiBlockRef<NiBSplineData> splineDataRef;
	NiBlockRef<NiBSplineBasisData> basisDataRef;

	void Sync(NiStreamReversible& stream);
	void GetChildRefs(std::set<NiRef*>& refs) override;
	void GetChildIndices(std::vector<uint32_t>& indices) override;
};

class NiBSplineFloatInterpolator : public NiCloneable<NiBSplineFloatInterpolator, NiBSplineInterpolator> {};

class NiBSplineCompFloatInterpolator
	: public NiCloneableStreamable<NiBSplineCompFloatInterpolator, NiBSplineFloatInterpolator> {
public:
	float base = 0.0f;
	uint32_t offset = 0;
	float bias = 0.0f;
	float multiplier = 0.0f;

	static constexpr const char* BlockName = "NiBSplineCompFloatInterpolator";
	const char* GetBlockName() override { return BlockName; }

	void Sync(NiStreamReversible& stream);
};

class NiBSplinePoint3Interpolator
	: public NiCloneableStreamable<NiBSplinePoint3Interpolator, NiBSplineInterpolator> {
public:
	Vector3 value = NiVec3Min;
	uint32_t handle = NiUShortMax;

	void Sync(NiStreamReversible& stream);
};

class NiBSplineCompPoint3Interpolator
	: public NiCloneableStreamable<NiBSplineCompPoint3Interpolator, NiBSplinePoint3Interpolator> {
public:
	float positionOffset = NiFloatMax;
	float positionHalfRange = NiFloatMax;

	static constexpr const char* BlockName = "NiBSplineCompPoint3Interpolator";
	const char* GetBlockName() override { return BlockName; }

	void Sync(NiStreamReversible& stream);
};

class NiBSplineTransformInterpolator
	: public NiCloneableStreamable<NiBSplineTransformInterpolator, NiBSplineInterpolator> {
public:
	Vector3 translation;
	Quaternion rotation;
	float scale = 1.0f;

	uint32_t translationOffset = 0;
	uint32_t rotationOffset = 0;
	uint32_t scaleOffset = 0;

	static constexpr const char* BlockName = "NiBSplineTransformInterpolator";
	const char* GetBlockName() override { return BlockName; }

	void Sync(NiStreamReversible& stream);
};

class NiBSplineCompTransformInterpolator
	: public NiCloneableStreamable<NiBSplineCompTransformInterpolator, NiBSplineTransformInterpolator> {
public:
	float translationBias = 0.0f;
	float translationMultiplier = 0.0f;
	float rotationBias = 0.0f;
	float rotationMultiplier = 0.0f;
	float scaleBias = 0.0f;
	float scaleMultiplier = 0.0f;

	static constexpr const char* BlockName = "NiBSplineCompTransformInterpolator";
	const char* GetBlockName() override { return BlockName; }

	void Sync(NiStreamReversible& stream);
};

enum InterpBlendFlags : uint8_t { INTERP_BLEND_NONE = 0x00, INTERP_BLEND_MANAGER_CONTROLLED = 0x01 };

class InterpBlendItem {
public:
	NiBlockRef<NiInterpolator> interpolatorRef;
	float weight = 0.0f;
	float normalizedWeight = 0.0f;
	uint32_t priorityInt = 0;
	uint8_t priority = 0;
	float easeSpinner = 0.0f;

	void Sync(NiStreamReversible& stream);
};

class NiBlendInterpolator : public NiCloneableStreamable<NiBlendInterpolator, NiInterpolator> {
public:
	InterpBlendFlags flags = INTERP_BLEND_MANAGER_CONTROLLED;
	uint16_t arraySize = 0;
	uint16_t arrayGrowBy = 0;
	float weightThreshold = 0.0f;

	uint16_t interpCount = 0;
	uint8_t singleIndex = NiByteMax;
	uint16_t singleIndexShort = NiUShortMax;
	char highPriority = NiCharMin;
	int highPriorityInt = NiIntMin;
	char nextHighPriority = NiCharMin;
	int nextHighPriorityInt = NiIntMin;
	float singleTime = NiFloatMin;
	float highWeightsSum = NiFloatMin;
	float nextHighWeightsSum = NiFloatMin;
	float highEaseSpinner = NiFloatMin;
	std::vector<InterpBlendItem> interpItems;

	bool managerControlled = false;
	bool onlyUseHighestWeight = false;
	NiBlockRef<NiInterpolator> singleInterpolatorRef;

	void Sync(NiStreamReversible& stream);
	void GetChildRefs(std::set<NiRef*>& refs) override;
	void GetChildIndices(std::vector<uint32_t>& indices) override;
};

class NiBlendBoolInterpolator : public NiCloneableStreamable<NiBlendBoolInterpolator, NiBlendInterpolator> {
public:
	bool value = false;

	static constexpr const char* BlockName = "NiBlendBoolInterpolator";
	const char* GetBlockName() override { return BlockName; }

	void Sync(NiStreamReversible& stream);
};

class NiBlendFloatInterpolator : public NiCloneableStreamable<NiBlendFloatInterpolator, NiBlendInterpolator> {
public:
	float value = 0.0f;

	static constexpr const char* BlockName = "NiBlendFloatInterpolator";
	const char* GetBlockName() override { return BlockName; }

	void Sync(NiStreamReversible& stream);
};

class NiBlendPoint3Interpolator
	: public NiCloneableStreamable<NiBlendPoint3Interpolator, NiBlendInterpolator> {
public:
	Vector3 point;

	static constexpr const char* BlockName = "NiBlendPoint3Interpolator";
	const char* GetBlockName() override { return BlockName; }

	void Sync(NiStreamReversible& stream);
};

class NiBlendTransformInterpolator
	: public NiCloneableStreamable<NiBlendTransformInterpolator, NiBlendInterpolator> {
public:
	QuatTransform value;

	static constexpr const char* BlockName = "NiBlendTransformInterpolator";
	const char* GetBlockName() override { return BlockName; }

	void Sync(NiStreamReversible& stream);
};

class NiKeyBasedInterpolator : public NiInterpolator {};

class NiBoolInterpolator : public NiCloneableStreamable<NiBoolInterpolator, NiKeyBasedInterpolator> {
public:
	uint8_t boolValue = 0;
	NiBlockRef<NiBoolData> dataRef;

	static constexpr const char* BlockName = "NiBoolInterpolator";
	const char* GetBlockName() override { return BlockName; }

	void Sync(NiStreamReversible& stream);
	void GetChildRefs(std::set<NiRef*>& refs) override;
	void GetChildIndices(std::vector<uint32_t>& indices) override;
};

class NiBoolTimelineInterpolator : public NiCloneable<NiBoolTimelineInterpolator, NiBoolInterpolator> {
public:
	static constexpr const char* BlockName = "NiBoolTimelineInterpolator";
	const char* GetBlockName() override { return BlockName; }
};

class NiFloatInterpolator : public NiCloneableStreamable<NiFloatInterpolator, NiKeyBasedInterpolator> {
public:
	float floatValue = 0.0f;
	NiBlockRef<NiFloatData> dataRef;

	static constexpr const char* BlockName = "NiFloatInterpolator";
	const char* GetBlockName() override { return BlockName; }

	void Sync(NiStreamReversible& stream);
	void GetChildRefs(std::set<NiRef*>& refs) override;
	void GetChildIndices(std::vector<uint32_t>& indices) override;
};

class NiTransformInterpolator
	: public NiCloneableStreamable<NiTransformInterpolator, NiKeyBasedInterpolator> {
public:
	Vector3 translation;
	Quaternion rotation;
	float scale = 0.0f;
	NiBlockRef<NiTransformData> dataRef;

	static constexpr const char* BlockName = "NiTransformInterpolator";
	const char* GetBlockName() override { return BlockName; }

	void Sync(NiStreamReversible& stream);
	void GetChildRefs(std::set<NiRef*>& refs) override;
	void GetChildIndices(std::vector<uint32_t>& indices) override;
};

class BSRotAccumTransfInterpolator
	: public NiCloneable<BSRotAccumTransfInterpolator, NiTransformInterpolator> {
public:
	static constexpr const char* BlockName = "BSRotAccumTransfInterpolator";
	const char* GetBlockName() override { return BlockName; }
};

class NiPoint3Interpolator : public NiCloneableStreamable<NiPoint3Interpolator, NiKeyBasedInterpolator> {
public:
	Vector3 point3Value;
	NiBlockRef<NiPosData> dataRef;

	static constexpr const char* BlockName = "NiPoint3Interpolator";
	const char* GetBlockName() override { return BlockName; }

	void Sync(NiStreamReversible& stream);
	void GetChildRefs(std::set<NiRef*>& refs) override;
	void GetChildIndices(std::vector<uint32_t>& indices) override;
};

enum PathFlags : uint16_t {
	PATH_NONE = 0x0000,
	PATH_CVDATANEEDSUPDATE = 0x0001,
	PATH_CURVETYPEOPEN = 0x0002,
	PATH_ALLOWFLIP = 0x0004,
	PATH_BANK = 0x0008,
	PATH_CONSTANTVELOCITY = 0x0016,
	PATH_FOLLOW = 0x0032,
	PATH_FLIP = 0x0064
};

class NiPathInterpolator : public NiCloneableStreamable<NiPathInterpolator, NiKeyBasedInterpolator> {
private:
	PathFlags pathFlags = static_cast<PathFlags>(PATH_CVDATANEEDSUPDATE | PATH_CURVETYPEOPEN);
	int bankDir = 1;
	float maxBankAngle = 0.0f;
	float smoothing = 0.0f;
	uint16_t followAxis = 0;

	NiBlockRef<NiPosData> pathDataRef;
	NiBlockRef<NiFloatData> percentDataRef;

public:
	static constexpr const char* BlockName = "NiPathInterpolator";
	const char* GetBlockName() override { return BlockName; }

	void Sync(NiStreamReversible& stream);
	void GetChildRefs(std::set<NiRef*>& refs) override;
	void GetChildIndices(std::vector<uint32_t>& indices) override;
};

enum LookAtFlags : uint16_t {
	LOOK_X_AXIS = 0x0000,
	LOOK_FLIP = 0x0001,
	LOOK_Y_AXIS = 0x0002,
	LOOK_Z_AXIS = 0x0004
};

class NiNode;

class NiLookAtInterpolator : public NiCloneableStreamable<NiLookAtInterpolator, NiInterpolator> {
public:
	LookAtFlags flags = LOOK_X_AXIS;
	NiBlockPtr<NiNode> lookAtRef;

	NiStringRef lookAtName;

	QuatTransform transform;
	NiBlockRef<NiPoint3Interpolator> translateInterpRef;
	NiBlockRef<NiFloatInterpolator> rollInterpRef;
	NiBlockRef<NiFloatInterpolator> scaleInterpRef;

	static constexpr const char* BlockName = "NiLookAtInterpolator";
	const char* GetBlockName() override { return BlockName; }

	void Sync(NiStreamReversible& stream);
	void GetStringRefs(std::vector<NiStringRef*>& refs) override;
	void GetChildRefs(std::set<NiRef*>& refs) override;
	void GetChildIndices(std::vector<uint32_t>& indices) override;
	void GetPtrs(std::set<NiPtr*>& ptrs) override;
};

struct BSTreadTransformData {
	Vector3 translation;
	Quaternion rotation;
	float scale = 1.0f;
};

struct BSTreadTransform {
	NiStringRef name;
	BSTreadTransformData transform1;
	BSTreadTransformData transform2;

	void Sync(NiStreamReversible& stream) {
		name.Sync(stream);
		stream.Sync(transform1);
		stream.Sync(transform2);
	}

	void GetStringRefs(std::vector<NiStringRef*>& refs) { refs.emplace_back(&name); }
};

class BSTreadTransfInterpolator : public NiCloneableStreamable<BSTreadTransfInterpolator, NiInterpolator> {
public:
	NiSyncVector<BSTreadTransform> treadTransforms;
	NiBlockRef<NiFloatData> dataRef;

	static constexpr const char* BlockName = "BSTreadTransfInterpolator";
	const char* GetBlockName() override { return BlockName; }

	void Sync(NiStreamReversible& stream);
	void GetStringRefs(std::vector<NiStringRef*>& refs) override;
	void GetChildRefs(std::set<NiRef*>& refs) override;
	void GetChildIndices(std::vector<uint32_t>& indices) override;
};

class NiObjectNET;

class NiTimeController : public NiCloneableStreamable<NiTimeController, NiObject> {
public:
	NiBlockRef<NiTimeController> nextControllerRef;
	uint16_t flags = 0x000C;
	float frequency = 1.0f;
	float phase = 0.0f;
	float startTime = NiFloatMax;
	float stopTime = NiFloatMin;
	NiBlockPtr<NiObjectNET> targetRef;

	void Sync(NiStreamReversible& stream);
	void GetChildRefs(std::set<NiRef*>& refs) override;
	void GetChildIndices(std::vector<uint32_t>& indices) override;
	void GetPtrs(std::set<NiPtr*>& ptrs) override;
};

class NiLookAtController : public NiCloneableStreamable<NiLookAtController, NiTimeController> {
public:
	LookAtFlags lookAtFlags = LOOK_X_AXIS;
	NiBlockPtr<NiNode> lookAtNodePtr;

	static constexpr const char* BlockName = "NiLookAtController";
	const char* GetBlockName() override { return BlockName; }

	void Sync(NiStreamReversible& stream);
	void GetPtrs(std::set<NiPtr*>& ptrs) override;
};

class NiPathController : public NiCloneableStreamable<NiPathController, NiTimeController> {
public:
	PathFlags pathFlags = PATH_NONE;
	int bankDir = 1;
	float maxBankAngle = 0.0f;
	float smoothing = 0.0f;
	uint16_t followAxis = 0;
	NiBlockRef<NiPosData> pathDataRef;
	NiBlockRef<NiFloatData> percentDataRef;

	static constexpr const char* BlockName = "NiPathController";
	const char* GetBlockName() override { return BlockName; }

	void Sync(NiStreamReversible& stream);
	void GetChildRefs(std::set<NiRef*>& refs) override;
	void GetChildIndices(std::vector<uint32_t>& indices) override;
};

class NiPSysResetOnLoopCtlr : public NiCloneable<NiPSysResetOnLoopCtlr, NiTimeController> {
public:
	static constexpr const char* BlockName = "NiPSysResetOnLoopCtlr";
	const char* GetBlockName() override { return BlockName; }
};

class NiUVData : public NiCloneableStreamable<NiUVData, NiObject> {
public:
	NiAnimationKeyGroup<float> uTrans;
	NiAnimationKeyGroup<float> vTrans;
	NiAnimationKeyGroup<float> uScale;
	NiAnimationKeyGroup<float> vScale;

	static constexpr const char* BlockName = "NiUVData";
	const char* GetBlockName() override { return BlockName; }

	void Sync(NiStreamReversible& stream);
};

class NiUVController : public NiCloneableStreamable<NiUVController, NiTimeController> {
public:
	uint16_t textureSet = 0;
	NiBlockRef<NiUVData> dataRef;

	static constexpr const char* BlockName = "NiUVController";
	const char* GetBlockName() override { return BlockName; }

	void Sync(NiStreamReversible& stream);
	void GetChildRefs(std::set<NiRef*>& refs) override;
	void GetChildIndices(std::vector<uint32_t>& indices) override;
};

class BSFrustumFOVController : public NiCloneableStreamable<BSFrustumFOVController, NiTimeController> {
public:
	NiBlockRef<NiInterpolator> interpolatorRef;

	static constexpr const char* BlockName = "BSFrustumFOVController";
	const char* GetBlockName() override { return BlockName; }

	void Sync(NiStreamReversible& stream);
	void GetChildRefs(std::set<NiRef*>& refs) override;
	void GetChildIndices(std::vector<uint32_t>& indices) override;
};

class BSLagBoneController : public NiCloneableStreamable<BSLagBoneController, NiTimeController> {
public:
	float linearVelocity = 0.0f;
	float linearRotation = 0.0f;
	float maxDistance = 0.0f;

	static constexpr const char* BlockName = "BSLagBoneController";
	const char* GetBlockName() override { return BlockName; }

	void Sync(NiStreamReversible& stream);
};

class BSShaderProperty;

class BSProceduralLightningController
	: public NiCloneableStreamable<BSProceduralLightningController, NiTimeController> {
public:
	NiBlockRef<NiInterpolator> generationInterpRef;
	NiBlockRef<NiInterpolator> mutationInterpRef;
	NiBlockRef<NiInterpolator> subdivisionInterpRef;
	NiBlockRef<NiInterpolator> numBranchesInterpRef;
	NiBlockRef<NiInterpolator> numBranchesVarInterpRef;
	NiBlockRef<NiInterpolator> lengthInterpRef;
	NiBlockRef<NiInterpolator> lengthVarInterpRef;
	NiBlockRef<NiInterpolator> widthInterpRef;
	NiBlockRef<NiInterpolator> arcOffsetInterpRef;

	uint16_t subdivisions = 0;
	uint16_t numBranches = 0;
	uint16_t numBranchesPerVariation = 0;

	float length = 0.0f;
	float lengthVariation = 0.0f;
	float width = 0.0f;
	float childWidthMult = 0.0f;
	float arcOffset = 0.0f;
	bool fadeMainBolt = 0.0f;
	bool fadeChildBolts = 0.0f;
	bool animateArcOffset = 0.0f;

	NiBlockRef<BSShaderProperty> shaderPropertyRef;

	static constexpr const char* BlockName = "BSProceduralLightningController";
	const char* GetBlockName() override { return BlockName; }

	void Sync(NiStreamReversible& stream);
	void GetChildRefs(std::set<NiRef*>& refs) override;
	void GetChildIndices(std::vector<uint32_t>& indices) override;
};

class NiBoneLODController : public NiCloneableStreamable<NiBoneLODController, NiTimeController> {
public:
	uint32_t lod = 0;
	uint32_t numLODs = 0;
	NiSyncVector<NiBlockPtrArray<NiNode>> boneArrays;

	static constexpr const char* BlockName = "NiBoneLODController";
	const char* GetBlockName() override { return BlockName; }

	void Sync(NiStreamReversible& stream);
	void GetPtrs(std::set<NiPtr*>& ptrs) override;
};

class NiBSBoneLODController : public NiCloneable<NiBSBoneLODController, NiBoneLODController> {
public:
	static constexpr const char* BlockName = "NiBSBoneLODController";
	const char* GetBlockName() override { return BlockName; }
};

struct Morph {
	NiStringRef frameName;
	float legacyWeight = 0.0f;
	std::vector<Vector3> vectors;

	void Sync(NiStreamReversible& stream, uint32_t numVerts) {
		if (stream.GetVersion().File() >= V10_1_0_106)
			frameName.Sync(stream);

		if (stream.GetVersion().File() >= V10_1_0_104 && stream.GetVersion().File() < V20_1_0_3 && stream.GetVersion().Stream() < 10)
			stream.Sync(legacyWeight);

		vectors.resize(numVerts);
		for (uint32_t i = 0; i < numVerts; i++)
			stream.Sync(vectors[i]);
	}

	void GetStringRefs(std::vector<NiStringRef*>& refs) { refs.emplace_back(&frameName); }
};

class NiMorphData : public NiCloneableStreamable<NiMorphData, NiObject> {
private:
	uint32_t numMorphs = 0;
	std::vector<Morph> morphs;

public:
	uint32_t numVertices = 0;
	uint8_t relativeTargets = 1;

	static constexpr const char* BlockName = "NiMorphData";
	const char* GetBlockName() override { return BlockName; }

	void Sync(NiStreamReversible& stream);
	void GetStringRefs(std::vector<NiStringRef*>& refs) override;

	std::vector<Morph> GetMorphs() const;
	void SetMorphs(const uint32_t numVerts, const std::vector<Morph>& m);
};

class NiInterpController : public NiCloneableStreamable<NiInterpController, NiTimeController> {
public:
	bool managerControlled = false;

	void Sync(NiStreamReversible& stream);
};

class MorphWeight {
public:
	NiBlockRef<NiInterpolator> interpRef;
	float weight = 0.0f;

	void Sync(NiStreamReversible& stream) {
		interpRef.Sync(stream);
		stream.Sync(weight);
	}

	void GetChildRefs(std::set<NiRef*>& refs) { refs.insert(&interpRef); }
	void GetChildIndices(std::vector<uint32_t>& indices) { indices.push_back(interpRef.index); }
};

enum GeomMorpherFlags : uint16_t { GM_UPDATE_NORMALS_DISABLED, GM_UPDATE_NORMALS_ENABLED };

class NiGeomMorpherController : public NiCloneableStreamable<NiGeomMorpherController, NiInterpController> {
public:
	GeomMorpherFlags morpherFlags = GM_UPDATE_NORMALS_DISABLED;
	NiBlockRef<NiMorphData> dataRef;
	bool alwaysUpdate = false;
	NiBlockRefArray<NiInterpolator> interpolatorRefs;
	NiSyncVector<MorphWeight> interpWeights;

	NiVector<uint32_t> unknownInts;

	static constexpr const char* BlockName = "NiGeomMorpherController";
	const char* GetBlockName() override { return BlockName; }

	void Sync(NiStreamReversible& stream);
	void GetChildRefs(std::set<NiRef*>& refs) override;
	void GetChildIndices(std::vector<uint32_t>& indices) override;
};

class NiSingleInterpController : public NiCloneableStreamable<NiSingleInterpController, NiInterpController> {
public:
	NiBlockRef<NiInterpController> interpolatorRef;

	void Sync(NiStreamReversible& stream);
	void GetChildRefs(std::set<NiRef*>& refs) override;
	void GetChildIndices(std::vector<uint32_t>& indices) override;
};

class NiRollController : public NiCloneableStreamable<NiRollController, NiSingleInterpController> {
public:
	NiBlockRef<NiFloatData> dataRef;

	static constexpr const char* BlockName = "NiRollController";
	const char* GetBlockName() override { return BlockName; }

	void Sync(NiStreamReversible& stream);
	void GetChildRefs(std::set<NiRef*>& refs) override;
	void GetChildIndices(std::vector<uint32_t>& indices) override;
};

enum TargetColor : uint16_t { TC_AMBIENT, TC_DIFFUSE, TC_SPECULAR, TC_SELF_ILLUM };

class NiPoint3InterpController
	: public NiCloneableStreamable<NiPoint3InterpController, NiSingleInterpController> {
public:
	TargetColor targetColor = TC_AMBIENT;

	void Sync(NiStreamReversible& stream);
};

class NiMaterialColorController : public NiCloneable<NiMaterialColorController, NiPoint3InterpController> {
public:
	static constexpr const char* BlockName = "NiMaterialColorController";
	const char* GetBlockName() override { return BlockName; }
};

class NiLightColorController : public NiCloneable<NiLightColorController, NiPoint3InterpController> {
public:
	static constexpr const char* BlockName = "NiLightColorController";
	const char* GetBlockName() override { return BlockName; }
};

class NiExtraDataController : public NiCloneable<NiExtraDataController, NiSingleInterpController> {};

class NiFloatExtraDataController
	: public NiCloneableStreamable<NiFloatExtraDataController, NiExtraDataController> {
public:
	NiStringRef extraData;

	static constexpr const char* BlockName = "NiFloatExtraDataController";
	const char* GetBlockName() override { return BlockName; }

	void Sync(NiStreamReversible& stream);
	void GetStringRefs(std::vector<NiStringRef*>& refs) override;
};

class NiVisData : public NiCloneableStreamable<NiVisData, NiObject> {
public:
	NiSyncVector<NiAnimationKey<uint8_t>> keys;

	static constexpr const char* BlockName = "NiVisData";
	const char* GetBlockName() override { return BlockName; }

	void Sync(NiStreamReversible& stream);
};

class NiBoolInterpController : public NiSingleInterpController {};

class NiVisController : public NiCloneable<NiVisController, NiBoolInterpController> {
public:
	static constexpr const char* BlockName = "NiVisController";
	const char* GetBlockName() override { return BlockName; }
};

enum TexType : uint32_t {
	BASE_MAP,
	DARK_MAP,
	DETAIL_MAP,
	GLOSS_MAP,
	GLOW_MAP,
	BUMP_MAP,
	NORMAL_MAP,
	PARALLAX_MAP,
	DECAL_0_MAP,
	DECAL_1_MAP,
	DECAL_2_MAP,
	DECAL_3_MAP
};

class NiFloatInterpController : public NiCloneable<NiFloatInterpController, NiSingleInterpController> {};

class BSRefractionFirePeriodController
	: public NiCloneable<BSRefractionFirePeriodController, NiSingleInterpController> {
public:
	static constexpr const char* BlockName = "BSRefractionFirePeriodController";
	const char* GetBlockName() override { return BlockName; }
};

class NiSourceTexture;

class NiFlipController : public NiCloneableStreamable<NiFlipController, NiFloatInterpController> {
public:
	TexType textureSlot = BASE_MAP;
	NiBlockRefArray<NiSourceTexture> sourceRefs;

	static constexpr const char* BlockName = "NiFlipController";
	const char* GetBlockName() override { return BlockName; }

	void Sync(NiStreamReversible& stream);
	void GetChildRefs(std::set<NiRef*>& refs) override;
	void GetChildIndices(std::vector<uint32_t>& indices) override;
};

enum TexTransformType : uint32_t { TT_TRANSLATE_U, TT_TRANSLATE_V, TT_ROTATE, TT_SCALE_U, TT_SCALE_V };

class NiTextureTransformController
	: public NiCloneableStreamable<NiTextureTransformController, NiFloatInterpController> {
public:
	bool shaderMap = false;
	TexType textureSlot = BASE_MAP;
	TexTransformType operation = TT_TRANSLATE_U;

	static constexpr const char* BlockName = "NiTextureTransformController";
	const char* GetBlockName() override { return BlockName; }

	void Sync(NiStreamReversible& stream);
};

class NiLightDimmerController : public NiCloneable<NiLightDimmerController, NiFloatInterpController> {
public:
	static constexpr const char* BlockName = "NiLightDimmerController";
	const char* GetBlockName() override { return BlockName; }
};

class NiLightRadiusController : public NiCloneable<NiLightRadiusController, NiFloatInterpController> {
public:
	static constexpr const char* BlockName = "NiLightRadiusController";
	const char* GetBlockName() override { return BlockName; }
};

class NiAlphaController : public NiCloneable<NiAlphaController, NiFloatInterpController> {
public:
	static constexpr const char* BlockName = "NiAlphaController";
	const char* GetBlockName() override { return BlockName; }
};

class NiPSysUpdateCtlr : public NiCloneable<NiPSysUpdateCtlr, NiTimeController> {
public:
	static constexpr const char* BlockName = "NiPSysUpdateCtlr";
	const char* GetBlockName() override { return BlockName; }
};

class BSNiAlphaPropertyTestRefController
	: public NiCloneable<BSNiAlphaPropertyTestRefController, NiAlphaController> {
public:
	static constexpr const char* BlockName = "BSNiAlphaPropertyTestRefController";
	const char* GetBlockName() override { return BlockName; }
};

class NiKeyframeController : public NiCloneableStreamable<NiKeyframeController, NiSingleInterpController> {
public:
	NiBlockRef<NiKeyframeData> dataRef;

	static constexpr const char* BlockName = "NiKeyframeController";
	const char* GetBlockName() override { return BlockName; }

	void Sync(NiStreamReversible& stream);
	void GetChildRefs(std::set<NiRef*>& refs) override;
	void GetChildIndices(std::vector<uint32_t>& indices) override;
};

class NiTransformController : public NiCloneable<NiTransformController, NiKeyframeController> {
public:
	static constexpr const char* BlockName = "NiTransformController";
	const char* GetBlockName() override { return BlockName; }
};

class BSMaterialEmittanceMultController
	: public NiCloneable<BSMaterialEmittanceMultController, NiFloatInterpController> {
public:
	static constexpr const char* BlockName = "BSMaterialEmittanceMultController";
	const char* GetBlockName() override { return BlockName; }
};

class BSRefractionStrengthController
	: public NiCloneable<BSRefractionStrengthController, NiFloatInterpController> {
public:
	static constexpr const char* BlockName = "BSRefractionStrengthController";
	const char* GetBlockName() override { return BlockName; }
};

class BSLightingShaderPropertyColorController
	: public NiCloneableStreamable<BSLightingShaderPropertyColorController, NiFloatInterpController> {
public:
	uint32_t typeOfControlledColor = 0;

	static constexpr const char* BlockName = "BSLightingShaderPropertyColorController";
	const char* GetBlockName() override { return BlockName; }

	void Sync(NiStreamReversible& stream);
};

class BSLightingShaderPropertyFloatController
	: public NiCloneableStreamable<BSLightingShaderPropertyFloatController, NiFloatInterpController> {
public:
	uint32_t typeOfControlledVariable = 0;

	static constexpr const char* BlockName = "BSLightingShaderPropertyFloatController";
	const char* GetBlockName() override { return BlockName; }

	void Sync(NiStreamReversible& stream);
};

class BSLightingShaderPropertyUShortController
	: public NiCloneableStreamable<BSLightingShaderPropertyUShortController, NiFloatInterpController> {
public:
	uint32_t typeOfControlledVariable = 0;

	static constexpr const char* BlockName = "BSLightingShaderPropertyUShortController";
	const char* GetBlockName() override { return BlockName; }

	void Sync(NiStreamReversible& stream);
};

class BSEffectShaderPropertyColorController
	: public NiCloneableStreamable<BSEffectShaderPropertyColorController, NiFloatInterpController> {
public:
	uint32_t typeOfControlledColor = 0;

	static constexpr const char* BlockName = "BSEffectShaderPropertyColorController";
	const char* GetBlockName() override { return BlockName; }

	void Sync(NiStreamReversible& stream);
};

class BSEffectShaderPropertyFloatController
	: public NiCloneableStreamable<BSEffectShaderPropertyFloatController, NiFloatInterpController> {
public:
	uint32_t typeOfControlledVariable = 0;

	static constexpr const char* BlockName = "BSEffectShaderPropertyFloatController";
	const char* GetBlockName() override { return BlockName; }

	void Sync(NiStreamReversible& stream);
};

class NiAVObject;

class NiMultiTargetTransformController
	: public NiCloneableStreamable<NiMultiTargetTransformController, NiInterpController> {
public:
	NiBlockPtrShortArray<NiAVObject> targetRefs;

	static constexpr const char* BlockName = "NiMultiTargetTransformController";
	const char* GetBlockName() override { return BlockName; }

	void Sync(NiStreamReversible& stream);
	void GetPtrs(std::set<NiPtr*>& ptrs) override;
};

class NiPSysModifierCtlr : public NiCloneableStreamable<NiPSysModifierCtlr, NiSingleInterpController> {
public:
	NiStringRef modifierName;

	void Sync(NiStreamReversible& stream);
	void GetStringRefs(std::vector<NiStringRef*>& refs) override;
};

class NiPSysModifierBoolCtlr : public NiCloneable<NiPSysModifierBoolCtlr, NiPSysModifierCtlr> {};

class NiPSysModifierActiveCtlr : public NiCloneable<NiPSysModifierActiveCtlr, NiPSysModifierBoolCtlr> {
public:
	static constexpr const char* BlockName = "NiPSysModifierActiveCtlr";
	const char* GetBlockName() override { return BlockName; }
};

class NiPSysModifierFloatCtlr : public NiCloneable<NiPSysModifierFloatCtlr, NiPSysModifierCtlr> {};

class NiPSysEmitterLifeSpanCtlr : public NiCloneable<NiPSysEmitterLifeSpanCtlr, NiPSysModifierFloatCtlr> {
public:
	static constexpr const char* BlockName = "NiPSysEmitterLifeSpanCtlr";
	const char* GetBlockName() override { return BlockName; }
};

class NiPSysEmitterSpeedCtlr : public NiCloneable<NiPSysEmitterSpeedCtlr, NiPSysModifierFloatCtlr> {
public:
	static constexpr const char* BlockName = "NiPSysEmitterSpeedCtlr";
	const char* GetBlockName() override { return BlockName; }
};

class NiPSysEmitterInitialRadiusCtlr
	: public NiCloneable<NiPSysEmitterInitialRadiusCtlr, NiPSysModifierFloatCtlr> {
public:
	static constexpr const char* BlockName = "NiPSysEmitterInitialRadiusCtlr";
	const char* GetBlockName() override { return BlockName; }
};

class NiPSysEmitterDeclinationCtlr
	: public NiCloneable<NiPSysEmitterDeclinationCtlr, NiPSysModifierFloatCtlr> {
public:
	static constexpr const char* BlockName = "NiPSysEmitterDeclinationCtlr";
	const char* GetBlockName() override { return BlockName; }
};

class NiPSysGravityStrengthCtlr : public NiCloneable<NiPSysGravityStrengthCtlr, NiPSysModifierFloatCtlr> {
public:
	static constexpr const char* BlockName = "NiPSysGravityStrengthCtlr";
	const char* GetBlockName() override { return BlockName; }
};

class NiPSysEmitterDeclinationVarCtlr
	: public NiCloneable<NiPSysEmitterDeclinationVarCtlr, NiPSysModifierFloatCtlr> {
public:
	static constexpr const char* BlockName = "NiPSysEmitterDeclinationVarCtlr";
	const char* GetBlockName() override { return BlockName; }
};

class NiPSysFieldMagnitudeCtlr : public NiCloneable<NiPSysFieldMagnitudeCtlr, NiPSysModifierFloatCtlr> {
public:
	static constexpr const char* BlockName = "NiPSysFieldMagnitudeCtlr";
	const char* GetBlockName() override { return BlockName; }
};

class NiPSysFieldAttenuationCtlr : public NiCloneable<NiPSysFieldAttenuationCtlr, NiPSysModifierFloatCtlr> {
public:
	static constexpr const char* BlockName = "NiPSysFieldAttenuationCtlr";
	const char* GetBlockName() override { return BlockName; }
};

class NiPSysFieldMaxDistanceCtlr : public NiCloneable<NiPSysFieldMaxDistanceCtlr, NiPSysModifierFloatCtlr> {
public:
	static constexpr const char* BlockName = "NiPSysFieldMaxDistanceCtlr";
	const char* GetBlockName() override { return BlockName; }
};

class NiPSysAirFieldAirFrictionCtlr
	: public NiCloneable<NiPSysAirFieldAirFrictionCtlr, NiPSysModifierFloatCtlr> {
public:
	static constexpr const char* BlockName = "NiPSysAirFieldAirFrictionCtlr";
	const char* GetBlockName() override { return BlockName; }
};

class NiPSysAirFieldInheritVelocityCtlr
	: public NiCloneable<NiPSysAirFieldInheritVelocityCtlr, NiPSysModifierFloatCtlr> {
public:
	static constexpr const char* BlockName = "NiPSysAirFieldInheritVelocityCtlr";
	const char* GetBlockName() override { return BlockName; }
};

class NiPSysAirFieldSpreadCtlr : public NiCloneable<NiPSysAirFieldSpreadCtlr, NiPSysModifierFloatCtlr> {
public:
	static constexpr const char* BlockName = "NiPSysAirFieldSpreadCtlr";
	const char* GetBlockName() override { return BlockName; }
};

class NiPSysInitialRotSpeedCtlr : public NiCloneable<NiPSysInitialRotSpeedCtlr, NiPSysModifierFloatCtlr> {
public:
	static constexpr const char* BlockName = "NiPSysInitialRotSpeedCtlr";
	const char* GetBlockName() override { return BlockName; }
};

class NiPSysInitialRotSpeedVarCtlr
	: public NiCloneable<NiPSysInitialRotSpeedVarCtlr, NiPSysModifierFloatCtlr> {
public:
	static constexpr const char* BlockName = "NiPSysInitialRotSpeedVarCtlr";
	const char* GetBlockName() override { return BlockName; }
};

class NiPSysInitialRotAngleCtlr : public NiCloneable<NiPSysInitialRotAngleCtlr, NiPSysModifierFloatCtlr> {
public:
	static constexpr const char* BlockName = "NiPSysInitialRotAngleCtlr";
	const char* GetBlockName() override { return BlockName; }
};

class NiPSysInitialRotAngleVarCtlr
	: public NiCloneable<NiPSysInitialRotAngleVarCtlr, NiPSysModifierFloatCtlr> {
public:
	static constexpr const char* BlockName = "NiPSysInitialRotAngleVarCtlr";
	const char* GetBlockName() override { return BlockName; }
};

class NiPSysEmitterPlanarAngleCtlr
	: public NiCloneable<NiPSysEmitterPlanarAngleCtlr, NiPSysModifierFloatCtlr> {
public:
	static constexpr const char* BlockName = "NiPSysEmitterPlanarAngleCtlr";
	const char* GetBlockName() override { return BlockName; }
};

class NiPSysEmitterPlanarAngleVarCtlr
	: public NiCloneable<NiPSysEmitterPlanarAngleVarCtlr, NiPSysModifierFloatCtlr> {
public:
	static constexpr const char* BlockName = "NiPSysEmitterPlanarAngleVarCtlr";
	const char* GetBlockName() override { return BlockName; }
};

class NiPSysRotDampeningCtlr
	: public NiCloneable<NiPSysRotDampeningCtlr, NiPSysModifierFloatCtlr> {
public:
	static constexpr const char* BlockName = "NiPSysRotDampeningCtlr";
	const char* GetBlockName() override { return BlockName; }
};

class NiStringPalette : public NiCloneableStreamable<NiStringPalette, NiObject> {
public:
	NiString palette;
	uint32_t length = 0;

	static constexpr const char* BlockName = "NiStringPalette";
	const char* GetBlockName() override { return BlockName; }

	void Sync(NiStreamReversible& stream);
};

class ControllerLink {
public:
	NiString targetName;
	NiBlockRef<NiInterpolator> interpolatorRef;
	NiBlockRef<NiTimeController> controllerRef;

	NiBlockRef<NiBlendInterpolator> blendInterpolatorRef;
	uint16_t blendIndex = 0;

	uint8_t priority = 0;

	NiBlockRef<NiStringPalette> stringPaletteRef;
	uint32_t nodeNameOffset = 0;
	uint32_t propertyTypeOffset = 0;
	uint32_t controllerTypeOffset = 0;
	uint32_t controllerIDOffset = 0;
	uint32_t interpIDOffset = 0;

	NiStringRef nodeName;
	NiStringRef propType;
	NiStringRef ctrlType;
	NiStringRef ctrlID;
	NiStringRef interpID;

	void Sync(NiStreamReversible& stream) {
		if (stream.GetVersion().File() < V10_1_0_104)
			targetName.Sync(stream, 4);

		if (stream.GetVersion().File() >= V10_1_0_106)
			interpolatorRef.Sync(stream);

		if (stream.GetVersion().File() <= V20_5_0_0)
			controllerRef.Sync(stream);

		if (stream.GetVersion().File() >= V10_1_0_104 && stream.GetVersion().File() <= V10_1_0_110) {
			blendInterpolatorRef.Sync(stream);
			stream.Sync(blendIndex);
		}

		if (stream.GetVersion().File() >= V10_1_0_106 && stream.GetVersion().Stream() > 0)
			stream.Sync(priority);

		if ((stream.GetVersion().File() >= V10_1_0_104 && stream.GetVersion().File() < V10_1_0_114) ||
			(stream.GetVersion().File() >= V20_1_0_1)) {
			nodeName.Sync(stream);
			propType.Sync(stream);
			ctrlType.Sync(stream);
			ctrlID.Sync(stream);
			interpID.Sync(stream);
		}

		if (stream.GetVersion().File() >= V10_2_0_0 && stream.GetVersion().File() < V20_1_0_1) {
			stringPaletteRef.Sync(stream);
			stream.Sync(nodeNameOffset);
			stream.Sync(propertyTypeOffset);
			stream.Sync(controllerTypeOffset);
			stream.Sync(controllerIDOffset);
			stream.Sync(interpIDOffset);
		}
	}

	void GetStringRefs(std::vector<NiStringRef*>& refs) {
		refs.emplace_back(&nodeName);
		refs.emplace_back(&propType);
		refs.emplace_back(&ctrlType);
		refs.emplace_back(&ctrlID);
		refs.emplace_back(&interpID);
	}

	void GetChildRefs(std::set<NiRef*>& refs) {
		refs.insert(&interpolatorRef);
		refs.insert(&controllerRef);
		refs.insert(&blendInterpolatorRef);
		refs.insert(&stringPaletteRef);
	}

	void GetChildIndices(std::vector<uint32_t>& indices) {
		indices.push_back(interpolatorRef.index);
		indices.push_back(controllerRef.index);
		indices.push_back(blendInterpolatorRef.index);
		indices.push_back(stringPaletteRef.index);
	}
};

class NiSequence : public NiCloneableStreamable<NiSequence, NiObject> {
public:
	NiStringRef name;
	uint32_t arrayGrowBy = 0;

	NiSyncVector<ControllerLink> controlledBlocks;

	static constexpr const char* BlockName = "NiSequence";
	const char* GetBlockName() override { return BlockName; }

	void Sync(NiStreamReversible& stream);
	void GetStringRefs(std::vector<NiStringRef*>& refs) override;
	void GetChildRefs(std::set<NiRef*>& refs) override;
	void GetChildIndices(std::vector<uint32_t>& indices) override;
};

enum CycleType : uint32_t { CYCLE_LOOP, CYCLE_REVERSE, CYCLE_CLAMP };

class BSAnimNote : public NiCloneableStreamable<BSAnimNote, NiObject> {
public:
	enum AnimNoteType : uint32_t { ANT_INVALID, ANT_GRABIK, ANT_LOOKIK };

	AnimNoteType type = ANT_INVALID;
	float time = 0.0f;
	uint32_t arm = 0;
	float gain = 0.0f;
	uint32_t state = 0;

	static constexpr const char* BlockName = "BSAnimNote";
	const char* GetBlockName() override { return BlockName; }

	void Sync(NiStreamReversible& stream);
};

class BSAnimNotes : public NiCloneableStreamable<BSAnimNotes, NiObject> {
public:
	NiBlockRefShortArray<BSAnimNote> animNoteRefs;

	static constexpr const char* BlockName = "BSAnimNotes";
	const char* GetBlockName() override { return BlockName; }

	void Sync(NiStreamReversible& stream);
	void GetChildRefs(std::set<NiRef*>& refs) override;
	void GetChildIndices(std::vector<uint32_t>& indices) override;
};

class NiControllerManager;

class NiControllerSequence : public NiCloneableStreamable<NiControllerSequence, NiSequence> {
public:
	float weight = 1.0f;
	NiBlockRef<NiTextKeyExtraData> textKeyRef;
	CycleType cycleType = CYCLE_LOOP;
	float frequency = 0.0f;
	float phase = 0.0f;
	float startTime = 0.0f;
	float stopTime = 0.0f;
	bool playBackwards = false;
	NiBlockPtr<NiControllerManager> managerRef;
	NiStringRef accumRootName;

	NiBlockRef<NiStringPalette> stringPaletteRef;

	NiBlockRef<BSAnimNotes> animNotesRef;
	NiBlockRefShortArray<BSAnimNotes> animNotesRefs;

	static constexpr const char* BlockName = "NiControllerSequence";
	const char* GetBlockName() override { return BlockName; }

	void Sync(NiStreamReversible& stream);
	void GetStringRefs(std::vector<NiStringRef*>& refs) override;
	void GetChildRefs(std::set<NiRef*>& refs) override;
	void GetChildIndices(std::vector<uint32_t>& indices) override;
	void GetPtrs(std::set<NiPtr*>& ptrs) override;
};

class NiDefaultAVObjectPalette;

class NiControllerManager : public NiCloneableStreamable<NiControllerManager, NiTimeController> {
public:
	bool cumulative = false;
	NiBlockRefArray<NiControllerSequence> controllerSequenceRefs;
	NiBlockRef<NiDefaultAVObjectPalette> objectPaletteRef;

	static constexpr const char* BlockName = "NiControllerManager";
	const char* GetBlockName() override { return BlockName; }

	void Sync(NiStreamReversible& stream);
	void GetChildRefs(std::set<NiRef*>& refs) override;
	void GetChildIndices(std::vector<uint32_t>& indices) override;
};
} // namespace nifly
