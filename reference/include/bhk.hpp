/*
nifly
C++ NIF library for the Gamebryo/NetImmerse File Format
See the included GPLv3 LICENSE file
*/

#pragma once

#include "Animation.hpp"
#include "BasicTypes.hpp"
#include "ExtraData.hpp"

namespace nifly {
using HavokMaterial = uint32_t;

struct HavokFilter {
	uint8_t layer = 1;
	uint8_t flagsAndParts = 0;
	uint16_t group = 0;
};

struct hkWorldObjCInfoProperty {
	uint32_t data = 0;
	uint32_t size = 0;
	uint32_t capacityAndFlags = 0x80000000;
};

enum MotorType : uint8_t { MOTOR_NONE = 0, MOTOR_POSITION = 1, MOTOR_VELOCITY = 2, MOTOR_SPRING = 3 };

struct bhkLimitedForceConstraintMotor {
	float minForce = -1000000.0f;
	float maxForce = 1000000.0f;
	bool motorEnabled = false;
};

struct bhkPositionConstraintMotor : bhkLimitedForceConstraintMotor {
	float tau = 0.8f;
	float damping = 1.0f;
	float proportionalRecoveryVelocity = 2.0f;
	float constantRecoveryVelocity = 1.0f;

	void Sync(NiStreamReversible& stream) {
		stream.Sync(minForce);
		stream.Sync(maxForce);
		stream.Sync(tau);
		stream.Sync(damping);
		stream.Sync(proportionalRecoveryVelocity);
		stream.Sync(constantRecoveryVelocity);
		stream.Sync(motorEnabled);
	}
};

struct bhkVelocityConstraintMotor : bhkLimitedForceConstraintMotor {
	float tau = 0.0f;
	float velocityTarget = 0.0f;
	bool useVelocityTargetFromConstraintTargets = 0.0f;

	void Sync(NiStreamReversible& stream) {
		stream.Sync(minForce);
		stream.Sync(maxForce);
		stream.Sync(tau);
		stream.Sync(velocityTarget);
		stream.Sync(useVelocityTargetFromConstraintTargets);
		stream.Sync(motorEnabled);
	}
};

struct bhkSpringDamperConstraintMotor : bhkLimitedForceConstraintMotor {
	float springConstant = 0.0f;
	float springDamping = 0.0f;

	void Sync(NiStreamReversible& stream) {
		stream.Sync(minForce);
		stream.Sync(maxForce);
		stream.Sync(springConstant);
		stream.Sync(springDamping);
		stream.Sync(motorEnabled);
	}
};

struct MotorDesc {
	MotorType motorType = MOTOR_NONE;
	bhkPositionConstraintMotor motorPosition;
	bhkVelocityConstraintMotor motorVelocity;
	bhkSpringDamperConstraintMotor motorSpringDamper;

	void Sync(NiStreamReversible& stream) {
		stream.Sync(motorType);

		switch (motorType) {
			case MOTOR_POSITION: motorPosition.Sync(stream); break;
			case MOTOR_VELOCITY: motorVelocity.Sync(stream); break;
			case MOTOR_SPRING: motorSpringDamper.Sync(stream); break;
			case MOTOR_NONE: break;
		}
	}
};

struct HingeDesc {
	Vector4 axleA;
	Vector4 axleInA1;
	Vector4 axleInA2;
	Vector4 pivotA;
	Vector4 axleB;
	Vector4 axleInB1;
	Vector4 axleInB2;
	Vector4 pivotB;

	void Sync(NiStreamReversible& stream) {
		if (stream.GetVersion().File() <= NiFileVersion::V20_0_0_5) {
			stream.Sync(pivotA);
			stream.Sync(axleInA1);
			stream.Sync(axleInA2);
			stream.Sync(pivotB);
			stream.Sync(axleB);
		}
		else if (stream.GetVersion().File() >= NiFileVersion::V20_2_0_7) {
			stream.Sync(axleA);
			stream.Sync(axleInA1);
			stream.Sync(axleInA2);
			stream.Sync(pivotA);
			stream.Sync(axleB);
			stream.Sync(axleInB1);
			stream.Sync(axleInB2);
			stream.Sync(pivotB);
		}
	}
};

struct LimitedHingeDesc {
	Vector4 axleA;
	Vector4 axleInA1;
	Vector4 axleInA2;
	Vector4 pivotA;
	Vector4 axleB;
	Vector4 axleInB1;
	Vector4 axleInB2;
	Vector4 pivotB;
	float minAngle = 0.0f;
	float maxAngle = 0.0f;
	float maxFriction = 0.0f;
	MotorDesc motorDesc;

	void Sync(NiStreamReversible& stream) {
		if (stream.GetVersion().Stream() <= 16) {
			stream.Sync(pivotA);
			stream.Sync(axleA);
			stream.Sync(axleInA1);
			stream.Sync(axleInA2);
			stream.Sync(pivotB);
			stream.Sync(axleB);
			stream.Sync(axleInB2);
		}
		else {
			stream.Sync(axleA);
			stream.Sync(axleInA1);
			stream.Sync(axleInA2);
			stream.Sync(pivotA);
			stream.Sync(axleB);
			stream.Sync(axleInB1);
			stream.Sync(axleInB2);
			stream.Sync(pivotB);
		}

		stream.Sync(minAngle);
		stream.Sync(maxAngle);
		stream.Sync(maxFriction);

		if (stream.GetVersion().File() >= NiFileVersion::V20_2_0_7 && stream.GetVersion().Stream() > 16)
			motorDesc.Sync(stream);
	}
};

struct RagdollDesc {
	Vector4 twistA;
	Vector4 planeA;
	Vector4 motorA;
	Vector4 pivotA;
	Vector4 twistB;
	Vector4 planeB;
	Vector4 motorB;
	Vector4 pivotB;
	float coneMaxAngle = 0.0f;
	float planeMinAngle = 0.0f;
	float planeMaxAngle = 0.0f;
	float twistMinAngle = 0.0f;
	float twistMaxAngle = 0.0f;
	float maxFriction = 0.0f;
	MotorDesc motorDesc;

	void Sync(NiStreamReversible& stream) {
		if (stream.GetVersion().Stream() <= 16) {
			stream.Sync(pivotA);
			stream.Sync(planeA);
			stream.Sync(twistA);
			stream.Sync(pivotB);
			stream.Sync(planeB);
			stream.Sync(twistB);
		}
		else {
			stream.Sync(twistA);
			stream.Sync(planeA);
			stream.Sync(motorA);
			stream.Sync(pivotA);
			stream.Sync(twistB);
			stream.Sync(planeB);
			stream.Sync(motorB);
			stream.Sync(pivotB);
		}

		stream.Sync(coneMaxAngle);
		stream.Sync(planeMinAngle);
		stream.Sync(planeMaxAngle);
		stream.Sync(twistMinAngle);
		stream.Sync(twistMaxAngle);
		stream.Sync(maxFriction);

		if (stream.GetVersion().File() >= NiFileVersion::V20_2_0_7 && stream.GetVersion().Stream() > 16)
			motorDesc.Sync(stream);
	}
};

struct StiffSpringDesc {
	Vector4 pivotA;
	Vector4 pivotB;
	float length = 0.0f;
};

struct BallAndSocketDesc {
	Vector4 translationA;
	Vector4 translationB;
};

struct PrismaticDesc {
	Vector4 slidingA;
	Vector4 rotationA;
	Vector4 planeA;
	Vector4 pivotA;
	Vector4 slidingB;
	Vector4 rotationB;
	Vector4 planeB;
	Vector4 pivotB;
	float minDistance = 0.0f;
	float maxDistance = 0.0f;
	float friction = 0.0f;
	MotorDesc motorDesc;

	void Sync(NiStreamReversible& stream) {
		if (stream.GetVersion().File() <= NiFileVersion::V20_0_0_5) {
			stream.Sync(pivotA);
			stream.Sync(rotationA);
			stream.Sync(planeA);
			stream.Sync(slidingA);
			stream.Sync(slidingB);
			stream.Sync(pivotB);
			stream.Sync(rotationB);
			stream.Sync(planeB);
		}
		else if (stream.GetVersion().File() >= NiFileVersion::V20_2_0_7) {
			stream.Sync(slidingA);
			stream.Sync(rotationA);
			stream.Sync(planeA);
			stream.Sync(pivotA);
			stream.Sync(slidingB);
			stream.Sync(rotationB);
			stream.Sync(planeB);
			stream.Sync(pivotB);
		}

		stream.Sync(minDistance);
		stream.Sync(maxDistance);
		stream.Sync(friction);

		if (stream.GetVersion().File() >= NiFileVersion::V20_2_0_7 && stream.GetVersion().Stream() > 16)
			motorDesc.Sync(stream);
	}
};

enum hkConstraintType : uint32_t {
	BallAndSocket = 0,
	Hinge = 1,
	LimitedHinge = 2,
	Prismatic = 6,
	Ragdoll = 7,
	StiffSpring = 8
};

struct bhkCMSDMaterial {
	HavokMaterial material = 0;
	HavokFilter layer;
};

class bhkCMSDBigTris {
public:
	uint16_t triangle1 = 0;
	uint16_t triangle2 = 0;
	uint16_t triangle3 = 0;
	HavokMaterial material = 0;
	uint16_t weldingInfo = 0;

	void Sync(NiStreamReversible& stream) {
		stream.Sync(triangle1);
		stream.Sync(triangle2);
		stream.Sync(triangle3);
		stream.Sync(material);
		stream.Sync(weldingInfo);
	}
};

struct bhkCMSDTransform {
	Vector4 translation;
	QuaternionXYZW rotation;
};

class bhkCMSDChunk {
public:
	Vector4 translation;
	uint32_t matIndex = 0;
	uint16_t reference = 0;
	uint16_t transformIndex = 0;

	NiVector<uint16_t> verts;
	NiVector<uint16_t> indices;
	NiVector<uint16_t> strips;
	NiVector<uint16_t> weldingInfo;

	void Sync(NiStreamReversible& stream) {
		stream.Sync(translation);
		stream.Sync(matIndex);
		stream.Sync(reference);
		stream.Sync(transformIndex);

		verts.Sync(stream);
		indices.Sync(stream);
		strips.Sync(stream);
		weldingInfo.Sync(stream);
	}
};

class NiAVObject;

class NiCollisionObject : public NiCloneableStreamable<NiCollisionObject, NiObject> {
public:
	NiBlockPtr<NiAVObject> targetRef;

	static constexpr const char* BlockName = "NiCollisionObject";
	const char* GetBlockName() override { return BlockName; }

	void Sync(NiStreamReversible& stream);
	void GetPtrs(std::set<NiPtr*>& ptrs) override;
};

enum PropagationMode : uint32_t {
	PROPAGATE_ON_SUCCESS,
	PROPAGATE_ON_FAILURE,
	PROPAGATE_ALWAYS,
	PROPAGATE_NEVER
};

enum CollisionMode : uint32_t { CM_USE_OBB, CM_USE_TRI, CM_USE_ABV, CM_NOTEST, CM_USE_NIBOUND };

enum BoundVolumeType : uint32_t {
	BASE_BV = 0xFFFFFFFF,
	SPHERE_BV = 0,
	BOX_BV = 1,
	CAPSULE_BV = 2,
	UNION_BV = 4,
	HALFSPACE_BV = 5
};

struct BoxBV {
	Vector3 center;
	Vector3 axis1;
	Vector3 axis2;
	Vector3 axis3;
	float extent1 = 0.0f;
	float extent2 = 0.0f;
	float extent3 = 0.0f;
};

struct CapsuleBV {
	Vector3 center;
	Vector3 origin;
	float extent = 0.0f;
	float radius = 0.0f;
};

struct HalfSpaceBV {
	NiPlane plane;
	Vector3 center;
};

struct UnionBV;

struct BoundingVolume {
	BoundVolumeType collisionType = BASE_BV;
	BoundingSphere bvSphere;
	BoxBV bvBox;
	CapsuleBV bvCapsule;
	std::unique_ptr<UnionBV> bvUnion = std::make_unique<UnionBV>();
	HalfSpaceBV bvHalfSpace;

	BoundingVolume() = default;

	BoundingVolume(const BoundingVolume& other)
		: collisionType(other.collisionType)
		, bvSphere(other.bvSphere)
		, bvBox(other.bvBox)
		, bvCapsule(other.bvCapsule)
		, bvUnion(std::make_unique<UnionBV>(*other.bvUnion))
		, bvHalfSpace(other.bvHalfSpace) {}

	void Sync(NiStreamReversible& stream);
};

struct UnionBV {
	uint32_t numBV = 0;
	std::vector<BoundingVolume> boundingVolumes;

	void Sync(NiStreamReversible& stream) {
		stream.Sync(numBV);
		boundingVolumes.resize(numBV);
		for (uint32_t i = 0; i < numBV; i++)
			boundingVolumes[i].Sync(stream);
	}
};

class NiCollisionData : public NiCloneableStreamable<NiCollisionData, NiCollisionObject> {
public:
	PropagationMode propagationMode = PROPAGATE_ON_SUCCESS;
	CollisionMode collisionMode = CM_USE_OBB;
	bool useABV = false;
	BoundingVolume boundingVolume;

	static constexpr const char* BlockName = "NiCollisionData";
	const char* GetBlockName() override { return BlockName; }

	void Sync(NiStreamReversible& stream);
};

class bhkNiCollisionObject : public NiCloneableStreamable<bhkNiCollisionObject, NiCollisionObject> {
public:
	uint16_t flags = 1;
	NiBlockRef<NiObject> bodyRef;

	static constexpr const char* BlockName = "bhkNiCollisionObject";
	const char* GetBlockName() override { return BlockName; }

	void Sync(NiStreamReversible& stream);
	void GetChildRefs(std::set<NiRef*>& refs) override;
	void GetChildIndices(std::vector<uint32_t>& indices) override;
};

class bhkCollisionObject : public NiCloneable<bhkCollisionObject, bhkNiCollisionObject> {
public:
	static constexpr const char* BlockName = "bhkCollisionObject";
	const char* GetBlockName() override { return BlockName; }
};

class bhkNPCollisionObject : public NiCloneableStreamable<bhkNPCollisionObject, bhkCollisionObject> {
public:
	uint32_t bodyID = 0;

	static constexpr const char* BlockName = "bhkNPCollisionObject";
	const char* GetBlockName() override { return BlockName; }

	void Sync(NiStreamReversible& stream);
};

class bhkPCollisionObject : public NiCloneable<bhkPCollisionObject, bhkNiCollisionObject> {
public:
	static constexpr const char* BlockName = "bhkPCollisionObject";
	const char* GetBlockName() override { return BlockName; }
};

class bhkSPCollisionObject : public NiCloneable<bhkSPCollisionObject, bhkPCollisionObject> {
public:
	static constexpr const char* BlockName = "bhkSPCollisionObject";
	const char* GetBlockName() override { return BlockName; }
};

class bhkBlendCollisionObject : public NiCloneableStreamable<bhkBlendCollisionObject, bhkCollisionObject> {
public:
	float heirGain = 0.0f;
	float velGain = 0.0f;

	static constexpr const char* BlockName = "bhkBlendCollisionObject";
	const char* GetBlockName() override { return BlockName; }

	void Sync(NiStreamReversible& stream);
};

class bhkPhysicsSystem : public NiCloneableStreamable<bhkPhysicsSystem, BSExtraData> {
public:
	NiVector<char> data;

	bhkPhysicsSystem(const uint32_t size = 0);

	static constexpr const char* BlockName = "bhkPhysicsSystem";
	const char* GetBlockName() override { return BlockName; }

	void Sync(NiStreamReversible& stream);
};

class bhkRagdollSystem : public NiCloneableStreamable<bhkRagdollSystem, BSExtraData> {
public:
	NiVector<char> data;

	bhkRagdollSystem(const uint32_t size = 0);

	static constexpr const char* BlockName = "bhkRagdollSystem";
	const char* GetBlockName() override { return BlockName; }

	void Sync(NiStreamReversible& stream);
};

class bhkBlendController : public NiCloneableStreamable<bhkBlendController, NiTimeController> {
public:
	uint32_t keys = 0;

	static constexpr const char* BlockName = "bhkBlendController";
	const char* GetBlockName() override { return BlockName; }

	void Sync(NiStreamReversible& stream);
};

class bhkRefObject : public NiCloneable<bhkRefObject, NiObject> {};

class bhkSerializable : public NiCloneable<bhkSerializable, bhkRefObject> {};

class bhkShape : public NiCloneable<bhkShape, bhkSerializable> {
public:
	virtual HavokMaterial GetMaterial() const { return 0; }
	virtual void SetMaterial(HavokMaterial) {}
};

class bhkHeightFieldShape : public NiCloneableStreamable<bhkHeightFieldShape, bhkShape> {
protected:
	HavokMaterial material = 0;

public:
	void Sync(NiStreamReversible& stream);

	HavokMaterial GetMaterial() const override { return material; }
	void SetMaterial(HavokMaterial mat) override { material = mat; }
};

class bhkPlaneShape : public NiCloneableStreamable<bhkPlaneShape, bhkHeightFieldShape> {
protected:
public:
	Vector3 unkVec;
	NiPlane plane;
	Vector4 halfExtents;
	Vector4 center;

	static constexpr const char* BlockName = "bhkPlaneShape";
	const char* GetBlockName() override { return BlockName; }

	void Sync(NiStreamReversible& stream);
};

class bhkSphereRepShape : public NiCloneableStreamable<bhkSphereRepShape, bhkShape> {
protected:
	HavokMaterial material = 0;

public:
	void Sync(NiStreamReversible& stream);

	HavokMaterial GetMaterial() const override { return material; }
	void SetMaterial(HavokMaterial mat) override { material = mat; }
};

class bhkConvexShape : public NiCloneableStreamable<bhkConvexShape, bhkSphereRepShape> {
public:
	float radius = 0.0f;

	void Sync(NiStreamReversible& stream);
};

class bhkMultiSphereShape : public NiCloneableStreamable<bhkMultiSphereShape, bhkSphereRepShape> {
public:
	hkWorldObjCInfoProperty shapeProperty;
	NiVector<BoundingSphere> spheres;

	static constexpr const char* BlockName = "bhkMultiSphereShape";
	const char* GetBlockName() override { return BlockName; }

	void Sync(NiStreamReversible& stream);
};

class bhkConvexListShape : public NiCloneableStreamable<bhkConvexListShape, bhkShape> {
public:
	NiBlockRefArray<bhkConvexShape> shapeRefs;
	HavokMaterial material = 0;
	float radius = 0.0f;
	uint32_t unkInt1 = 0;
	float unkFloat1 = 0.0f;
	hkWorldObjCInfoProperty childShapeProp;
	bool useCachedAABB = false;
	float closestPointMinDistance = 0.0f;

	static constexpr const char* BlockName = "bhkConvexListShape";
	const char* GetBlockName() override { return BlockName; }

	void Sync(NiStreamReversible& stream);
	void GetChildRefs(std::set<NiRef*>& refs) override;
	void GetChildIndices(std::vector<uint32_t>& indices) override;
};

class bhkConvexVerticesShape : public NiCloneableStreamable<bhkConvexVerticesShape, bhkConvexShape> {
public:
	hkWorldObjCInfoProperty vertsProp;
	hkWorldObjCInfoProperty normalsProp;

	NiVector<Vector4> verts;
	NiVector<Vector4> normals;

	static constexpr const char* BlockName = "bhkConvexVerticesShape";
	const char* GetBlockName() override { return BlockName; }

	void Sync(NiStreamReversible& stream);
};

class bhkBoxShape : public NiCloneableStreamable<bhkBoxShape, bhkConvexShape> {
private:
	uint64_t padding = 0;

public:
	Vector3 dimensions;
	float radius2 = 0.0f;

	static constexpr const char* BlockName = "bhkBoxShape";
	const char* GetBlockName() override { return BlockName; }

	void Sync(NiStreamReversible& stream);
};

class bhkSphereShape : public NiCloneable<bhkSphereShape, bhkConvexShape> {
public:
	static constexpr const char* BlockName = "bhkSphereShape";
	const char* GetBlockName() override { return BlockName; }
};

class bhkCylinderShape : public NiCloneableStreamable<bhkCylinderShape, bhkConvexShape> {
private:
	uint8_t unused1[8]{};
	uint8_t unused2[12]{};

public:
	Vector4 vertexA;
	Vector4 vertexB;
	float cylinderRadius = 0.0f;

	static constexpr const char* BlockName = "bhkCylinderShape";
	const char* GetBlockName() override { return BlockName; }

	void Sync(NiStreamReversible& stream);
};

class bhkTransformShape : public NiCloneableStreamable<bhkTransformShape, bhkShape> {
private:
	uint64_t padding = 0;

public:
	NiBlockRef<bhkShape> shapeRef;
	HavokMaterial material = 0;
	float radius = 0.0f;
	Matrix4 xform;

	static constexpr const char* BlockName = "bhkTransformShape";
	const char* GetBlockName() override { return BlockName; }

	void Sync(NiStreamReversible& stream);
	void GetChildRefs(std::set<NiRef*>& refs) override;
	void GetChildIndices(std::vector<uint32_t>& indices) override;
};

class bhkConvexTransformShape : public NiCloneable<bhkConvexTransformShape, bhkTransformShape> {
public:
	static constexpr const char* BlockName = "bhkConvexTransformShape";
	const char* GetBlockName() override { return BlockName; }
};

class bhkCapsuleShape : public NiCloneableStreamable<bhkCapsuleShape, bhkConvexShape> {
private:
	uint64_t padding = 0;

public:
	Vector3 point1;
	float radius1 = 0.0f;
	Vector3 point2;
	float radius2 = 0.0f;

	static constexpr const char* BlockName = "bhkCapsuleShape";
	const char* GetBlockName() override { return BlockName; }

	void Sync(NiStreamReversible& stream);
};

class bhkBvTreeShape : public NiCloneable<bhkBvTreeShape, bhkShape> {};

class bhkMoppBvTreeShape : public NiCloneableStreamable<bhkMoppBvTreeShape, bhkBvTreeShape> {
public:
	NiBlockRef<bhkShape> shapeRef;
	uint32_t userData = 0;
	uint32_t shapeCollection = 0;
	uint32_t code = 0;
	float scale = 0.0f;
	NiVector<uint8_t> data;
	Vector4 offset;
	uint8_t buildType = 2; // User Version >= 12

	static constexpr const char* BlockName = "bhkMoppBvTreeShape";
	const char* GetBlockName() override { return BlockName; }

	void Sync(NiStreamReversible& stream);
	void GetChildRefs(std::set<NiRef*>& refs) override;
	void GetChildIndices(std::vector<uint32_t>& indices) override;
};

class NiTriStripsData;

class bhkNiTriStripsShape : public NiCloneableStreamable<bhkNiTriStripsShape, bhkShape> {
protected:
	HavokMaterial material = 0;

public:
	float radius = 0.1f;
	uint32_t unused1 = 0;
	uint32_t unused2 = 0;
	uint32_t unused3 = 0;
	uint32_t unused4 = 0;
	uint32_t unused5 = 0;
	uint32_t growBy = 1;
	Vector4 scale = Vector4(1.0f, 1.0f, 1.0f, 1.0f);

	NiBlockRefArray<NiTriStripsData> partRefs;
	NiVector<uint32_t> filters;

	static constexpr const char* BlockName = "bhkNiTriStripsShape";
	const char* GetBlockName() override { return BlockName; }

	void Sync(NiStreamReversible& stream);
	void GetChildRefs(std::set<NiRef*>& refs) override;
	void GetChildIndices(std::vector<uint32_t>& indices) override;

	HavokMaterial GetMaterial() const override { return material; }
	void SetMaterial(HavokMaterial mat) override { material = mat; }
};

class bhkShapeCollection : public NiCloneable<bhkShapeCollection, bhkShape> {};

class bhkListShape : public NiCloneableStreamable<bhkListShape, bhkShapeCollection> {
protected:
	HavokMaterial material = 0;

public:
	NiBlockRefArray<bhkShape> subShapeRefs;
	hkWorldObjCInfoProperty childShapeProp;
	hkWorldObjCInfoProperty childFilterProp;
	NiVector<HavokFilter> filters;

	static constexpr const char* BlockName = "bhkListShape";
	const char* GetBlockName() override { return BlockName; }

	void Sync(NiStreamReversible& stream);
	void GetChildRefs(std::set<NiRef*>& refs) override;
	void GetChildIndices(std::vector<uint32_t>& indices) override;

	HavokMaterial GetMaterial() const override { return material; }
	void SetMaterial(HavokMaterial mat) override { material = mat; }
};

struct hkTriangleData {
	Triangle tri;
	uint16_t weldingInfo = 0;
};

struct hkTriangleNormalData {
	Triangle tri;
	uint16_t weldingInfo = 0;
	Vector3 normal;
};

struct hkSubPartData {
	HavokFilter filter;
	uint32_t numVerts = 0;
	HavokMaterial material = 0;
};

class hkPackedNiTriStripsData : public NiCloneableStreamable<hkPackedNiTriStripsData, bhkShapeCollection> {
public:
	uint32_t keyCount = 0;
	std::vector<hkTriangleData> triData;
	std::vector<hkTriangleNormalData> triNormData;

	uint32_t numVerts = 0;
	bool compressed = false;
	std::vector<Vector3> compressedVertData;

	NiVector<hkSubPartData, uint16_t> subPartData;

	static constexpr const char* BlockName = "hkPackedNiTriStripsData";
	const char* GetBlockName() override { return BlockName; }

	void Sync(NiStreamReversible& stream);
};

class bhkPackedNiTriStripsShape
	: public NiCloneableStreamable<bhkPackedNiTriStripsShape, bhkShapeCollection> {
private:
	uint32_t unused1 = 0;
	uint32_t unused2 = 0;

public:
	NiVector<hkSubPartData, uint16_t> subPartData;

	uint32_t userData = 0;
	float radius = 0.0f;
	Vector4 scaling;
	float radius2 = 0.0f;
	Vector4 scaling2;
	NiBlockRef<hkPackedNiTriStripsData> dataRef;

	static constexpr const char* BlockName = "bhkPackedNiTriStripsShape";
	const char* GetBlockName() override { return BlockName; }

	void Sync(NiStreamReversible& stream);
	void GetChildRefs(std::set<NiRef*>& refs) override;
	void GetChildIndices(std::vector<uint32_t>& indices) override;
};

class bhkLiquidAction : public NiCloneableStreamable<bhkLiquidAction, bhkSerializable> {
public:
	uint32_t userData = 0;
	uint32_t unkInt1 = 0;
	uint32_t unkInt2 = 0;
	float initialStickForce = 0.0f;
	float stickStrength = 0.0f;
	float neighborDistance = 0.0f;
	float neighborStrength = 0.0f;

	static constexpr const char* BlockName = "bhkLiquidAction";
	const char* GetBlockName() override { return BlockName; }

	void Sync(NiStreamReversible& stream);
};

class bhkOrientHingedBodyAction : public NiCloneableStreamable<bhkOrientHingedBodyAction, bhkSerializable> {
private:
	uint64_t padding = 0;
	uint64_t padding2 = 0;

public:
	NiBlockPtr<NiObject> bodyRef;
	uint32_t unkInt1 = 0;
	uint32_t unkInt2 = 0;
	Vector4 hingeAxisLS;
	Vector4 forwardLS;
	float strength = 0.0f;
	float damping = 0.0f;

	static constexpr const char* BlockName = "bhkOrientHingedBodyAction";
	const char* GetBlockName() override { return BlockName; }

	void Sync(NiStreamReversible& stream);
	void GetPtrs(std::set<NiPtr*>& ptrs) override;
};

class bhkWorldObject : public NiCloneableStreamable<bhkWorldObject, bhkSerializable> {
public:
	NiBlockRef<bhkShape> shapeRef;
	HavokFilter collisionFilter;
	int unkInt1 = 0;
	uint8_t broadPhaseType = 0;
	uint8_t unkBytes[3]{};
	hkWorldObjCInfoProperty prop;

	void Sync(NiStreamReversible& stream);
	void GetChildRefs(std::set<NiRef*>& refs) override;
	void GetChildIndices(std::vector<uint32_t>& indices) override;
};

class bhkPhantom : public NiCloneable<bhkPhantom, bhkWorldObject> {};

class bhkShapePhantom : public NiCloneable<bhkShapePhantom, bhkPhantom> {};

class bhkSimpleShapePhantom : public NiCloneableStreamable<bhkSimpleShapePhantom, bhkShapePhantom> {
private:
	uint64_t padding = 0;

public:
	Matrix4 transform;

	static constexpr const char* BlockName = "bhkSimpleShapePhantom";
	const char* GetBlockName() override { return BlockName; }

	void Sync(NiStreamReversible& stream);
};

class bhkAabbPhantom : public NiCloneableStreamable<bhkAabbPhantom, bhkShapePhantom> {
private:
	uint64_t padding = 0;

public:
	Vector4 aabbMin;
	Vector4 aabbMax;

	static constexpr const char* BlockName = "bhkAabbPhantom";
	const char* GetBlockName() override { return BlockName; }

	void Sync(NiStreamReversible& stream);
};

class bhkEntity : public NiCloneable<bhkEntity, bhkWorldObject> {};

enum hkResponseType : uint8_t {
	RESPONSE_INVALID,
	RESPONSE_SIMPLE_CONTACT,
	RESPONSE_REPORTING,
	RESPONSE_NONE
};

class bhkRigidBody : public NiCloneableStreamable<bhkRigidBody, bhkEntity> {
public:
	hkResponseType collisionResponse = RESPONSE_SIMPLE_CONTACT;
	uint8_t unusedByte1 = 0;
	uint16_t processContactCallbackDelay = 0xFFFF;
	uint32_t unkInt1 = 0;
	HavokFilter collisionFilterCopy;
	uint16_t unkShorts2[6]{};
	Vector4 translation;
	QuaternionXYZW rotation;
	Vector4 linearVelocity;
	Vector4 angularVelocity;
	float inertiaMatrix[12]{};
	Vector4 center;
	float mass = 1.0f;
	float linearDamping = 0.1f;
	float angularDamping = 0.05f;
	float timeFactor = 1.0f;	// User Version >= 12
	float gravityFactor = 1.0f; // User Version >= 12
	float friction = 0.5f;
	float rollingFrictionMult = 1.0f; // User Version >= 12
	float restitution = 0.4f;
	float maxLinearVelocity = 104.4f;
	float maxAngularVelocity = 31.57f;
	float penetrationDepth = 0.15f;
	uint8_t motionSystem = 1;
	uint8_t deactivatorType = 1;
	uint8_t solverDeactivation = 1;
	uint8_t qualityType = 1;
	uint8_t autoRemoveLevel = 0;
	uint8_t responseModifierFlag = 0;
	uint8_t numShapeKeysInContactPointProps = 0;
	bool forceCollideOntoPpu = false;
	uint32_t unusedInts1[3]{};
	uint8_t unusedBytes2[3]{};
	NiBlockRefArray<bhkSerializable> constraintRefs;
	uint32_t bodyFlagsInt = 0;
	uint16_t bodyFlags = 0;

	static constexpr const char* BlockName = "bhkRigidBody";
	const char* GetBlockName() override { return BlockName; }

	void Sync(NiStreamReversible& stream);
	void GetChildRefs(std::set<NiRef*>& refs) override;
	void GetChildIndices(std::vector<uint32_t>& indices) override;
};

class bhkRigidBodyT : public NiCloneable<bhkRigidBodyT, bhkRigidBody> {
public:
	static constexpr const char* BlockName = "bhkRigidBodyT";
	const char* GetBlockName() override { return BlockName; }
};

class bhkConstraint : public NiCloneableStreamable<bhkConstraint, bhkSerializable> {
public:
	NiBlockPtrArray<bhkEntity> entityRefs;
	uint32_t priority = 0;

	void Sync(NiStreamReversible& stream);
	void GetPtrs(std::set<NiPtr*>& ptrs) override;
};

class bhkHingeConstraint : public NiCloneableStreamable<bhkHingeConstraint, bhkConstraint> {
public:
	HingeDesc hinge;

	static constexpr const char* BlockName = "bhkHingeConstraint";
	const char* GetBlockName() override { return BlockName; }

	void Sync(NiStreamReversible& stream);
};

class bhkLimitedHingeConstraint : public NiCloneableStreamable<bhkLimitedHingeConstraint, bhkConstraint> {
public:
	LimitedHingeDesc limitedHinge;

	static constexpr const char* BlockName = "bhkLimitedHingeConstraint";
	const char* GetBlockName() override { return BlockName; }

	void Sync(NiStreamReversible& stream);
};

class ConstraintData {
public:
	hkConstraintType type = BallAndSocket;
	NiBlockRefArray<bhkEntity> entityRefs;
	uint32_t priority = 1;

	BallAndSocketDesc desc1;
	HingeDesc desc2;
	LimitedHingeDesc desc3;
	PrismaticDesc desc4;
	RagdollDesc desc5;
	StiffSpringDesc desc6;

	float tau = 0.0f;
	float damping = 0.0f;
	float strength = 0.0f;

	void Sync(NiStreamReversible& stream);
	void GetPtrs(std::set<NiPtr*>& ptrs);
};

class bhkBreakableConstraint : public NiCloneableStreamable<bhkBreakableConstraint, bhkConstraint> {
public:
	ConstraintData subConstraint;
	bool removeWhenBroken = false;

	static constexpr const char* BlockName = "bhkBreakableConstraint";
	const char* GetBlockName() override { return BlockName; }

	void Sync(NiStreamReversible& stream);
	void GetPtrs(std::set<NiPtr*>& ptrs) override;
};

class bhkRagdollConstraint : public NiCloneableStreamable<bhkRagdollConstraint, bhkConstraint> {
public:
	RagdollDesc ragdoll;

	static constexpr const char* BlockName = "bhkRagdollConstraint";
	const char* GetBlockName() override { return BlockName; }

	void Sync(NiStreamReversible& stream);
};

class bhkStiffSpringConstraint : public NiCloneableStreamable<bhkStiffSpringConstraint, bhkConstraint> {
public:
	StiffSpringDesc stiffSpring;

	static constexpr const char* BlockName = "bhkStiffSpringConstraint";
	const char* GetBlockName() override { return BlockName; }

	void Sync(NiStreamReversible& stream);
};

class bhkPrismaticConstraint : public NiCloneableStreamable<bhkPrismaticConstraint, bhkConstraint> {
public:
	PrismaticDesc prismatic;

	static constexpr const char* BlockName = "bhkPrismaticConstraint";
	const char* GetBlockName() override { return BlockName; }

	void Sync(NiStreamReversible& stream);
};

class bhkMalleableConstraint : public NiCloneableStreamable<bhkMalleableConstraint, bhkConstraint> {
public:
	ConstraintData subConstraint;

	static constexpr const char* BlockName = "bhkMalleableConstraint";
	const char* GetBlockName() override { return BlockName; }

	void Sync(NiStreamReversible& stream);
	void GetPtrs(std::set<NiPtr*>& ptrs) override;
};

class bhkBallAndSocketConstraint : public NiCloneableStreamable<bhkBallAndSocketConstraint, bhkConstraint> {
public:
	BallAndSocketDesc ballAndSocket;

	static constexpr const char* BlockName = "bhkBallAndSocketConstraint";
	const char* GetBlockName() override { return BlockName; }

	void Sync(NiStreamReversible& stream);
};

class bhkBallSocketConstraintChain
	: public NiCloneableStreamable<bhkBallSocketConstraintChain, bhkSerializable> {
public:
	NiVector<Vector4> pivots;

	float tau = 1.0f;
	float damping = 0.6f;
	float cfm = 1.1920929e-08f;
	float maxErrorDistance = 0.1f;

	NiBlockPtrArray<bhkRigidBody> chainedEntityRefs;

	uint32_t numEntities = 2; // Always 2
	NiBlockPtr<bhkEntity> entityARef;
	NiBlockPtr<bhkEntity> entityBRef;
	uint32_t priority = 0;

	static constexpr const char* BlockName = "bhkBallSocketConstraintChain";
	const char* GetBlockName() override { return BlockName; }

	void Sync(NiStreamReversible& stream);
	void GetPtrs(std::set<NiPtr*>& ptrs) override;
};

class bhkCompressedMeshShapeData : public NiCloneableStreamable<bhkCompressedMeshShapeData, bhkRefObject> {
public:
	uint32_t bitsPerIndex = 0;
	uint32_t bitsPerWIndex = 0;
	uint32_t maskWIndex = 0;
	uint32_t maskIndex = 0;
	float error = 0.0f;
	Vector4 aabbBoundMin;
	Vector4 aabbBoundMax;
	uint8_t weldingType = 0;
	uint8_t materialType = 0;

	NiVector<uint32_t> mat32;
	NiVector<uint32_t> mat16;
	NiVector<uint32_t> mat8;

	NiVector<bhkCMSDMaterial> materials;

	uint32_t numNamedMat = 0;

	NiVector<bhkCMSDTransform> transforms;
	NiVector<Vector4> bigVerts;

	NiSyncVector<bhkCMSDBigTris> bigTris;
	NiSyncVector<bhkCMSDChunk> chunks;

	uint32_t numConvexPieceA = 0;

	static constexpr const char* BlockName = "bhkCompressedMeshShapeData";
	const char* GetBlockName() override { return BlockName; }

	void Sync(NiStreamReversible& stream);
};

class bhkCompressedMeshShape : public NiCloneableStreamable<bhkCompressedMeshShape, bhkShape> {
public:
	NiBlockPtr<NiAVObject> targetRef;
	uint32_t userData = 0;
	float radius = 0.005f;
	float unkFloat = 0.0f;
	Vector4 scaling = Vector4(1.0f, 1.0f, 1.0f, 1.0f);
	float radius2 = 0.005f;
	Vector4 scaling2 = Vector4(1.0f, 1.0f, 1.0f, 1.0f);
	NiBlockRef<bhkCompressedMeshShapeData> dataRef;

	static constexpr const char* BlockName = "bhkCompressedMeshShape";
	const char* GetBlockName() override { return BlockName; }

	void Sync(NiStreamReversible& stream);
	void GetChildRefs(std::set<NiRef*>& refs) override;
	void GetChildIndices(std::vector<uint32_t>& indices) override;
	void GetPtrs(std::set<NiPtr*>& ptrs) override;
};

struct BoneMatrix {
	Vector3 translation;
	QuaternionXYZW rotation;
	Vector3 scale;
};

class BonePose {
public:
	NiVector<BoneMatrix> matrices;

	void Sync(NiStreamReversible& stream) { matrices.Sync(stream); }
};

class bhkPoseArray : public NiCloneableStreamable<bhkPoseArray, NiObject> {
public:
	NiStringRefVector<> bones;
	NiSyncVector<BonePose> poses;

	static constexpr const char* BlockName = "bhkPoseArray";
	const char* GetBlockName() override { return BlockName; }

	void Sync(NiStreamReversible& stream);
	void GetStringRefs(std::vector<NiStringRef*>& refs) override;
};

class bhkRagdollTemplate : public NiCloneableStreamable<bhkRagdollTemplate, NiExtraData> {
public:
	NiBlockRefArray<NiObject> boneRefs;

	static constexpr const char* BlockName = "bhkRagdollTemplate";
	const char* GetBlockName() override { return BlockName; }

	void Sync(NiStreamReversible& stream);
	void GetChildRefs(std::set<NiRef*>& refs) override;
	void GetChildIndices(std::vector<uint32_t>& indices) override;
};

class bhkRagdollTemplateData : public NiCloneableStreamable<bhkRagdollTemplateData, NiObject> {
public:
	NiStringRef name;
	float mass = 9.0f;
	float restitution = 0.8f;
	float friction = 0.3f;
	float radius = 1.0f;
	HavokMaterial material = 7;
	NiSyncVector<ConstraintData> constraints;

	static constexpr const char* BlockName = "bhkRagdollTemplateData";
	const char* GetBlockName() override { return BlockName; }

	void Sync(NiStreamReversible& stream);
	void GetStringRefs(std::vector<NiStringRef*>& refs) override;
	void GetPtrs(std::set<NiPtr*>& ptrs) override;
};
} // namespace nifly
