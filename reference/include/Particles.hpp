/*
nifly
C++ NIF library for the Gamebryo/NetImmerse File Format
See the included GPLv3 LICENSE file
*/

#pragma once

#include "BasicTypes.hpp"
#include "Geometry.hpp"
#include "Nodes.hpp"

namespace nifly {
class NiParticles : public NiCloneable<NiParticles, NiGeometry> {
public:
	static constexpr const char* BlockName = "NiParticles";
	const char* GetBlockName() override { return BlockName; }
};

class NiAutoNormalParticles : public NiCloneable<NiAutoNormalParticles, NiParticles> {
public:
	static constexpr const char* BlockName = "NiAutoNormalParticles";
	const char* GetBlockName() override { return BlockName; }
};

class NiParticleMeshes : public NiCloneable<NiParticleMeshes, NiParticles> {
public:
	static constexpr const char* BlockName = "NiParticleMeshes";
	const char* GetBlockName() override { return BlockName; }
};

class NiRotatingParticles : public NiCloneable<NiRotatingParticles, NiParticles> {
public:
	static constexpr const char* BlockName = "NiRotatingParticles";
	const char* GetBlockName() override { return BlockName; }
};

class NiParticlesData : public NiCloneableStreamable<NiParticlesData, NiGeometryData> {
public:
	bool hasRadii = false;
	std::vector<float> radii;

	uint16_t numActive = 0;

	bool hasSizes = false;
	std::vector<float> sizes;

	bool hasRotations = false;
	std::vector<Quaternion> rotations;

	bool hasRotationAngles = false;
	std::vector<float> rotationAngles;

	bool hasRotationAxes = false;
	std::vector<Vector3> rotationAxes;

	bool hasTextureIndices = false;

	NiVector<Vector4> subtexOffsets;

	float aspectRatio = 0.0f;
	uint16_t aspectFlags = 0;
	float speedToAspectAspect2 = 0.0f;
	float speedToAspectSpeed1 = 0.0f;
	float speedToAspectSpeed2 = 0.0f;

	NiParticlesData();

	static constexpr const char* BlockName = "NiParticlesData";
	const char* GetBlockName() override { return BlockName; }

	void Sync(NiStreamReversible& stream);
};

class NiAutoNormalParticlesData : public NiCloneable<NiAutoNormalParticlesData, NiParticlesData> {
public:
	static constexpr const char* BlockName = "NiAutoNormalParticlesData";
	const char* GetBlockName() override { return BlockName; }
};

class NiRotatingParticlesData : public NiCloneable<NiRotatingParticlesData, NiParticlesData> {
public:
	static constexpr const char* BlockName = "NiRotatingParticlesData";
	const char* GetBlockName() override { return BlockName; }
};

class NiParticleMeshesData : public NiCloneableStreamable<NiParticleMeshesData, NiRotatingParticlesData> {
public:
	NiBlockRef<NiAVObject> dataRef;

	static constexpr const char* BlockName = "NiParticleMeshesData";
	const char* GetBlockName() override { return BlockName; }

	void Sync(NiStreamReversible& stream);
	void GetChildRefs(std::set<NiRef*>& refs) override;
	void GetChildIndices(std::vector<uint32_t>& indices) override;
};

struct NiParticleInfo {
	Vector3 velocity;
	Vector3 rotationAxis;
	float age = 0.0f;
	float lifeSpan = 0.0f;
	float lastUpdate = 0.0f;
	uint16_t spawnGeneration = 0;
	uint16_t code = 0;

	void Sync(NiStreamReversible& stream) {
		stream.Sync(velocity);

		if (stream.GetVersion().File() <= V10_4_0_1)
			stream.Sync(rotationAxis);

		stream.Sync(age);
		stream.Sync(lifeSpan);
		stream.Sync(lastUpdate);
		stream.Sync(spawnGeneration);
		stream.Sync(code);
	}
};

class NiPSysData : public NiCloneableStreamable<NiPSysData, NiRotatingParticlesData> {
public:
	std::vector<NiParticleInfo> particleInfo;

	Vector3 unknownVector;
	uint8_t unknownQQSpeedByte1 = 0;
	bool hasRotationSpeeds = false;

	std::vector<float> rotationSpeeds;
	uint16_t numAddedParticles = 0;
	uint16_t addedParticlesBase = 0;

	uint8_t unknownQQSpeedByte2 = 0;

	static constexpr const char* BlockName = "NiPSysData";
	const char* GetBlockName() override { return BlockName; }

	void Sync(NiStreamReversible& stream);
};

class NiMeshPSysData : public NiCloneableStreamable<NiMeshPSysData, NiPSysData> {
public:
	uint32_t defaultPoolSize = 0;
	bool fillPoolsOnLoad = false;

	NiVector<uint32_t> generationPoolSize;
	NiBlockRef<NiNode> nodeRef;

	static constexpr const char* BlockName = "NiMeshPSysData";
	const char* GetBlockName() override { return BlockName; }

	void Sync(NiStreamReversible& stream);
	void GetChildRefs(std::set<NiRef*>& refs) override;
	void GetChildIndices(std::vector<uint32_t>& indices) override;
};

class BSStripPSysData : public NiCloneableStreamable<BSStripPSysData, NiPSysData> {
public:
	uint16_t maxPointCount = 0;
	uint32_t startCapSize = 0;
	uint32_t endCapSize = 0;
	bool doZPrepass = false;

	static constexpr const char* BlockName = "BSStripPSysData";
	const char* GetBlockName() override { return BlockName; }

	void Sync(NiStreamReversible& stream);
};

class NiPSysEmitterCtlrData : public NiCloneableStreamable<NiPSysEmitterCtlrData, NiObject> {
public:
	NiAnimationKeyGroup<float> floatKeys;
	NiSyncVector<NiAnimationKey<uint8_t>> visibilityKeys;

	static constexpr const char* BlockName = "NiPSysEmitterCtlrData";
	const char* GetBlockName() override { return BlockName; }

	void Sync(NiStreamReversible& stream);
};

class NiPSysEmitterCtlr : public NiCloneableStreamable<NiPSysEmitterCtlr, NiPSysModifierCtlr> {
public:
	NiBlockRef<NiPSysEmitterCtlrData> dataRef;
	NiBlockRef<NiInterpolator> visInterpolatorRef;

	static constexpr const char* BlockName = "NiPSysEmitterCtlr";
	const char* GetBlockName() override { return BlockName; }

	void Sync(NiStreamReversible& stream);
	void GetChildRefs(std::set<NiRef*>& refs) override;
	void GetChildIndices(std::vector<uint32_t>& indices) override;
};

class BSMasterParticleSystem;

class BSPSysMultiTargetEmitterCtlr
	: public NiCloneableStreamable<BSPSysMultiTargetEmitterCtlr, NiPSysEmitterCtlr> {
public:
	uint16_t maxEmitters = 0;
	NiBlockPtr<BSMasterParticleSystem> masterParticleSystemRef;

	static constexpr const char* BlockName = "BSPSysMultiTargetEmitterCtlr";
	const char* GetBlockName() override { return BlockName; }

	void Sync(NiStreamReversible& stream);
	void GetPtrs(std::set<NiPtr*>& ptrs) override;
};

class NiParticleSystem;

class NiPSysModifier : public NiCloneableStreamable<NiPSysModifier, NiObject> {
public:
	NiStringRef name;
	uint32_t order = 0;
	NiBlockPtr<NiParticleSystem> targetRef;
	bool isActive = false;

	void Sync(NiStreamReversible& stream);
	void GetStringRefs(std::vector<NiStringRef*>& refs) override;
	void GetPtrs(std::set<NiPtr*>& ptrs) override;
};

class BSPSysStripUpdateModifier : public NiCloneableStreamable<BSPSysStripUpdateModifier, NiPSysModifier> {
public:
	float updateDeltaTime = 0.0f;

	static constexpr const char* BlockName = "BSPSysStripUpdateModifier";
	const char* GetBlockName() override { return BlockName; }

	void Sync(NiStreamReversible& stream);
};

class NiPSysSpawnModifier : public NiCloneableStreamable<NiPSysSpawnModifier, NiPSysModifier> {
public:
	uint16_t numSpawnGenerations = 0;
	float percentSpawned = 0.0f;
	uint16_t minSpawned = 0;
	uint16_t maxSpawned = 0;
	float spawnSpeedVariation = 0.0f;
	float spawnDirVariation = 0.0f;
	float lifeSpan = 0.0f;
	float lifeSpanVariation = 0.0f;

	static constexpr const char* BlockName = "NiPSysSpawnModifier";
	const char* GetBlockName() override { return BlockName; }

	void Sync(NiStreamReversible& stream);
};

class NiPSysAgeDeathModifier : public NiCloneableStreamable<NiPSysAgeDeathModifier, NiPSysModifier> {
public:
	bool spawnOnDeath = false;
	NiBlockRef<NiPSysSpawnModifier> spawnModifierRef;

	static constexpr const char* BlockName = "NiPSysAgeDeathModifier";
	const char* GetBlockName() override { return BlockName; }

	void Sync(NiStreamReversible& stream);
	void GetChildRefs(std::set<NiRef*>& refs) override;
	void GetChildIndices(std::vector<uint32_t>& indices) override;
};

class BSPSysLODModifier : public NiCloneableStreamable<BSPSysLODModifier, NiPSysModifier> {
public:
	float lodBeginDistance = 0.1f;
	float lodEndDistance = 0.7f;
	float endEmitScale = 0.2f;
	float endSize = 1.0f;

	static constexpr const char* BlockName = "BSPSysLODModifier";
	const char* GetBlockName() override { return BlockName; }

	void Sync(NiStreamReversible& stream);
};

class BSPSysSimpleColorModifier : public NiCloneableStreamable<BSPSysSimpleColorModifier, NiPSysModifier> {
public:
	float fadeInPercent = 0.0f;
	float fadeOutPercent = 0.0f;
	float color1EndPercent = 0.0f;
	float color2StartPercent = 0.0f;
	float color2EndPercent = 0.0f;
	float color3StartPercent = 0.0f;
	Color4 color1;
	Color4 color2;
	Color4 color3;
	uint16_t unknownShorts[26]{};

	static constexpr const char* BlockName = "BSPSysSimpleColorModifier";
	const char* GetBlockName() override { return BlockName; }

	void Sync(NiStreamReversible& stream);
};

class NiPSysRotationModifier : public NiCloneableStreamable<NiPSysRotationModifier, NiPSysModifier> {
public:
	float initialSpeed = 0.0f;
	float initialSpeedVariation = 0.0f;
	Vector4 unknownVector;
	uint8_t unknownByte = 0;
	float initialAngle = 0.0f;
	float initialAngleVariation = 0.0f;
	bool randomSpeedSign = false;
	bool randomInitialAxis = false;
	Vector3 initialAxis;

	static constexpr const char* BlockName = "NiPSysRotationModifier";
	const char* GetBlockName() override { return BlockName; }

	void Sync(NiStreamReversible& stream);
};

class BSPSysScaleModifier : public NiCloneableStreamable<BSPSysScaleModifier, NiPSysModifier> {
public:
	NiVector<float> floats;

	static constexpr const char* BlockName = "BSPSysScaleModifier";
	const char* GetBlockName() override { return BlockName; }

	void Sync(NiStreamReversible& stream);
};

enum ForceType : uint32_t { FORCE_PLANAR, FORCE_SPHERICAL, FORCE_UNKNOWN };

class NiPSysGravityModifier : public NiCloneableStreamable<NiPSysGravityModifier, NiPSysModifier> {
public:
	NiBlockPtr<NiNode> gravityObjRef;
	Vector3 gravityAxis;
	float decay = 0.0f;
	float strength = 0.0f;
	ForceType forceType = FORCE_UNKNOWN;
	float turbulence = 0.0f;
	float turbulenceScale = 1.0f;
	bool worldAligned = false;

	static constexpr const char* BlockName = "NiPSysGravityModifier";
	const char* GetBlockName() override { return BlockName; }

	void Sync(NiStreamReversible& stream);
	void GetPtrs(std::set<NiPtr*>& ptrs) override;
};

class NiPSysPositionModifier : public NiCloneable<NiPSysPositionModifier, NiPSysModifier> {
public:
	static constexpr const char* BlockName = "NiPSysPositionModifier";
	const char* GetBlockName() override { return BlockName; }
};

class NiPSysBoundUpdateModifier : public NiCloneableStreamable<NiPSysBoundUpdateModifier, NiPSysModifier> {
public:
	uint16_t updateSkip = 0;

	static constexpr const char* BlockName = "NiPSysBoundUpdateModifier";
	const char* GetBlockName() override { return BlockName; }

	void Sync(NiStreamReversible& stream);
};

class NiPSysDragModifier : public NiCloneableStreamable<NiPSysDragModifier, NiPSysModifier> {
public:
	NiBlockPtr<NiObject> parentRef;
	Vector3 dragAxis;
	float percentage = 0.0f;
	float range = 0.0f;
	float rangeFalloff = 0.0f;

	static constexpr const char* BlockName = "NiPSysDragModifier";
	const char* GetBlockName() override { return BlockName; }

	void Sync(NiStreamReversible& stream);
	void GetPtrs(std::set<NiPtr*>& ptrs) override;
};

class BSPSysInheritVelocityModifier
	: public NiCloneableStreamable<BSPSysInheritVelocityModifier, NiPSysModifier> {
public:
	NiBlockPtr<NiNode> targetNodeRef;
	float changeToInherit = 0.0f;
	float velocityMult = 0.0f;
	float velocityVar = 0.0f;

	static constexpr const char* BlockName = "BSPSysInheritVelocityModifier";
	const char* GetBlockName() override { return BlockName; }

	void Sync(NiStreamReversible& stream);
	void GetPtrs(std::set<NiPtr*>& ptrs) override;
};

class BSPSysSubTexModifier : public NiCloneableStreamable<BSPSysSubTexModifier, NiPSysModifier> {
public:
	float startFrame = 0.0f;
	float startFrameVariation = 0.0f;
	float endFrame = 0.0f;
	float loopStartFrame = 0.0f;
	float loopStartFrameVariation = 0.0f;
	float frameCount = 0.0f;
	float frameCountVariation = 0.0f;

	static constexpr const char* BlockName = "BSPSysSubTexModifier";
	const char* GetBlockName() override { return BlockName; }

	void Sync(NiStreamReversible& stream);
};

enum DecayType : uint32_t { DECAY_NONE, DECAY_LINEAR, DECAY_EXPONENTIAL };

enum SymmetryType : uint32_t { SYMMETRY_SPHERICAL, SYMMETRY_CYLINDRICAL, SYMMETRY_PLANAR };

class NiPSysBombModifier : public NiCloneableStreamable<NiPSysBombModifier, NiPSysModifier> {
public:
	NiBlockPtr<NiNode> bombNodeRef;
	Vector3 bombAxis;
	float decay = 0.0f;
	float deltaV = 0.0f;
	DecayType decayType = DECAY_NONE;
	SymmetryType symmetryType = SYMMETRY_SPHERICAL;

	static constexpr const char* BlockName = "NiPSysBombModifier";
	const char* GetBlockName() override { return BlockName; }

	void Sync(NiStreamReversible& stream);
	void GetPtrs(std::set<NiPtr*>& ptrs) override;
};

class NiColorData : public NiCloneableStreamable<NiColorData, NiObject> {
public:
	NiAnimationKeyGroup<Color4> data;

	static constexpr const char* BlockName = "NiColorData";
	const char* GetBlockName() override { return BlockName; }

	void Sync(NiStreamReversible& stream);
};

class NiPSysColorModifier : public NiCloneableStreamable<NiPSysColorModifier, NiPSysModifier> {
public:
	NiBlockRef<NiColorData> dataRef;

	static constexpr const char* BlockName = "NiPSysColorModifier";
	const char* GetBlockName() override { return BlockName; }

	void Sync(NiStreamReversible& stream);
	void GetChildRefs(std::set<NiRef*>& refs) override;
	void GetChildIndices(std::vector<uint32_t>& indices) override;
};

class NiPSysGrowFadeModifier : public NiCloneableStreamable<NiPSysGrowFadeModifier, NiPSysModifier> {
public:
	float growTime = 0.0f;
	uint16_t growGeneration = 0;
	float fadeTime = 0.0f;
	uint16_t fadeGeneration = 0;
	float baseScale = 0.0f;

	static constexpr const char* BlockName = "NiPSysGrowFadeModifier";
	const char* GetBlockName() override { return BlockName; }

	void Sync(NiStreamReversible& stream);
};

class NiPSysMeshUpdateModifier : public NiCloneableStreamable<NiPSysMeshUpdateModifier, NiPSysModifier> {
public:
	NiBlockRefArray<NiAVObject> meshRefs;

	static constexpr const char* BlockName = "NiPSysMeshUpdateModifier";
	const char* GetBlockName() override { return BlockName; }

	void Sync(NiStreamReversible& stream);
	void GetChildRefs(std::set<NiRef*>& refs) override;
	void GetChildIndices(std::vector<uint32_t>& indices) override;
};

class NiPSysFieldModifier : public NiCloneableStreamable<NiPSysFieldModifier, NiPSysModifier> {
public:
	NiBlockRef<NiAVObject> fieldObjectRef;
	float magnitude = 0.0f;
	float attenuation = 0.0f;
	bool useMaxDistance = false;
	float maxDistance = 0.0f;

	void Sync(NiStreamReversible& stream);
	void GetChildRefs(std::set<NiRef*>& refs) override;
	void GetChildIndices(std::vector<uint32_t>& indices) override;
};

class NiPSysVortexFieldModifier
	: public NiCloneableStreamable<NiPSysVortexFieldModifier, NiPSysFieldModifier> {
public:
	Vector3 direction;

	static constexpr const char* BlockName = "NiPSysVortexFieldModifier";
	const char* GetBlockName() override { return BlockName; }

	void Sync(NiStreamReversible& stream);
};

class NiPSysGravityFieldModifier
	: public NiCloneableStreamable<NiPSysGravityFieldModifier, NiPSysFieldModifier> {
public:
	Vector3 direction;

	static constexpr const char* BlockName = "NiPSysGravityFieldModifier";
	const char* GetBlockName() override { return BlockName; }

	void Sync(NiStreamReversible& stream);
};

class NiPSysDragFieldModifier : public NiCloneableStreamable<NiPSysDragFieldModifier, NiPSysFieldModifier> {
public:
	bool useDirection = false;
	Vector3 direction;

	static constexpr const char* BlockName = "NiPSysDragFieldModifier";
	const char* GetBlockName() override { return BlockName; }

	void Sync(NiStreamReversible& stream);
};

class NiPSysTurbulenceFieldModifier
	: public NiCloneableStreamable<NiPSysTurbulenceFieldModifier, NiPSysFieldModifier> {
public:
	float frequency = 0.0f;

	static constexpr const char* BlockName = "NiPSysTurbulenceFieldModifier";
	const char* GetBlockName() override { return BlockName; }

	void Sync(NiStreamReversible& stream);
};

class NiPSysAirFieldModifier : public NiCloneableStreamable<NiPSysAirFieldModifier, NiPSysFieldModifier> {
public:
	Vector3 direction;
	float airFriction = 0.0f;
	float inheritVelocity = 0.0f;
	bool inheritRotation = false;
	bool componentOnly = false;
	bool enableSpread = false;
	float spread = 0.0f;

	static constexpr const char* BlockName = "NiPSysAirFieldModifier";
	const char* GetBlockName() override { return BlockName; }

	void Sync(NiStreamReversible& stream);
};

class NiPSysRadialFieldModifier
	: public NiCloneableStreamable<NiPSysRadialFieldModifier, NiPSysFieldModifier> {
public:
	uint32_t radialType = 0;

	static constexpr const char* BlockName = "NiPSysRadialFieldModifier";
	const char* GetBlockName() override { return BlockName; }

	void Sync(NiStreamReversible& stream);
};

class BSWindModifier : public NiCloneableStreamable<BSWindModifier, NiPSysModifier> {
public:
	float strength = 0.0f;

	static constexpr const char* BlockName = "BSWindModifier";
	const char* GetBlockName() override { return BlockName; }

	void Sync(NiStreamReversible& stream);
};

class BSPSysRecycleBoundModifier : public NiCloneableStreamable<BSPSysRecycleBoundModifier, NiPSysModifier> {
public:
	Vector3 boundOffset;
	Vector3 boundExtent;
	NiBlockPtr<NiNode> targetNodeRef;

	static constexpr const char* BlockName = "BSPSysRecycleBoundModifier";
	const char* GetBlockName() override { return BlockName; }

	void Sync(NiStreamReversible& stream);
	void GetPtrs(std::set<NiPtr*>& ptrs) override;
};

class BSPSysHavokUpdateModifier : public NiCloneableStreamable<BSPSysHavokUpdateModifier, NiPSysModifier> {
public:
	NiBlockRefArray<NiNode> nodeRefs;
	NiBlockRef<NiPSysModifier> modifierRef;

	static constexpr const char* BlockName = "BSPSysHavokUpdateModifier";
	const char* GetBlockName() override { return BlockName; }

	void Sync(NiStreamReversible& stream);
	void GetChildRefs(std::set<NiRef*>& refs) override;
	void GetChildIndices(std::vector<uint32_t>& indices) override;
};

class BSParentVelocityModifier : public NiCloneableStreamable<BSParentVelocityModifier, NiPSysModifier> {
public:
	float damping = 0.0f;

	static constexpr const char* BlockName = "BSParentVelocityModifier";
	const char* GetBlockName() override { return BlockName; }

	void Sync(NiStreamReversible& stream);
};

class BSMasterParticleSystem : public NiCloneableStreamable<BSMasterParticleSystem, NiNode> {
public:
	uint16_t maxEmitterObjs = 0;
	NiBlockRefArray<NiAVObject> particleSysRefs;

	static constexpr const char* BlockName = "BSMasterParticleSystem";
	const char* GetBlockName() override { return BlockName; }

	void Sync(NiStreamReversible& stream);

	void GetChildRefs(std::set<NiRef*>& refs) override;
	void GetChildIndices(std::vector<uint32_t>& indices) override;
};

class NiParticleSystem : public NiCloneableStreamable<NiParticleSystem, NiAVObject> {
public:
	NiBlockRef<NiGeometryData> dataRef;
	NiBlockRef<NiObject> skinInstanceRef;
	NiBlockRef<NiProperty> shaderPropertyRef;
	NiBlockRef<NiProperty> alphaPropertyRef;

	bool hasShader = false;
	NiStringRef shaderName;
	int shaderExtraData = 0;

	NiSyncVector<NiStringRef> materialNames;
	NiVector<uint32_t> materialExtraData;

	uint32_t activeMaterial = 0;
	uint8_t defaultMatNeedsUpdate = 0;

	uint8_t vertFlags1 = 81;
	uint8_t vertFlags2 = 0;
	uint8_t vertFlags3 = 0;
	uint8_t vertFlags4 = 4;
	uint8_t vertFlags5 = 0;
	uint8_t vertFlags6 = 32;
	uint8_t vertFlags7 = 64;
	uint8_t vertFlags8 = 8;

	BoundingSphere bounds;
	float boundMinMax[6]{};

	uint16_t farBegin = 0;
	uint16_t farEnd = 0;
	uint16_t nearBegin = 0;
	uint16_t nearEnd = 0;

	NiBlockRef<NiPSysData> psysDataRef;

	bool isWorldSpace = false;
	NiBlockRefArray<NiPSysModifier> modifierRefs;

	static constexpr const char* BlockName = "NiParticleSystem";
	const char* GetBlockName() override { return BlockName; }

	void Sync(NiStreamReversible& stream);
	void GetStringRefs(std::vector<NiStringRef*>& refs) override;
	void GetChildRefs(std::set<NiRef*>& refs) override;
	void GetChildIndices(std::vector<uint32_t>& indices) override;
};

class NiMeshParticleSystem : public NiCloneable<NiMeshParticleSystem, NiParticleSystem> {
public:
	static constexpr const char* BlockName = "NiMeshParticleSystem";
	const char* GetBlockName() override { return BlockName; }
};

class BSStripParticleSystem : public NiCloneable<BSStripParticleSystem, NiParticleSystem> {
public:
	static constexpr const char* BlockName = "BSStripParticleSystem";
	const char* GetBlockName() override { return BlockName; }
};

class NiPSysColliderManager;

class NiPSysCollider : public NiCloneableStreamable<NiPSysCollider, NiObject> {
public:
	float bounce = 0.0f;
	bool spawnOnCollide = false;
	bool dieOnCollide = false;
	NiBlockRef<NiPSysSpawnModifier> spawnModifierRef;
	NiBlockPtr<NiPSysColliderManager> managerRef;
	NiBlockRef<NiPSysCollider> nextColliderRef;
	NiBlockPtr<NiNode> colliderNodeRef;

	void Sync(NiStreamReversible& stream);
	void GetChildRefs(std::set<NiRef*>& refs) override;
	void GetChildIndices(std::vector<uint32_t>& indices) override;
	void GetPtrs(std::set<NiPtr*>& ptrs) override;
};

class NiPSysSphericalCollider : public NiCloneableStreamable<NiPSysSphericalCollider, NiPSysCollider> {
public:
	float radius = 0.0f;

	static constexpr const char* BlockName = "NiPSysSphericalCollider";
	const char* GetBlockName() override { return BlockName; }

	void Sync(NiStreamReversible& stream);
};

class NiPSysPlanarCollider : public NiCloneableStreamable<NiPSysPlanarCollider, NiPSysCollider> {
public:
	float width = 0.0f;
	float height = 0.0f;
	Vector3 xAxis;
	Vector3 yAxis;

	static constexpr const char* BlockName = "NiPSysPlanarCollider";
	const char* GetBlockName() override { return BlockName; }

	void Sync(NiStreamReversible& stream);
};

class NiPSysColliderManager : public NiCloneableStreamable<NiPSysColliderManager, NiPSysModifier> {
public:
	NiBlockRef<NiPSysCollider> colliderRef;

	static constexpr const char* BlockName = "NiPSysColliderManager";
	const char* GetBlockName() override { return BlockName; }

	void Sync(NiStreamReversible& stream);
	void GetChildRefs(std::set<NiRef*>& refs) override;
	void GetChildIndices(std::vector<uint32_t>& indices) override;
};

class NiPSysEmitter : public NiCloneableStreamable<NiPSysEmitter, NiPSysModifier> {
public:
	float speed = 0.0f;
	float speedVariation = 0.0f;
	float declination = 0.0f;
	float declinationVariation = 0.0f;
	float planarAngle = 0.0f;
	float planarAngleVariation = 0.0f;
	Color4 color;
	float radius = 0.0f;
	float radiusVariation = 0.0f;
	float lifeSpan = 0.0f;
	float lifeSpanVariation = 0.0f;

	void Sync(NiStreamReversible& stream);
};

class NiPSysVolumeEmitter : public NiCloneableStreamable<NiPSysVolumeEmitter, NiPSysEmitter> {
public:
	NiBlockPtr<NiNode> emitterNodeRef;

	void Sync(NiStreamReversible& stream);
	void GetPtrs(std::set<NiPtr*>& ptrs) override;
};

class NiPSysSphereEmitter : public NiCloneableStreamable<NiPSysSphereEmitter, NiPSysVolumeEmitter> {
public:
	float radius = 0.0f;

	static constexpr const char* BlockName = "NiPSysSphereEmitter";
	const char* GetBlockName() override { return BlockName; }

	void Sync(NiStreamReversible& stream);
};

class NiPSysCylinderEmitter : public NiCloneableStreamable<NiPSysCylinderEmitter, NiPSysVolumeEmitter> {
public:
	float radius = 0.0f;
	float height = 0.0f;

	static constexpr const char* BlockName = "NiPSysCylinderEmitter";
	const char* GetBlockName() override { return BlockName; }

	void Sync(NiStreamReversible& stream);
};

class NiPSysBoxEmitter : public NiCloneableStreamable<NiPSysBoxEmitter, NiPSysVolumeEmitter> {
public:
	float width = 0.0f;
	float height = 0.0f;
	float depth = 0.0f;

	static constexpr const char* BlockName = "NiPSysBoxEmitter";
	const char* GetBlockName() override { return BlockName; }

	void Sync(NiStreamReversible& stream);
};

class BSPSysArrayEmitter : public NiCloneable<BSPSysArrayEmitter, NiPSysVolumeEmitter> {
public:
	static constexpr const char* BlockName = "BSPSysArrayEmitter";
	const char* GetBlockName() override { return BlockName; }
};

enum VelocityType : uint32_t { VELOCITY_USE_NORMALS, VELOCITY_USE_RANDOM, VELOCITY_USE_DIRECTION };

enum EmitFrom : uint32_t {
	EMIT_FROM_VERTICES,
	EMIT_FROM_FACE_CENTER,
	EMIT_FROM_EDGE_CENTER,
	EMIT_FROM_FACE_SURFACE,
	EMIT_FROM_EDGE_SURFACE
};

class NiPSysMeshEmitter : public NiCloneableStreamable<NiPSysMeshEmitter, NiPSysEmitter> {
public:
	NiBlockPtrArray<NiAVObject> meshRefs;
	VelocityType velocityType = VELOCITY_USE_NORMALS;
	EmitFrom emissionType = EMIT_FROM_VERTICES;
	Vector3 emissionAxis;

	static constexpr const char* BlockName = "NiPSysMeshEmitter";
	const char* GetBlockName() override { return BlockName; }

	void Sync(NiStreamReversible& stream);
	void GetPtrs(std::set<NiPtr*>& ptrs) override;
};
} // namespace nifly
