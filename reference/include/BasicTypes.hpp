/*
nifly
C++ NIF library for the Gamebryo/NetImmerse File Format
See the included GPLv3 LICENSE file
*/

#pragma once

#include "Object3d.hpp"
#include "half.hpp"

#include <algorithm>
#include <iostream>
#include <map>
#include <memory>
#include <optional>
#include <set>
#include <streambuf>
#include <string>
#include <unordered_map>
#include <unordered_set>

namespace nifly {
constexpr auto NIF_NPOS = static_cast<uint32_t>(-1);

constexpr auto NiCharMin = std::numeric_limits<char>::min();
constexpr auto NiCharMax = std::numeric_limits<char>::max();
constexpr auto NiByteMin = std::numeric_limits<uint8_t>::min();
constexpr auto NiByteMax = std::numeric_limits<uint8_t>::max();
constexpr auto NiUShortMin = std::numeric_limits<uint16_t>::min();
constexpr auto NiUShortMax = std::numeric_limits<uint16_t>::max();
constexpr auto NiIntMin = std::numeric_limits<int32_t>::min();
constexpr auto NiIntMax = std::numeric_limits<int32_t>::max();
constexpr auto NiUIntMin = std::numeric_limits<uint32_t>::min();
constexpr auto NiUIntMax = std::numeric_limits<uint32_t>::max();
constexpr auto NiFloatMin = std::numeric_limits<float>::lowest();
constexpr auto NiFloatMax = std::numeric_limits<float>::max();
constexpr auto NiFloatInf = std::numeric_limits<float>::infinity();
constexpr auto NiVec3Min = Vector3(NiFloatMin, NiFloatMin, NiFloatMin);
constexpr auto NiVec4Min = Vector4(NiFloatMin, NiFloatMin, NiFloatMin, NiFloatMin);

enum NiFileVersion : uint32_t {
	V2_3 = 0x02030000,
	V3_0 = 0x03000000,
	V3_03 = 0x03000300,
	V3_1 = 0x03010000,
	V3_3_0_13 = 0x0303000D,
	V4_0_0_0 = 0x04000000,
	V4_0_0_2 = 0x04000002,
	V4_1_0_12 = 0x0401000C,
	V4_2_0_2 = 0x04020002,
	V4_2_1_0 = 0x04020100,
	V4_2_2_0 = 0x04020200,
	V5_0_0_1 = 0x05000001,
	V10_0_0_0 = 0x0A000000,
	V10_0_1_0 = 0x0A000100,
	V10_0_1_2 = 0x0A000102,
	V10_0_1_3 = 0x0A000103,
	V10_1_0_0 = 0x0A010000,
	V10_1_0_101 = 0x0A010065,
	V10_1_0_104 = 0x0A010068,
	V10_1_0_106 = 0x0A01006A,
	V10_1_0_108 = 0x0A01006C,
	V10_1_0_110 = 0x0A01006E,
	V10_1_0_112 = 0x0A010070,
	V10_1_0_113 = 0x0A010071,
	V10_1_0_114 = 0x0A010072,
	V10_2_0_0 = 0x0A020000,
	V10_2_0_1 = 0x0A020001,
	V10_3_0_1 = 0x0A030001,
	V10_4_0_1 = 0x0A040001,
	V20_0_0_2 = 0x14000002,
	V20_0_0_4 = 0x14000004,
	V20_0_0_5 = 0x14000005,
	V20_1_0_1 = 0x14010001,
	V20_1_0_3 = 0x14010003,
	V20_2_0_5 = 0x14020005,
	V20_2_0_7 = 0x14020007,
	V20_2_0_8 = 0x14020008,
	V20_2_4_7 = 0x14020407,
	V20_3_0_1 = 0x14030001,
	V20_3_0_2 = 0x14030002,
	V20_3_0_3 = 0x14030003,
	V20_3_0_6 = 0x14030006,
	V20_3_0_9 = 0x14030009,
	V20_5_0_0 = 0x14050000,
	V20_6_0_0 = 0x14060000,
	V20_6_5_0 = 0x14060500,
	V30_0_0_2 = 0x1E000002,
	V30_1_0_3 = 0x1E010003,
	UNKNOWN = 0xFFFFFFFF
};

class NiVersion {
private:
	std::string vstr;
	NiFileVersion file = UNKNOWN;
	uint32_t user = 0;
	uint32_t stream = 0;
	uint32_t nds = 0;

public:
	NiVersion() = default;
	NiVersion(NiFileVersion _file, uint32_t _user, uint32_t _stream);

	// Construct a file version enumeration from individual values
	static NiFileVersion ToFile(uint8_t major, uint8_t minor, uint8_t patch, uint8_t internal) {
		return NiFileVersion((major << 24) | (minor << 16) | (patch << 8) | internal);
	}

	// Return file version as individual values
	static std::vector<uint8_t> ToArray(NiFileVersion file) {
		return {uint8_t(file >> 24), uint8_t(file >> 16), uint8_t(file >> 8), uint8_t(file)};
	}

	std::string GetVersionInfo() const;
	std::string String() const { return vstr; }

	NiFileVersion File() const { return file; }
	void SetFile(NiFileVersion fileVer);

	uint32_t User() const { return user; }
	void SetUser(const uint32_t userVer) { user = userVer; }

	uint32_t Stream() const { return stream; }
	void SetStream(const uint32_t streamVer) { stream = streamVer; }

	uint32_t NDS() const { return nds; }
	void SetNDS(const uint32_t ndsVer) { nds = ndsVer; }

	// Check if file is for a Bethesda title
	bool IsBethesda() const { return (file == V20_2_0_7 && user >= 11) || IsOB(); }

	// Check if file has a special but supported version range
	bool IsSpecial() const { return (file == V10_0_1_0 && user == 0); }

	// Check if file has an Oblivion version range
	bool IsOB() const {
		return
			((file == V10_1_0_106 || file == V10_2_0_0) && user >= 3 && user < 11) ||
			(file == V20_0_0_4 && (user == 10 || user == 11)) ||
			(file == V20_0_0_5 && user == 11);
	}

	// Check if file has a Fallout 3 version range
	bool IsFO3() const { return file == V20_2_0_7 && stream > 11 && stream < 83; }
	// Check if file has a Skyrim (LE) version range
	bool IsSK() const { return file == V20_2_0_7 && stream == 83; }
	// Check if file has a Skyrim (SE) version range
	bool IsSSE() const { return file == V20_2_0_7 && stream == 100; }
	// Check if file has a Fallout 4 version range
	bool IsFO4() const { return file == V20_2_0_7 && stream >= 130 && stream <= 139; }
	// Check if file has a Fallout 76 version range
	bool IsFO76() const { return file == V20_2_0_7 && stream == 155; }
	// Check if file has a Starfield version range
	bool IsSF() const { return file == V20_2_0_7 && stream >= 172 && stream <= 173; }

	// Return an Oblivion file version
	static NiVersion getOB() { return NiVersion(NiFileVersion::V20_0_0_5, 11, 11); }
	// Return a Fallout 3 file version
	static NiVersion getFO3() { return NiVersion(NiFileVersion::V20_2_0_7, 11, 34); }
	// Return a Skyrim (LE) file version
	static NiVersion getSK() { return NiVersion(NiFileVersion::V20_2_0_7, 12, 83); }
	// Return a Skyrim (SE) file version
	static NiVersion getSSE() { return NiVersion(NiFileVersion::V20_2_0_7, 12, 100); }
	// Return a Fallout 4 file version
	static NiVersion getFO4() { return NiVersion(NiFileVersion::V20_2_0_7, 12, 130); }
	// Return a Fallout 76 file version
	static NiVersion getFO76() { return NiVersion(NiFileVersion::V20_2_0_7, 12, 155); }
	// Return a Starfield file version
	static NiVersion getSF() { return NiVersion(NiFileVersion::V20_2_0_7, 12, 172); }
};

enum NiEndian : uint8_t { ENDIAN_BIG, ENDIAN_LITTLE };

class NiHeaderBase {
protected:
	bool valid = false;
	std::streampos blockSizePos;

	NiVersion version;
	NiEndian endian = ENDIAN_LITTLE;

public:
	virtual ~NiHeaderBase() {}

	bool IsValid() const { return valid; }

	NiVersion& GetVersion() { return version; }
	const NiVersion& GetVersion() const { return version; }

	void SetVersion(const NiVersion& ver) { version = ver; }

	virtual uint32_t GetStringCount() const = 0;
	virtual uint32_t FindStringId(const std::string& str) const = 0;
	virtual uint32_t AddOrFindStringId(const std::string& str, const bool addEmpty = false) = 0;
	virtual std::string GetStringById(const uint32_t id) const = 0;
	virtual void SetStringById(const uint32_t id, const std::string& str) = 0;
};

#ifdef NIFLY_VERIF
// Verification hooks (guard NIFLY_VERIF): an optional observer sees every primitive transfer between a block and
// the stream. It can record the transfer (wire trace) or, when reading, supply the value itself (generator mode).
namespace verif {
enum class Kind : uint8_t { Bool, Int, Float, Enum, Other, Raw, Half, Line, CStr };

struct SyncObserver {
	virtual ~SyncObserver() = default;
	// A primitive of 'size' bytes at 'ptr' is about to be read into / written from 'ptr'.
	// Return true if the observer handled it (the transfer is skipped).
	virtual bool onPrim(void* ptr, std::streamsize size, Kind kind, bool reading) = 0;
	// A string-valued primitive (SyncLine / SyncString / getline / getstring) is about to be transferred.
	virtual bool onText(std::string* str, char* buf, std::streamsize maxCount, Kind kind, bool reading) = 0;
	// The next primitive is the index of this block reference.
	virtual void onRef(void* ref, bool reading) = 0;
	// The next primitives are this string reference (index, or length + text before 20.1.0.3).
	virtual void onStr(void* strRef, bool reading) = 0;
};

inline SyncObserver*& observer() {
	static SyncObserver* o = nullptr;
	return o;
}

// Nesting depth of instrumented calls: only the outermost one is reported.
inline int& depth() {
	static int d = 0;
	return d;
}

struct Scope {
	Scope() { ++depth(); }
	~Scope() { --depth(); }
};

template<typename T>
constexpr Kind kindOf() {
	if constexpr (std::is_same_v<T, bool>)
		return Kind::Bool;
	else if constexpr (std::is_floating_point_v<T>)
		return Kind::Float;
	else if constexpr (std::is_enum_v<T>)
		return Kind::Enum;
	else if constexpr (std::is_integral_v<T>)
		return Kind::Int;
	else
		return Kind::Other;
}
} // namespace verif
#endif

class NiStreamBase {
private:
	NiHeaderBase* header = nullptr;

public:
	explicit NiStreamBase(NiHeaderBase* hdr)
		: header(hdr) {}

	NiVersion& GetVersion() { return header->GetVersion(); }
	const NiVersion& GetVersion() const { return header->GetVersion(); }

	NiHeaderBase& GetHeader() { return *header; }
	const NiHeaderBase& GetHeader() const { return *header; }
};

class NiIStream : public NiStreamBase {
private:
	std::istream* stream = nullptr;

public:
	NiIStream(std::istream* s, NiHeaderBase* hdr)
		: NiStreamBase(hdr)
		, stream(s) {}

#ifdef NIFLY_VERIF
	void read(char* ptr, std::streamsize count) {
		if (verif::observer() && verif::depth() == 0 && verif::observer()->onPrim(ptr, count, verif::Kind::Raw, true))
			return;
		stream->read(ptr, count);
	}
	void getline(char* ptr, std::streamsize maxCount) {
		if (verif::observer() && verif::depth() == 0
			&& verif::observer()->onText(nullptr, ptr, maxCount, verif::Kind::Line, true))
			return;
		stream->getline(ptr, maxCount);
	}
	void getstring(std::string& str) {
		if (verif::observer() && verif::depth() == 0 && verif::observer()->onText(&str, nullptr, 0, verif::Kind::CStr, true))
			return;
		std::getline(*stream, str, '\0');
	}
#else
	void read(char* ptr, std::streamsize count) { stream->read(ptr, count); }
	void getline(char* ptr, std::streamsize maxCount) { stream->getline(ptr, maxCount); }
	void getstring(std::string& str) { std::getline(*stream, str, '\0'); }
#endif

	// Be careful with sizes of structs and classes
	template<typename T>
	NiIStream& operator>>(T& t) {
		read((char*) &t, sizeof(T));
		return *this;
	}
};

class NiOStream : public NiStreamBase {
private:
	std::ostream* stream = nullptr;
	std::streamsize blockSize = 0;

public:
	NiOStream(std::ostream* s, NiHeaderBase* hdr)
		: NiStreamBase(hdr)
		, stream(s) {}

	void write(const char* ptr, std::streamsize count) {
#ifdef NIFLY_VERIF
		if (verif::observer() && verif::depth() == 0)
			verif::observer()->onPrim(const_cast<char*>(ptr), count, verif::Kind::Raw, false);
#endif
		stream->write(ptr, count);
		blockSize += count;
	}

	void writeline(const char* ptr, std::streamsize count) {
#ifdef NIFLY_VERIF
		if (verif::observer() && verif::depth() == 0)
			verif::observer()->onText(nullptr, const_cast<char*>(ptr), count, verif::Kind::Line, false);
#endif
		stream->write(ptr, count);
		stream->write("\n", 1);
		blockSize += count + 1;
	}

	void writestring(const std::string& str) {
#ifdef NIFLY_VERIF
		if (verif::observer() && verif::depth() == 0)
			verif::observer()->onText(const_cast<std::string*>(&str), nullptr, 0, verif::Kind::CStr, false);
#endif
		auto count = static_cast<std::streamsize>(str.size());
		stream->write(str.data(), count);
		stream->write("\0", 1);
		blockSize += count + 1;
	}

	std::streampos tellp() { return stream->tellp(); }

	// Be careful with sizes of structs and classes
	template<typename T>
	NiOStream& operator<<(const T& t) {
		write((const char*) &t, sizeof(T));
		return *this;
	}

	void InitBlockSize() { blockSize = 0; }
	std::streamsize GetBlockSize() { return blockSize; }
};

class NiStreamReversible {
public:
	enum class Mode { Reading, Writing };

	explicit NiStreamReversible(NiIStream* is, NiOStream* os, Mode mode_)
		: istream(is)
		, ostream(os)
		, mode(mode_) {}

	void SetMode(Mode m) { mode = m; }
	Mode GetMode() const { return mode; }

	template<typename T>
	void Sync(T& t) {
#ifdef NIFLY_VERIF
		if (verif::observer() && verif::depth() == 0
			&& verif::observer()->onPrim(&t, sizeof(T), verif::kindOf<T>(), mode == Mode::Reading))
			return;
		verif::Scope verifScope;
#endif
		Sync(reinterpret_cast<char*>(&t), sizeof(T));
	}

	NiVersion& GetVersion() {
		if (mode == Mode::Reading)
			return istream->GetVersion();
		else
			return ostream->GetVersion();
	}

	const NiVersion& GetVersion() const {
		if (mode == Mode::Reading)
			return istream->GetVersion();
		else
			return ostream->GetVersion();
	}

	NiHeaderBase& GetHeader() {
		if (mode == Mode::Reading)
			return istream->GetHeader();
		else
			return ostream->GetHeader();
	}

	const NiHeaderBase& GetHeader() const {
		if (mode == Mode::Reading)
			return istream->GetHeader();
		else
			return ostream->GetHeader();
	}

	void Sync(char* ptr, std::streamsize count) {
#ifdef NIFLY_VERIF
		if (verif::observer() && verif::depth() == 0
			&& verif::observer()->onPrim(ptr, count, verif::Kind::Raw, mode == Mode::Reading))
			return;
		verif::Scope verifScope;
#endif
		if (mode == Mode::Reading)
			istream->read(ptr, count);
		else
			ostream->write(ptr, count);
	}

	void SyncLine(char* ptr, std::streamsize count) {
		if (mode == Mode::Reading)
			istream->getline(ptr, count);
		else
			ostream->writeline(ptr, count);
	}

	void SyncString(std::string& str) {
		if (mode == Mode::Reading)
			istream->getstring(str);
		else
			ostream->writestring(str);
	}

	void SyncHalf(float& fl) {
#ifdef NIFLY_VERIF
		if (verif::observer() && verif::depth() == 0
			&& verif::observer()->onPrim(&fl, 2, verif::Kind::Half, mode == Mode::Reading))
			return;
		verif::Scope verifScope;
#endif
		half_float::half halfData;

		if (mode == Mode::Writing)
			halfData = fl;

		Sync(reinterpret_cast<char*>(&halfData), 2);

		if (mode == Mode::Reading)
			fl = halfData;
	}
	
	void SyncUDEC3(Vector3& vec) {
		uint32_t data;

		if (mode == Mode::Writing) {
			data =  (((uint32_t)((vec.z+1.0)*511.5)) & 1023) << 20;
			data &= (((uint32_t)((vec.y+1.0)*511.5)) & 1023) << 10;
			data &= (((uint32_t)((vec.x+1.0)*511.5)) & 1023);			
		}

		Sync(data);

		if (mode == Mode::Reading) {
			vec.x = (float)(((data & 1023) / 511.5) - 1.0);
			vec.y = (float)((((data >> 10) & 1023) / 511.5) - 1.0);
			vec.z = (float)((((data >> 20) & 1023) / 511.5) - 1.0);
		}		
	}

	

	NiOStream* asWrite() { return ostream; }
	NiIStream* asRead() { return istream; }


private:
	NiIStream* istream;
	NiOStream* ostream;
	Mode mode;
};

template<typename Derived, typename Base>
class NiCloneable : public Base {
public:
	virtual ~NiCloneable() override = default;

	std::unique_ptr<Derived> Clone() const {
		return std::unique_ptr<Derived>(static_cast<Derived*>(this->Clone_impl()));
	}

private:
	virtual NiCloneable* Clone_impl() const override { return new Derived(asDer()); }

	Derived& asDer() { return static_cast<Derived&>(*this); }
	const Derived& asDer() const { return static_cast<const Derived&>(*this); }
};

template<typename Derived, typename Base>
class NiStreamable : public Base {
public:
	void Get(NiIStream& stream) override {
		Base::Get(stream);
		NiStreamReversible s(&stream, nullptr, NiStreamReversible::Mode::Reading);
		asDer().Sync(s);
	}

	void Put(NiOStream& stream) override {
		Base::Put(stream);
		NiStreamReversible s(nullptr, &stream, NiStreamReversible::Mode::Writing);
		asDer().Sync(s);
	}

private:
	Derived& asDer() { return static_cast<Derived&>(*this); }
	const Derived& asDer() const { return static_cast<const Derived&>(*this); }
};

template<typename Derived, typename Base>
class NiCloneableStreamable : public Base {
public:
	virtual ~NiCloneableStreamable() override = default;

	std::unique_ptr<Derived> Clone() const {
		return std::unique_ptr<Derived>(static_cast<Derived*>(this->Clone_impl()));
	}

	void Get(NiIStream& stream) override {
		Base::Get(stream);
		NiStreamReversible s(&stream, nullptr, NiStreamReversible::Mode::Reading);
		asDer().Sync(s);
	}

	void Put(NiOStream& stream) override {
		Base::Put(stream);
		NiStreamReversible s(nullptr, &stream, NiStreamReversible::Mode::Writing);
		asDer().Sync(s);
	}

private:
	virtual NiCloneableStreamable* Clone_impl() const override { return new Derived(asDer()); }

	Derived& asDer() { return static_cast<Derived&>(*this); }
	const Derived& asDer() const { return static_cast<const Derived&>(*this); }
};

class NiString {
private:
	std::string str;
	bool nullOutput = false; // append a null byte when writing the string

public:
	NiString() = default;
	NiString(const std::string& s, const bool wantNullOutput = false) {
		str = s;
		nullOutput = wantNullOutput;
	}

	std::string& get() { return str; }
	const std::string& get() const { return str; }

	size_t length() const { return str.length(); }

	void SetNullOutput(const bool wantNullOutput = true) { nullOutput = wantNullOutput; }
	void clear() { str.clear(); }

	void Read(NiIStream& stream, const int szSize);
	void Write(NiOStream& stream, const int szSize);

	void Sync(NiStreamReversible& stream, const int szSize) {
		if (auto istream = stream.asRead())
			Read(*istream, szSize);
		else if (auto ostream = stream.asWrite())
			Write(*ostream, szSize);
	}

	bool operator==(const NiString& rhs) const { return str == rhs.str; }
	bool operator!=(const NiString& rhs) const { return !operator==(rhs); }

	bool operator==(const std::string& rhs) const { return str == rhs; }
	bool operator!=(const std::string& rhs) const { return !operator==(rhs); }
};

class NiStringRef {
private:
	std::string str;
	uint32_t index = NIF_NPOS; // Temporary index storage for load/save

public:
	NiStringRef() = default;
	NiStringRef(const std::string& s) { str = s; }

	std::string& get() { return str; }
	const std::string& get() const { return str; }

	size_t length() const { return str.length(); }

	uint32_t GetIndex() const { return index; }
	void SetIndex(const uint32_t id) { index = id; }

	void clear() {
		index = NIF_NPOS;
		str.clear();
	}

	void Read(NiIStream& stream);
	void Write(NiOStream& stream);

	void Sync(NiStreamReversible& stream) {
		if (auto istream = stream.asRead())
			Read(*istream);
		else if (auto ostream = stream.asWrite())
			Write(*ostream);
	}

	bool operator==(const NiStringRef& rhs) const { return str == rhs.str; }
	bool operator!=(const NiStringRef& rhs) const { return !operator==(rhs); }

	bool operator==(const std::string& rhs) const { return str == rhs; }
	bool operator!=(const std::string& rhs) const { return !operator==(rhs); }
};

class NiRef {
public:
	uint32_t index = NIF_NPOS;

	void Clear() { index = NIF_NPOS; }
	bool IsEmpty() const { return index == NIF_NPOS; }

	bool operator==(const NiRef& rhs) const { return index == rhs.index; }
	bool operator!=(const NiRef& rhs) const { return !operator==(rhs); }

	bool operator==(const uint32_t rhs) const { return index == rhs; }
	bool operator!=(const uint32_t rhs) const { return !operator==(rhs); }
};

using NiPtr = NiRef;

// Helper to reduce duplication
template<typename ValueType, typename SizeType>
class NiVectorBase {
private:
	std::vector<ValueType> vec;

protected:
	static constexpr size_t NumSize = sizeof(SizeType);
	static constexpr SizeType MaxIndex = std::numeric_limits<SizeType>::max() - 1;

public:
	NiVectorBase() = default;
	NiVectorBase(const SizeType size) { resize(size); }

	SizeType size() const { return static_cast<SizeType>(vec.size()); }
	bool empty() const { return vec.empty(); }

	void clear() { vec.clear(); }

	auto begin() { return vec.begin(); }
	auto cbegin() const { return vec.begin(); }

	auto end() { return vec.end(); }
	auto cend() const { return vec.end(); }

	void resize(SizeType size) { vec.resize(size); }

	void push_back(ValueType& val) { vec.push_back(val); }
	auto insert(SizeType index, ValueType& val) { vec.insert(vec.begin() + index, val); }

	auto& operator[](SizeType i) { return vec[i]; }

	ValueType* data() { return vec.data(); }
	const ValueType* data() const { return vec.data(); }

	auto erase(SizeType i) { return vec.erase(vec.begin() + i); }
};

template<typename ValueType, typename SizeType = uint32_t>
class NiVector : public NiVectorBase<ValueType, SizeType> {
	using Base = NiVectorBase<ValueType, SizeType>;
	using Base::MaxIndex;
	using Base::NumSize;

public:
	NiVector() = default;
	NiVector(const SizeType size)
		: Base(size) {}

	SizeType Sync(NiStreamReversible& stream) {
		SizeType sz = SyncSize(stream);
		SyncData(stream, sz);
		return sz;
	}

	SizeType SyncSize(NiStreamReversible& stream) {
		SizeType sz = 0;

		if (stream.GetMode() == NiStreamReversible::Mode::Writing) {
			if (!Base::empty() && Base::size() - 1 > MaxIndex)
				Base::resize(MaxIndex + 1);
		}

		sz = Base::size();

		stream.Sync(reinterpret_cast<char*>(&sz), NumSize);
		return sz;
	}


	void SyncData(NiStreamReversible& stream, const SizeType size) {
		Base::resize(size);

		for (auto& e : *this)
			stream.Sync(e);
	}

	void SyncByteArray(NiStreamReversible& stream) {
		SizeType sz = SyncSize(stream);
		Base::resize(sz);

		if (sz > 0)
			stream.Sync(reinterpret_cast<char*>(Base::data()), sz);
	}
};

template<typename ValueType, typename SizeType = uint32_t>
class NiSyncVector : public NiVectorBase<ValueType, SizeType> {
	using Base = NiVectorBase<ValueType, SizeType>;
	using Base::MaxIndex;
	using Base::NumSize;

public:
	NiSyncVector() = default;
	NiSyncVector(const SizeType size)
		: Base(size) {}

	SizeType Sync(NiStreamReversible& stream) {
		SizeType sz = SyncSize(stream);
		SyncData(stream, sz);
		return sz;
	}

	SizeType SyncSize(NiStreamReversible& stream) {
		SizeType sz = 0;

		if (stream.GetMode() == NiStreamReversible::Mode::Writing) {
			if (!Base::empty() && Base::size() - 1 > MaxIndex)
				Base::resize(MaxIndex + 1);
		}

		sz = Base::size();

		stream.Sync(reinterpret_cast<char*>(&sz), NumSize);
		return sz;
	}

	void SyncData(NiStreamReversible& stream, const SizeType size) {
		Base::resize(size);

		for (auto& e : *this)
			e.Sync(stream);
	}

	void GetStringRefs(std::vector<NiStringRef*>& refs) {
		for (auto& e : *this)
			e.GetStringRefs(refs);
	}

	void GetChildRefs(std::set<NiRef*>& refs) {
		for (auto& e : *this)
			e.GetChildRefs(refs);
	}

	void GetChildIndices(std::vector<uint32_t>& indices) {
		for (auto& e : *this)
			e.GetChildIndices(indices);
	}

	void GetPtrs(std::set<NiPtr*>& ptrs) {
		for (auto& e : *this)
			e.GetPtrs(ptrs);
	}
};

template<typename SizeType = uint32_t, const int stringSize = 4>
class NiStringVector : public NiVectorBase<NiString, SizeType> {
private:
	using Base = NiVectorBase<NiString, SizeType>;
	using Base::MaxIndex;
	using Base::NumSize;

public:
	NiStringVector() = default;
	NiStringVector(const SizeType size) { Base::resize(size); }

	void Read(NiIStream& stream) {
		SizeType sz = 0;
		stream.read(reinterpret_cast<char*>(&sz), NumSize);

		Base::resize(sz);

		for (auto& e : *this)
			e.Read(stream, stringSize);
	}

	void Write(NiOStream& stream) {
		if (!Base::empty() && Base::size() - 1 > MaxIndex)
			Base::resize(MaxIndex + 1);

		SizeType sz = Base::size();
		stream.write(reinterpret_cast<char*>(&sz), NumSize);

		for (auto& e : *this)
			e.Write(stream, stringSize);
	}

	void Sync(NiStreamReversible& stream) {
		if (auto istream = stream.asRead())
			Read(*istream);
		else if (auto ostream = stream.asWrite())
			Write(*ostream);
	}
};

template<typename SizeType = uint32_t>
class NiStringRefVector : public NiVectorBase<NiStringRef, SizeType> {
private:
	using Base = NiVectorBase<NiStringRef, SizeType>;
	using Base::MaxIndex;
	using Base::NumSize;

public:
	NiStringRefVector() = default;
	NiStringRefVector(const SizeType size) { resize(size); }

	void Read(NiIStream& stream) {
		SizeType sz = 0;
		stream.read(reinterpret_cast<char*>(&sz), NumSize);

		Base::resize(sz);

		for (auto& e : *this)
			e.Read(stream);
	}

	void Write(NiOStream& stream) {
		if (!Base::empty() && Base::size() - 1 > MaxIndex)
			Base::resize(MaxIndex + 1);

		SizeType sz = Base::size();
		stream.write(reinterpret_cast<char*>(&sz), NumSize);

		for (auto& e : *this)
			e.Write(stream);
	}

	void Sync(NiStreamReversible& stream) {
		if (auto istream = stream.asRead())
			Read(*istream);
		else if (auto ostream = stream.asWrite())
			Write(*ostream);
	}
};

template<typename T>
class NiBlockRef : public NiRef {
	using base = NiRef;

public:
	NiBlockRef() {}
	NiBlockRef(const uint32_t id) { NiRef::index = id; }

#ifdef NIFLY_VERIF
	void Sync(NiStreamReversible& stream) {
		if (verif::observer() && verif::depth() == 0)
			verif::observer()->onRef(static_cast<NiRef*>(this), stream.GetMode() == NiStreamReversible::Mode::Reading);
		stream.Sync(base::index);
	}
#else
	void Sync(NiStreamReversible& stream) { stream.Sync(base::index); }
#endif
};

template<typename T>
using NiBlockPtr = NiBlockRef<T>;

class NiRefArray {
protected:
	uint32_t arraySize = 0;
	bool keepEmptyRefs = false;

public:
	virtual ~NiRefArray() {}

	uint32_t GetSize() const { return arraySize; }

	void SetKeepEmptyRefs(const bool keep = true) { keepEmptyRefs = keep; }

	virtual void Sync(NiStreamReversible& stream) = 0;

	virtual void AddBlockRef(const uint32_t id) = 0;
	virtual uint32_t GetBlockRef(const uint32_t id) const = 0;
	virtual void SetBlockRef(const uint32_t id, const uint32_t index) = 0;
	virtual void RemoveBlockRef(const uint32_t id) = 0;
	virtual void GetIndices(std::vector<uint32_t>& indices) = 0;
	virtual void GetIndexPtrs(std::set<NiRef*>& indices) = 0;
	virtual void SetIndices(const std::vector<uint32_t>& indices) = 0;
};

template<typename T>
class NiBlockRefArray : public NiRefArray {
protected:
	using NiRefArray::arraySize;
	using NiRefArray::keepEmptyRefs;

	std::vector<NiBlockRef<T>> refs;

	void CleanInvalidRefs() {
		if (keepEmptyRefs)
			return;

		refs.erase(std::remove_if(refs.begin(), refs.end(), [](NiBlockRef<T> r) { return r.IsEmpty(); }),
				   refs.end());

		arraySize = static_cast<uint32_t>(refs.size());
	}

public:
	using iterator = typename std::vector<NiBlockRef<T>>::iterator;
	using const_iterator = typename std::vector<NiBlockRef<T>>::const_iterator;

	iterator begin() { return refs.begin(); }

	iterator end() { return refs.end(); }

	const_iterator cbegin() const { return refs.cbegin(); }

	const_iterator cend() const { return refs.cend(); }

	void Clear() {
		refs.clear();
		arraySize = 0;
		keepEmptyRefs = false;
	}

	void SetSize(const uint32_t size) {
		arraySize = size;
		refs.resize(arraySize);
	}

	void Sync(NiStreamReversible& stream) override {
		if (stream.GetMode() == NiStreamReversible::Mode::Writing)
			CleanInvalidRefs();

		stream.Sync(arraySize);
		refs.resize(arraySize);

		for (auto& r : refs)
			r.Sync(stream);
	}

	void AddBlockRef(const uint32_t index) override {
		refs.push_back(NiBlockRef<T>(index));
		arraySize++;
	}

	uint32_t GetBlockRef(const uint32_t id) const override {
		if (id != NIF_NPOS && refs.size() > id)
			return refs[id].index;

		return NIF_NPOS;
	}

	void SetBlockRef(const uint32_t id, const uint32_t index) override {
		if (id != NIF_NPOS && refs.size() > id)
			refs[id].index = index;
	}

	void RemoveBlockRef(const uint32_t id) override {
		if (id != NIF_NPOS && refs.size() > id) {
			refs.erase(refs.begin() + id);
			arraySize--;
		}
	}

	void GetIndices(std::vector<uint32_t>& indices) override {
		for (auto& r : refs)
			indices.push_back(r.index);
	}

	void GetIndexPtrs(std::set<NiRef*>& indices) override {
		for (auto& r : refs)
			indices.insert(&r);
	}

	void SetIndices(const std::vector<uint32_t>& indices) override {
		arraySize = static_cast<uint32_t>(indices.size());
		refs.resize(arraySize);

		for (uint32_t i = 0; i < arraySize; i++)
			refs[i].index = indices[i];
	}
};

template<typename T>
using NiBlockPtrArray = NiBlockRefArray<T>;

template<typename T>
class NiBlockRefShortArray : public NiBlockRefArray<T> {
public:
	using base = NiBlockRefArray<T>;
	using base::arraySize;
	using base::refs;

	void Sync(NiStreamReversible& stream) override {
		if (stream.GetMode() == NiStreamReversible::Mode::Writing)
			base::CleanInvalidRefs();

		stream.Sync(reinterpret_cast<char*>(&arraySize), 2);
		refs.resize(arraySize);

		for (auto& r : refs)
			r.Sync(stream);
	}
};

template<typename T>
using NiBlockPtrShortArray = NiBlockRefShortArray<T>;

class NiObject {
protected:
	uint32_t blockSize = 0;
	uint32_t groupID = 0;

public:
	virtual ~NiObject() = default;

	static constexpr const char* BlockName = "NiUnknown";
	virtual const char* GetBlockName() { return BlockName; }

	virtual void notifyVerticesDelete(const std::vector<uint16_t>&) {}

	virtual void Get(NiIStream& stream) {
		if (stream.GetVersion().File() >= V10_0_0_0 && stream.GetVersion().File() < V10_1_0_114)
			stream.read(reinterpret_cast<char*>(&groupID), 4);
	}

	virtual void Put(NiOStream& stream) {
		if (stream.GetVersion().File() >= V10_0_0_0 && stream.GetVersion().File() < V10_1_0_114)
			stream.write(reinterpret_cast<const char*>(&groupID), 4);
	}

	virtual void GetStringRefs(std::vector<NiStringRef*>&) {}
	virtual void GetChildRefs(std::set<NiRef*>&) {}
	virtual void GetChildIndices(std::vector<uint32_t>&) {}
	virtual void GetPtrs(std::set<NiPtr*>&) {}

	std::unique_ptr<NiObject> Clone() const {
		return std::unique_ptr<NiObject>(static_cast<NiObject*>(this->Clone_impl()));
	}

	template<typename T>
	bool HasType() const {
		return dynamic_cast<const T*>(this) != nullptr;
	}

private:
	virtual NiObject* Clone_impl() const = 0;
};

class NiHeader : public NiHeaderBase, public NiCloneable<NiHeader, NiObject> {
	/*
	Minimum supported
	Version:			20.2.0.7
	User Version:		11
	User Version 2:		26

	Maximum supported
	Version:			20.2.0.7
	User Version:		12
	User Version 2:		155
	*/

private:
	NiString creator;
	uint32_t unkInt1 = 0;
	NiString exportInfo1;
	NiString exportInfo2;
	NiString exportInfo3;

	std::string copyright1;
	std::string copyright2;
	std::string copyright3;

	uint32_t embedDataSize = 0;
	std::vector<uint8_t> embedData;

	// Foreign reference to the blocks list in NifFile.
	std::vector<std::unique_ptr<NiObject>>* blocks = nullptr;

	uint32_t numBlocks = 0;
	uint16_t numBlockTypes = 0;
	std::vector<NiString> blockTypes;
	std::vector<uint16_t> blockTypeIndices;
	std::vector<uint32_t> blockSizes;

	uint32_t numStrings = 0;
	uint32_t maxStringLen = 0;
	std::vector<NiString> strings;

	uint32_t numGroups = 0;
	std::vector<uint32_t> groupSizes;

public:
	static constexpr const char* BlockName = "NiHeader";
	const char* GetBlockName() override { return BlockName; }

	void Clear();

	std::string GetCreatorInfo() const;
	void SetCreatorInfo(const std::string& creatorInfo);

	std::string GetExportInfo() const;

	// Sets export info string (automatically split into three members after 254 characters each)
	void SetExportInfo(const std::string& exportInfo);

	// Sets pointer to all blocks in the file
	void SetBlockReference(std::vector<std::unique_ptr<NiObject>>* blockRef) { blocks = blockRef; }

#ifdef NIFLY_VERIF
	// Verification hook (guard NIFLY_VERIF): read-only views of the header tables.
	const std::vector<NiString>& VerifBlockTypes() const { return blockTypes; }
	const std::vector<uint16_t>& VerifBlockTypeIndices() const { return blockTypeIndices; }
	const std::vector<uint32_t>& VerifBlockSizes() const { return blockSizes; }
	const std::vector<NiString>& VerifStrings() const { return strings; }
	uint16_t VerifNumBlockTypes() const { return numBlockTypes; }
	uint32_t VerifNumStrings() const { return numStrings; }
	uint32_t VerifMaxStringLen() const { return maxStringLen; }
#endif

	uint32_t GetNumBlocks() const { return numBlocks; }

	template<class T>
	T* GetBlock(const uint32_t blockId) const {
		if (blockId != NIF_NPOS && blockId < numBlocks)
			return dynamic_cast<T*>((*blocks)[blockId].get());

		return nullptr;
	}

	template<class T>
	T* GetBlock(const NiBlockRef<T>& blockRef) const {
		return GetBlock<T>(blockRef.index);
	}

	template<class T>
	T* GetBlock(const NiBlockRef<T>* blockRef) const {
		if (blockRef)
			return GetBlock<T>(blockRef->index);
		return nullptr;
	}

	template<class T>
	T* GetBlock(const NiRef& blockRef) const {
		return GetBlock<T>(blockRef.index);
	}

	template<class T>
	T* GetBlock(const NiRef* blockRef) const {
		if (blockRef)
			return GetBlock<T>(blockRef->index);
		return nullptr;
	}

	template<class T>
	T* GetBlockUnsafe(const uint32_t blockId) const {
		if (blockId != NIF_NPOS && blockId < numBlocks)
			return static_cast<T*>((*blocks)[blockId].get());

		return nullptr;
	}

	template<class T>
	T* GetBlockUnsafe(const NiBlockRef<T>& blockRef) const {
		return GetBlockUnsafe<T>(blockRef.index);
	}

	template<class T>
	T* GetBlockUnsafe(const NiBlockRef<T>* blockRef) const {
		if (blockRef)
			return GetBlockUnsafe<T>(blockRef->index);
		return nullptr;
	}

	template<class T>
	T* GetBlockUnsafe(const NiRef& blockRef) const {
		return GetBlockUnsafe<T>(blockRef.index);
	}

	template<class T>
	T* GetBlockUnsafe(const NiRef* blockRef) const {
		if (blockRef)
			return GetBlockUnsafe<T>(blockRef->index);
		return nullptr;
	}

	// Returns the index of a block in the file (or NIF_NPOS)
	uint32_t GetBlockID(NiObject* block) const;

	// Deletes a block and notifies all other blocks
	void DeleteBlock(const uint32_t blockId);
	// Deletes a block and notifies all other blocks
	void DeleteBlock(const NiRef& blockRef);

	// Deletes all blocks with the specified block type name.
	// "orphanedOnly" makes sure no blocks that are still referenced by other blocks are deleted.
	void DeleteBlockByType(const std::string& blockTypeStr, const bool orphanedOnly = false);

	// Adds a new block to the file. Pointer is moved to the file.
	uint32_t AddBlock(std::unique_ptr<NiObject> newBlock);

	// Replaces an existing block in the file. Pointer is moved to the file.
	// This is not the same as deleting and adding a new block.
	uint32_t ReplaceBlock(const uint32_t oldBlockId, std::unique_ptr<NiObject> newBlock);

	void SetBlockOrder(std::vector<uint32_t>& newOrder);

	bool IsBlockReferenced(const uint32_t blockId, bool includePtrs = true);
	int GetBlockRefCount(const uint32_t blockId, bool includePtrs = true);

	// Deletes all unreferenced (loose) blocks of the given type starting at the specified root.
	// Use template type "NiObject" for all block types.
	// Sets the amount of deleted blocks (or 0) in "deletionCount".
	template<class T>
	bool DeleteUnreferencedBlocks(const uint32_t rootId, uint32_t* deletionCount = nullptr) {
		if (rootId == NIF_NPOS)
			return false;

		for (uint32_t i = 0; i < numBlocks; i++) {
			if (i != rootId) {
				// Only check blocks of provided template type
				auto block = GetBlock<T>(i);
				if (block && !IsBlockReferenced(i)) {
					DeleteBlock(i);

					if (deletionCount)
						(*deletionCount)++;

					// Deleting a block can cause others to become unreferenced
					return DeleteUnreferencedBlocks<T>(rootId > i ? rootId - 1 : rootId, deletionCount);
				}
			}
		}

		return true;
	}

	uint16_t AddOrFindBlockTypeId(const std::string& blockTypeName);
	std::string GetBlockTypeStringById(const uint32_t blockId) const;
	uint16_t GetBlockTypeIndex(const uint32_t blockId) const;

	uint32_t GetBlockSize(const uint32_t blockId) const;
	std::streampos GetBlockSizeStreamPos() const;
	void ResetBlockSizeStreamPos();

	uint32_t GetStringCount() const override;
	uint32_t FindStringId(const std::string& str) const override;

	// Adds a new string to the header (or finds a matching one).
	// "addEmpty" allows for adding an empty string, which is usually not required.
	// Returns the string index that can then be assigned to a block's member.
	uint32_t AddOrFindStringId(const std::string& str, const bool addEmpty = false) override;

	// Returns string at the specified string index (or empty string)
	std::string GetStringById(const uint32_t id) const override;

	// Sets string at the specified string index (or does nothing)
	void SetStringById(const uint32_t id, const std::string& str) override;

	void ClearStrings();
	void UpdateMaxStringLength();

	// Fills all string references with their corresponding header string (index -> string)
	void FillStringRefs();

	// Creates header strings for all string references or updates existing ones (string -> index)
	void UpdateHeaderStrings(const bool hasUnknown);

	static void BlockDeleted(NiObject* o, const uint32_t blockId);

	void Get(NiIStream& stream) override;
	void Put(NiOStream& stream) override;
};

struct NiPlane {
	Vector3 normal;
	float constant = 0.0f;
};

class BSTextureArray {
public:
	NiStringVector<> textureArray;

	void Sync(NiStreamReversible& stream) { textureArray.Sync(stream); }
};

// Used for all unknown block types
class NiUnknown : public NiCloneableStreamable<NiUnknown, NiObject> {
public:
	std::vector<char> data;

	NiUnknown() {}
	NiUnknown(NiIStream& stream, const uint32_t size);
	NiUnknown(const uint32_t size);

	void Sync(NiStreamReversible& stream);
};
} // namespace nifly
