/*
nifly
C++ NIF library for the Gamebryo/NetImmerse File Format
See the included GPLv3 LICENSE file
*/

#pragma once

#include "Animation.hpp"
#include "BasicTypes.hpp"
#include "ExtraData.hpp"

namespace nifly {
class NiObjectNET : public NiCloneableStreamable<NiObjectNET, NiObject> {
public:
	NiStringRef name;

	bool bBSLightingShaderProperty = false;
	uint32_t bslspShaderType = 0; // BSLightingShaderProperty && User Version >= 12

	NiBlockRef<NiTimeController> controllerRef;
	NiBlockRefArray<NiExtraData> extraDataRefs;

	void Sync(NiStreamReversible& stream);
	void GetStringRefs(std::vector<NiStringRef*>& refs) override;
	void GetChildRefs(std::set<NiRef*>& refs) override;
	void GetChildIndices(std::vector<uint32_t>& indices) override;
};

class NiProperty;
class NiCollisionObject;

class NiAVObject : public NiCloneableStreamable<NiAVObject, NiObjectNET> {
public:
	uint32_t flags = 524302;
	/* "transform" is the coordinate system (CS) transform from this
	object's CS to its parent's CS.
	Recommendation: rename "transform" to "transformToParent". */
	MatTransform transform;

	NiBlockRefArray<NiProperty> propertyRefs;
	NiBlockRef<NiCollisionObject> collisionRef;

	void Sync(NiStreamReversible& stream);
	void GetChildRefs(std::set<NiRef*>& refs) override;
	void GetChildIndices(std::vector<uint32_t>& indices) override;

	const MatTransform& GetTransformToParent() const { return transform; }
	void SetTransformToParent(const MatTransform& t) { transform = t; }
};

class AVObject {
public:
	NiString name;
	NiBlockPtr<NiAVObject> objectRef;

	void Sync(NiStreamReversible& stream) {
		name.Sync(stream, 4);
		objectRef.Sync(stream);
	}

	void GetPtrs(std::set<NiPtr*>& ptrs) { ptrs.insert(&objectRef); }
};

class NiAVObjectPalette : public NiCloneable<NiAVObjectPalette, NiObject> {};

class NiDefaultAVObjectPalette : public NiCloneableStreamable<NiDefaultAVObjectPalette, NiAVObjectPalette> {
public:
	NiBlockPtr<NiAVObject> sceneRef;
	NiSyncVector<AVObject> objects;

	static constexpr const char* BlockName = "NiDefaultAVObjectPalette";
	const char* GetBlockName() override { return BlockName; }

	void Sync(NiStreamReversible& stream);
	void GetPtrs(std::set<NiPtr*>& ptrs) override;
};

class NiCamera : public NiCloneableStreamable<NiCamera, NiAVObject> {
public:
	uint16_t obsoleteFlags = 0;
	float frustumLeft = 0.0f;
	float frustumRight = 0.0f;
	float frustumTop = 0.0f;
	float frustomBottom = 0.0f;
	float frustumNear = 0.0f;
	float frustumFar = 0.0f;
	bool useOrtho = false;
	float viewportLeft = 0.0f;
	float viewportRight = 0.0f;
	float viewportTop = 0.0f;
	float viewportBottom = 0.0f;
	float lodAdjust = 0.0f;

	NiBlockRef<NiAVObject> sceneRef;
	uint32_t numScreenPolygons = 0;
	uint32_t numScreenTextures = 0;

	static constexpr const char* BlockName = "NiCamera";
	const char* GetBlockName() override { return BlockName; }

	void Sync(NiStreamReversible& stream);
	void GetChildRefs(std::set<NiRef*>& refs) override;
	void GetChildIndices(std::vector<uint32_t>& indices) override;
};

class NiSequenceStreamHelper : public NiCloneable<NiSequenceStreamHelper, NiObjectNET> {
public:
	static constexpr const char* BlockName = "NiSequenceStreamHelper";
	const char* GetBlockName() override { return BlockName; }
};

class NiPalette : public NiCloneableStreamable<NiPalette, NiObject> {
public:
	bool hasAlpha = false;
	NiVector<ByteColor4> palette = NiVector<ByteColor4>(256);

	static constexpr const char* BlockName = "NiPalette";
	const char* GetBlockName() override { return BlockName; }

	void Sync(NiStreamReversible& stream);
};

enum PixelFormat : uint32_t {
	PX_FMT_RGB8,
	PX_FMT_RGBA8,
	PX_FMT_PAL8,
	PX_FMT_DXT1 = 4,
	PX_FMT_DXT5 = 5,
	PX_FMT_DXT5_ALT = 6,
};

enum PixelTiling : uint32_t { PX_TILE_NONE, PX_TILE_XENON, PX_TILE_WII, PX_TILE_NV_SWIZZLED };

enum PixelComponent : uint32_t {
	PX_COMP_RED,
	PX_COMP_GREEN,
	PX_COMP_BLUE,
	PX_COMP_ALPHA,
	PX_COMP_COMPRESSED,
	PX_COMP_OFFSET_U,
	PX_COMP_OFFSET_V,
	PX_COMP_OFFSET_W,
	PX_COMP_OFFSET_Q,
	PX_COMP_LUMA,
	PX_COMP_HEIGHT,
	PX_COMP_VECTOR_X,
	PX_COMP_VECTOR_Y,
	PX_COMP_VECTOR_Z,
	PX_COMP_PADDING,
	PX_COMP_INTENSITY,
	PX_COMP_INDEX,
	PX_COMP_DEPTH,
	PX_COMP_STENCIL,
	PX_COMP_EMPTY
};

enum PixelRepresentation : uint32_t {
	PX_REP_NORM_INT,
	PX_REP_HALF,
	PX_REP_FLOAT,
	PX_REP_INDEX,
	PX_REP_COMPRESSED,
	PX_REP_UNKNOWN,
	PX_REP_INT
};

struct PixelFormatComponent {
	PixelComponent type = PX_COMP_RED;
	PixelRepresentation convention = PX_REP_NORM_INT;
	uint8_t bitsPerChannel = 0;
	bool isSigned = false;
};

struct MipMapInfo {
	uint32_t width = 0;
	uint32_t height = 0;
	uint32_t offset = 0;
};

class TextureRenderData : public NiCloneableStreamable<TextureRenderData, NiObject> {
public:
	PixelFormat pixelFormat = PX_FMT_RGB8;
	uint8_t bitsPerPixel = 0;
	uint32_t rendererHint = 0xFFFFFFFF;
	uint32_t extraData = 0;
	uint8_t flags = 0;
	PixelTiling pixelTiling = PX_TILE_NONE;

	PixelFormatComponent channels[4]{};
	NiBlockRef<NiPalette> paletteRef;

	NiVector<MipMapInfo> mipmaps;
	uint32_t bytesPerPixel = 0;

	void Sync(NiStreamReversible& stream);
	void GetChildRefs(std::set<NiRef*>& refs) override;
	void GetChildIndices(std::vector<uint32_t>& indices) override;
};

enum PlatformID : uint32_t { PLAT_ANY, PLAT_XENON, PLAT_PS3, PLAT_DX9, PLAT_WII, PLAT_D3D10 };

class NiPersistentSrcTextureRendererData
	: public NiCloneableStreamable<NiPersistentSrcTextureRendererData, TextureRenderData> {
public:
	uint32_t numPixels = 0;
	uint32_t padNumPixels = 0;
	uint32_t numFaces = 0;
	PlatformID platform = PLAT_ANY;

	std::vector<std::vector<uint8_t>> pixelData;

	static constexpr const char* BlockName = "NiPersistentSrcTextureRendererData";
	const char* GetBlockName() override { return BlockName; }

	void Sync(NiStreamReversible& stream);
};

class NiPixelData : public NiCloneableStreamable<NiPixelData, TextureRenderData> {
public:
	uint32_t numPixels = 0;
	uint32_t numFaces = 0;

	std::vector<std::vector<uint8_t>> pixelData;

	static constexpr const char* BlockName = "NiPixelData";
	const char* GetBlockName() override { return BlockName; }

	void Sync(NiStreamReversible& stream);
};

enum PixelLayout : uint32_t {
	PX_LAY_PALETTIZED_8,
	PX_LAY_HIGH_COLOR_16,
	PX_LAY_TRUE_COLOR_32,
	PX_LAY_COMPRESSED,
	PX_LAY_BUMPMAP,
	PX_LAY_PALETTIZED_4,
	PX_LAY_DEFAULT,
	PX_LAY_SINGLE_COLOR_8,
	PX_LAY_SINGLE_COLOR_16,
	PX_LAY_SINGLE_COLOR_32,
	PX_LAY_DOUBLE_COLOR_32,
	PX_LAY_DOUBLE_COLOR_64,
	PX_LAY_FLOAT_COLOR_32,
	PX_LAY_FLOAT_COLOR_64,
	PX_LAY_FLOAT_COLOR_128,
	PX_LAY_SINGLE_COLOR_4,
	PX_LAY_DEPTH_24_X8,
};

enum MipMapFormat : uint32_t { MIP_FMT_NO, MIP_FMT_YES, MIP_FMT_DEFAULT };

enum AlphaFormat : uint32_t { ALPHA_NONE, ALPHA_BINARY, ALPHA_SMOOTH, ALPHA_DEFAULT };

class NiTexture : public NiCloneable<NiTexture, NiObjectNET> {};

class NiSourceTexture : public NiCloneableStreamable<NiSourceTexture, NiTexture> {
public:
	bool useExternal = true;
	bool useInternal = true;
	NiStringRef fileName;

	// NiPixelData if < 20.2.0.4 or !persistentRenderData
	// else NiPersistentSrcTextureRendererData
	NiBlockRef<TextureRenderData> dataRef;

	PixelLayout pixelLayout = PX_LAY_PALETTIZED_4;
	MipMapFormat mipMapFormat = MIP_FMT_DEFAULT;
	AlphaFormat alphaFormat = ALPHA_DEFAULT;
	bool isStatic = true;
	bool directRender = true;
	bool persistentRenderData = false;

	static constexpr const char* BlockName = "NiSourceTexture";
	const char* GetBlockName() override { return BlockName; }

	void Sync(NiStreamReversible& stream);
	void GetStringRefs(std::vector<NiStringRef*>& refs) override;
	void GetChildRefs(std::set<NiRef*>& refs) override;
	void GetChildIndices(std::vector<uint32_t>& indices) override;
};

class NiSourceCubeMap : public NiCloneable<NiSourceCubeMap, NiSourceTexture> {
public:
	static constexpr const char* BlockName = "NiSourceCubeMap";
	const char* GetBlockName() override { return BlockName; }
};

enum TexFilterMode : uint32_t {
	FILTER_NEAREST,
	FILTER_BILERP,
	FILTER_TRILERP,
	FILTER_NEAREST_MIPNEAREST,
	FILTER_NEAREST_MIPLERP,
	FILTER_BILERP_MIPNEAREST
};

enum TexClampMode : uint32_t { CLAMP_S_CLAMP_T, CLAMP_S_WRAP_T, WRAP_S_CLAMP_T, WRAP_S_WRAP_T };

enum EffectType : uint32_t {
	EFFECT_PROJECTED_LIGHT,
	EFFECT_PROJECTED_SHADOW,
	EFFECT_ENVIRONMENT_MAP,
	EFFECT_FOG_MAP
};

enum CoordGenType : uint32_t {
	CG_WORLD_PARALLEL,
	CG_WORLD_PERSPECTIVE,
	CG_SPHERE_MAP,
	CG_SPECULAR_CUBE_MAP,
	CG_DIFFUSE_CUBE_MAP
};

class NiDynamicEffect : public NiCloneableStreamable<NiDynamicEffect, NiAVObject> {
public:
	bool switchState = true;
	NiBlockPtrArray<NiNode> affectedNodes;

	void Sync(NiStreamReversible& stream);
	void GetPtrs(std::set<NiPtr*>& ptrs) override;
};

class NiTextureEffect : public NiCloneableStreamable<NiTextureEffect, NiDynamicEffect> {
public:
	Matrix3 modelProjectionMatrix;
	Vector3 modelProjectionTranslation;
	TexFilterMode textureFiltering = FILTER_TRILERP;
	TexClampMode textureClamping = WRAP_S_WRAP_T;
	EffectType textureType = EFFECT_ENVIRONMENT_MAP;
	CoordGenType coordinateGenerationType = CG_SPHERE_MAP;
	NiBlockRef<NiSourceTexture> sourceTexture;
	uint8_t clippingPlane = 0;
	NiPlane plane;

	static constexpr const char* BlockName = "NiTextureEffect";
	const char* GetBlockName() override { return BlockName; }

	void Sync(NiStreamReversible& stream);
	void GetChildRefs(std::set<NiRef*>& refs) override;
	void GetChildIndices(std::vector<uint32_t>& indices) override;
};

class NiLight : public NiCloneableStreamable<NiLight, NiDynamicEffect> {
public:
	float dimmer = 0.0f;
	Color3 ambientColor;
	Color3 diffuseColor;
	Color3 specularColor;

	void Sync(NiStreamReversible& stream);
};

class NiAmbientLight : public NiCloneable<NiAmbientLight, NiLight> {
public:
	static constexpr const char* BlockName = "NiAmbientLight";
	const char* GetBlockName() override { return BlockName; }
};

class NiDirectionalLight : public NiCloneable<NiDirectionalLight, NiLight> {
public:
	static constexpr const char* BlockName = "NiDirectionalLight";
	const char* GetBlockName() override { return BlockName; }
};

class NiPointLight : public NiCloneableStreamable<NiPointLight, NiLight> {
public:
	float constantAttenuation = 0.0f;
	float linearAttenuation = 0.0f;
	float quadraticAttenuation = 0.0f;

	static constexpr const char* BlockName = "NiPointLight";
	const char* GetBlockName() override { return BlockName; }

	void Sync(NiStreamReversible& stream);
};

class NiSpotLight : public NiCloneableStreamable<NiSpotLight, NiPointLight> {
public:
	float outerSpotAngle = 0.0f;
	float innerSpotAngle = 0.0f;
	float exponent = 1.0f;

	static constexpr const char* BlockName = "NiSpotLight";
	const char* GetBlockName() override { return BlockName; }

	void Sync(NiStreamReversible& stream);
};
} // namespace nifly
