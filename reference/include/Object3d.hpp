/*
nifly
C++ NIF library for the Gamebryo/NetImmerse File Format
See the included GPLv3 LICENSE file
*/

#pragma once

#include <cstdint>
#include <algorithm>
#include <cmath>
#include <cstring>
#include <vector>

namespace nifly {
constexpr float EPSILON = 0.0001f;

constexpr float PI = 3.141592f;
constexpr float DEG2RAD = PI / 180.0f;

inline bool FloatsAreNearlyEqual(float a, float b) {
	float scale = std::max(std::max(std::fabs(a), std::fabs(b)), 1.0f);
	return std::fabs(a - b) <= EPSILON * scale;
}

float CalcMedianOfFloats(const std::vector<float>& data);

// Vector with 2 float components (uv)
struct Vector2 {
	float u = 0.0f;
	float v = 0.0f;

	Vector2() = default;
	Vector2(float U, float V) {
		u = U;
		v = V;
	}

	bool operator==(const Vector2& other) {
		return u == other.u && v == other.v;
	}
	bool operator!=(const Vector2& other) { return !(*this == other); }

	Vector2& operator-=(const Vector2& other) {
		u -= other.u;
		v -= other.v;
		return (*this);
	}
	Vector2 operator-(const Vector2& other) const {
		Vector2 tmp = (*this);
		tmp -= other;
		return tmp;
	}

	Vector2& operator+=(const Vector2& other) {
		u += other.u;
		v += other.v;
		return (*this);
	}
	Vector2 operator+(const Vector2& other) const {
		Vector2 tmp = (*this);
		tmp += other;
		return tmp;
	}

	Vector2& operator*=(float val) {
		u *= val;
		v *= val;
		return (*this);
	}
	Vector2 operator*(float val) const {
		Vector2 tmp = (*this);
		tmp *= val;
		return tmp;
	}

	Vector2& operator/=(float val) {
		u /= val;
		v /= val;
		return (*this);
	}
	Vector2 operator/(float val) const {
		Vector2 tmp = (*this);
		tmp /= val;
		return tmp;
	}
};

// Vector with 3 float components (xyz)
struct Vector3 {
	float x;
	float y;
	float z;

	constexpr Vector3()
		: x(0.0f)
		, y(0.0f)
		, z(0.0f) {}

	constexpr Vector3(float X, float Y, float Z)
		: x(X)
		, y(Y)
		, z(Z) {}

	constexpr float& operator[](int ind) { return ind ? (ind == 2 ? z : y) : x; }
	constexpr float operator[](int ind) const { return ind ? (ind == 2 ? z : y) : x; }

	void Zero() { x = y = z = 0.0f; }

	// With bUseEpsilon, uses nifly::EPSILON for a nearly zero comparison.
	constexpr bool IsZero(bool bUseEpsilon = false) const {
		if (bUseEpsilon) {
			if (std::fabs(x) < EPSILON && std::fabs(y) < EPSILON && std::fabs(z) < EPSILON)
				return true;
		}
		else {
			if (x == 0.0f && y == 0.0f && z == 0.0f)
				return true;
		}

		return false;
	}

	void Normalize() {
		float d = std::sqrt(x * x + y * y + z * z);
		if (d == 0.0f)
			d = 1.0f;

		x /= d;
		y /= d;
		z /= d;
	}

	uint32_t hash() const {
		static_assert(sizeof(float) == sizeof(uint32_t));
		const uint32_t* h = reinterpret_cast<const uint32_t*>(this);
		uint32_t f = (h[0] + h[1] * 11 - h[2] * 17) & 0x7fffffff;
		return (f >> 22) ^ (f >> 12) ^ (f);
	}

	constexpr bool operator==(const Vector3& other) const {
		return x == other.x && y == other.y && z == other.z;
	}
	constexpr bool operator!=(const Vector3& other) const { return !(*this == other); }

	Vector3& operator-=(const Vector3& other) {
		x -= other.x;
		y -= other.y;
		z -= other.z;
		return (*this);
	}
	constexpr Vector3 operator-(const Vector3& other) const {
		return Vector3(x - other.x, y - other.y, z - other.z);
	}
	Vector3& operator+=(const Vector3& other) {
		x += other.x;
		y += other.y;
		z += other.z;
		return (*this);
	}
	constexpr Vector3 operator+(const Vector3& other) const {
		return Vector3(x + other.x, y + other.y, z + other.z);
	}
	[[deprecated("Replaced by ComponentMultiplyBy; should not have been an operator")]]
	Vector3& operator*=(const Vector3& other) {
		x *= other.x;
		y *= other.y;
		z *= other.z;
		return (*this);
	}
	Vector3& ComponentMultiplyBy(const Vector3& other) {
		x *= other.x;
		y *= other.y;
		z *= other.z;
		return (*this);
	}
	[[deprecated("Replaced by ComponentMultiply; should not have been an operator")]]
	constexpr Vector3 operator*(const Vector3& other) const {
		return Vector3(x * other.x, y * other.y, z * other.z);
	}
	constexpr Vector3 ComponentMultiply(const Vector3& other) const {
		return Vector3(x * other.x, y * other.y, z * other.z);
	}
	[[deprecated("Replaced by ComponentDivideBy; should not have been an operator")]]
	Vector3& operator/=(const Vector3& other) {
		x /= other.x;
		y /= other.y;
		z /= other.z;
		return (*this);
	}
	Vector3& ComponentDivideBy(const Vector3& other) {
		x /= other.x;
		y /= other.y;
		z /= other.z;
		return (*this);
	}
	[[deprecated("Replaced by ComponentDivide; should not have been an operator")]]
	constexpr Vector3 operator/(const Vector3& other) const {
		return Vector3(x / other.x, y / other.y, z / other.z);
	}
	constexpr Vector3 ComponentDivide(const Vector3& other) const {
		return Vector3(x / other.x, y / other.y, z / other.z);
	}

	Vector3& operator*=(float val) {
		x *= val;
		y *= val;
		z *= val;
		return (*this);
	}
	constexpr Vector3 operator*(float val) const {
		return Vector3(x * val, y * val, z * val);
	}
	Vector3& operator/=(float val) {
		x /= val;
		y /= val;
		z /= val;
		return (*this);
	}
	constexpr Vector3 operator/(float val) const {
		return Vector3(x / val, y / val, z / val);
	}

	Vector3& operator*=(int val) {
		auto v = static_cast<float>(val);
		x *= v;
		y *= v;
		z *= v;
		return (*this);
	}
	constexpr Vector3 operator*(int val) const {
		float v = static_cast<float>(val);
		return Vector3(x * v, y * v, z * v);
	}
	Vector3& operator/=(int val) {
		auto v = static_cast<float>(val);
		x /= v;
		y /= v;
		z /= v;
		return (*this);
	}
	constexpr Vector3 operator/(int val) const {
		float v = static_cast<float>(val);
		return Vector3(x / v, y / v, z / v);
	}

	Vector3& operator*=(uint32_t val) {
		auto v = static_cast<float>(val);
		x *= v;
		y *= v;
		z *= v;
		return (*this);
	}
	constexpr Vector3 operator*(uint32_t val) const {
		float v = static_cast<float>(val);
		return Vector3(x * v, y * v, z * v);
	}
	Vector3& operator/=(uint32_t val) {
		auto v = static_cast<float>(val);
		x /= v;
		y /= v;
		z /= v;
		return (*this);
	}
	constexpr Vector3 operator/(uint32_t val) const {
		float v = static_cast<float>(val);
		return Vector3(x / v, y / v, z / v);
	}

	Vector3& operator*=(uint64_t val) {
		auto v = static_cast<float>(val);
		x *= v;
		y *= v;
		z *= v;
		return (*this);
	}
	constexpr Vector3 operator*(uint64_t val) const {
		float v = static_cast<float>(val);
		return Vector3(x * v, y * v, z * v);
	}
	Vector3& operator/=(uint64_t val) {
		auto v = static_cast<float>(val);
		x /= v;
		y /= v;
		z /= v;
		return (*this);
	}
	constexpr Vector3 operator/(uint64_t val) const {
		float v = static_cast<float>(val);
		return Vector3(x / v, y / v, z / v);
	}

	constexpr Vector3 cross(const Vector3& other) const {
		Vector3 tmp;
		tmp.x = y * other.z - z * other.y;
		tmp.y = z * other.x - x * other.z;
		tmp.z = x * other.y - y * other.x;
		return tmp;
	}

	constexpr float dot(const Vector3& other) const { return x * other.x + y * other.y + z * other.z; }

	float DistanceTo(const Vector3& target) const {
		float dx = target.x - x;
		float dy = target.y - y;
		float dz = target.z - z;
		return static_cast<float>(std::sqrt(dx * dx + dy * dy + dz * dz));
	}

	constexpr float DistanceSquaredTo(const Vector3& target) const {
		float dx = target.x - x;
		float dy = target.y - y;
		float dz = target.z - z;
		return static_cast<float>(dx * dx + dy * dy + dz * dz);
	}

	float angle(const Vector3& other) const {
		Vector3 A(x, y, z);
		Vector3 B(other.x, other.y, other.z);
		A.Normalize();
		B.Normalize();

		float dot = A.dot(B);
		if (dot > 1.0f)
			return 0.0f;
		else if (dot < -1.0f)
			return PI;
		else if (dot == 0.0f)
			return PI / 2.0f;

		return std::acos(dot);
	}

	void clampEpsilon() {
		if (std::fabs(x) < EPSILON)
			x = 0.0f;
		if (std::fabs(y) < EPSILON)
			y = 0.0f;
		if (std::fabs(z) < EPSILON)
			z = 0.0f;
	}

	bool IsNearlyEqualTo(const Vector3& other) const {
		return FloatsAreNearlyEqual(x, other.x) && FloatsAreNearlyEqual(y, other.y)
			   && FloatsAreNearlyEqual(z, other.z);
	}

	constexpr float length2() const { return x * x + y * y + z * z; }

	float length() const { return std::sqrt(x * x + y * y + z * z); }

	float DistanceToSegment(const Vector3& p1, const Vector3& p2) const {
		Vector3 segvec(p2 - p1);
		Vector3 diffp1(*this - p1);
		float dp = segvec.dot(diffp1);
		if (dp <= 0)
			return diffp1.length();
		else if (dp >= segvec.length2())
			return (*this - p2).length();
		return segvec.cross(diffp1).length() / segvec.length();
	}
};

inline constexpr Vector3 operator*(float f, const Vector3& v) {
	return Vector3(f * v.x, f * v.y, f * v.z);
}

Vector3 CalcMedianOfVector3(const std::vector<Vector3>& data);

// Vector with 4 float components (xyzw)
struct Vector4 {
	float x = 0.0f;
	float y = 0.0f;
	float z = 0.0f;
	float w = 0.0f;

	constexpr Vector4() = default;
	constexpr Vector4(float X, float Y, float Z, float W)
		: x(X)
		, y(Y)
		, z(Z)
		, w(W) {}
};

// Color with 3 float components (rgb)
struct Color3 {
	float r = 0.0f;
	float g = 0.0f;
	float b = 0.0f;

	constexpr Color3() = default;
	constexpr Color3(float r_, float g_, float b_)
		: r(r_)
		, g(g_)
		, b(b_) {}

	constexpr bool operator==(const Color3& other) {
		return r == other.r && g == other.g && b == other.b;
	}
	constexpr bool operator!=(const Color3& other) { return !(*this == other); }

	Color3& operator*=(float val) {
		r *= val;
		g *= val;
		b *= val;
		return *this;
	}
	constexpr Color3 operator*(float val) const {
		return Color3(r * val, g * val, b * val);
	}

	Color3& operator/=(float val) {
		r /= val;
		g /= val;
		b /= val;
		return *this;
	}
	constexpr Color3 operator/(float val) const {
		return Color3(r / val, g / val, b / val);
	}
};

// Color with 4 float components (rgba)
struct Color4 {
	float r = 0.0f;
	float g = 0.0f;
	float b = 0.0f;
	float a = 0.0f;

	constexpr Color4() = default;
	constexpr Color4(float r_, float g_, float b_, float a_)
		: r(r_)
		, g(g_)
		, b(b_)
		, a(a_) {}

	constexpr bool operator==(const Color4& other) {
		return r == other.r && g == other.g && b == other.b && a == other.a;
	}
	constexpr bool operator!=(const Color4& other) { return !(*this == other); }

	Color4& operator*=(float val) {
		r *= val;
		g *= val;
		b *= val;
		a *= val;
		return *this;
	}
	constexpr Color4 operator*(float val) const {
		return Color4(r * val, g * val, b * val, a * val);
	}

	Color4& operator/=(float val) {
		r /= val;
		g /= val;
		b /= val;
		a /= val;
		return *this;
	}
	constexpr Color4 operator/(float val) const {
		return Color4(r / val, g / val, b / val, a / val);
	}
};

// Color with 3 byte components (rgb)
struct ByteColor3 {
	uint8_t r = 0;
	uint8_t g = 0;
	uint8_t b = 0;

	bool operator==(const ByteColor3& other) { return (r == other.r && g == other.g && b == other.b); }
	bool operator!=(const ByteColor3& other) { return !(*this == other); }
};

// Color with 4 byte components (rgba)
struct ByteColor4 {
	uint8_t r = 0;
	uint8_t g = 0;
	uint8_t b = 0;
	uint8_t a = 0;

	bool operator==(const ByteColor4& other) {
		return (r == other.r && g == other.g && b == other.b && a == other.a);
	}
	bool operator!=(const ByteColor4& other) { return !(*this == other); }
};

class Matrix3 {
	Vector3 rows[3] = {Vector3(1.0f, 0.0f, 0.0f), Vector3(0.0f, 1.0f, 0.0f), Vector3(0.0f, 0.0f, 1.0f)};

public:
	constexpr Matrix3() {}
	constexpr Matrix3(const Vector3& r1, const Vector3& r2, const Vector3& r3)
		: rows{r1, r2, r3} {}
	constexpr Matrix3(float m00, float m01, float m02, float m10, float m11, float m12, float m20, float m21, float m22)
		: rows{Vector3(m00, m01, m02), Vector3(m10, m11, m12), Vector3(m20, m21, m22)} {}

	constexpr Vector3& operator[](int index) { return rows[index]; }

	constexpr const Vector3& operator[](int index) const { return rows[index]; }

	constexpr bool operator==(const Matrix3& other) const {
		return rows[0] == other[0] && rows[1] == other[1] && rows[2] == other[2];
	}

	constexpr bool IsIdentity() { return *this == Matrix3(); }

	Matrix3& Identity() {
		//1.0f, 0.0f, 0.0f
		//0.0f, 1.0f, 0.0f
		//0.0f, 0.0f, 1.0f

		rows[0].Zero();
		rows[1].Zero();
		rows[2].Zero();
		rows[0].x = 1.0f;
		rows[1].y = 1.0f;
		rows[2].z = 1.0f;
		return *this;
	}

	constexpr Matrix3 operator+(const Matrix3& other) const {
		return Matrix3(rows[0] + other[0], rows[1] + other[1], rows[2] + other[2]);
	}

	Matrix3& operator+=(const Matrix3& other) {
		*this = *this + other;
		return *this;
	}

	constexpr Matrix3 operator-(const Matrix3& other) const {
		return Matrix3(rows[0] - other[0], rows[1] - other[1], rows[2] - other[2]);
	}

	Matrix3& operator-=(const Matrix3& other) {
		*this = *this - other;
		return *this;
	}

	Matrix3& operator*=(const Matrix3& other) {
		*this = *this * other;
		return *this;
	}

	constexpr Matrix3 operator*(const Matrix3& o) const {
		Matrix3 res;
		res[0][0] = rows[0][0] * o[0][0] + rows[0][1] * o[1][0] + rows[0][2] * o[2][0];
		res[0][1] = rows[0][0] * o[0][1] + rows[0][1] * o[1][1] + rows[0][2] * o[2][1];
		res[0][2] = rows[0][0] * o[0][2] + rows[0][1] * o[1][2] + rows[0][2] * o[2][2];
		res[1][0] = rows[1][0] * o[0][0] + rows[1][1] * o[1][0] + rows[1][2] * o[2][0];
		res[1][1] = rows[1][0] * o[0][1] + rows[1][1] * o[1][1] + rows[1][2] * o[2][1];
		res[1][2] = rows[1][0] * o[0][2] + rows[1][1] * o[1][2] + rows[1][2] * o[2][2];
		res[2][0] = rows[2][0] * o[0][0] + rows[2][1] * o[1][0] + rows[2][2] * o[2][0];
		res[2][1] = rows[2][0] * o[0][1] + rows[2][1] * o[1][1] + rows[2][2] * o[2][1];
		res[2][2] = rows[2][0] * o[0][2] + rows[2][1] * o[1][2] + rows[2][2] * o[2][2];
		return res;
	}

	constexpr Vector3 operator*(const Vector3& v) const {
		return Vector3(rows[0][0] * v.x + rows[0][1] * v.y + rows[0][2] * v.z,
					   rows[1][0] * v.x + rows[1][1] * v.y + rows[1][2] * v.z,
					   rows[2][0] * v.x + rows[2][1] * v.y + rows[2][2] * v.z);
	}

	constexpr Matrix3 operator*(float f) const {
		return Matrix3(rows[0] * f, rows[1] * f, rows[2] * f);
	}

	Matrix3& operator*=(float f) {
		return *this = *this * f;
	}

	constexpr Matrix3 operator/(float f) const {
		return Matrix3(rows[0] / f, rows[1] / f, rows[2] / f);
	}

	Matrix3& operator/=(float f) {
		return *this = *this / f;
	}

	constexpr Matrix3 Transpose() const {
		Matrix3 res;
		res[0][0] = rows[0][0];
		res[0][1] = rows[1][0];
		res[0][2] = rows[2][0];
		res[1][0] = rows[0][1];
		res[1][1] = rows[1][1];
		res[1][2] = rows[2][1];
		res[2][0] = rows[0][2];
		res[2][1] = rows[1][2];
		res[2][2] = rows[2][2];
		return res;
	}

	float Determinant() const;

	// Invert attempts to invert this matrix, returning the result in
	// inverse.  It returns false if the matrix is not invertible, in
	// which case inverse is not changed.
	bool Invert(Matrix3* inverse) const;

	// Inverse returns the inverse of this matrix if it's invertible.
	// If this matrix is not invertible, the identity matrix is returned.
	Matrix3 Inverse() const;

	// Generate rotation matrix from yaw, pitch and roll (in radians)
	// This is not the inverse of ToEulerAngles; though both functions
	// work with Euler angles, there are many conflicting definitions
	// of "Euler angles" (yaw, pitch, and roll), and these two functions
	// use different definitions.
	static Matrix3 MakeRotation(const float yaw, const float pitch, const float roll);

	// Convert rotation to euler degrees (Yaw, Pitch, Roll)
	// This function assumes that the matrix is a rotation matrix.
	// ToEulerAngles is not the inverse of MakeRotation; though both
	// functions work with Euler angles, there are many conflicting
	// definitions of "Euler angles", and these two functions use
	// different definitions.
	// The return result "canRot" apparently means roll is not zero.
	bool ToEulerAngles(float& y, float& p, float& r) const;
	bool ToEulerDegrees(float& y, float& p, float& r) const {
		bool canRot = ToEulerAngles(y, p, r);
		y *= 180.0f / PI;
		p *= 180.0f / PI;
		r *= 180.0f / PI;
		return canRot;
	}

	bool IsNearlyEqualTo(const Matrix3& other) const {
		return rows[0].IsNearlyEqualTo(other.rows[0]) && rows[1].IsNearlyEqualTo(other.rows[1])
			   && rows[2].IsNearlyEqualTo(other.rows[2]);
	}
};

// RotVecToMat: converts a rotation vector to a rotation matrix.
// (A rotation vector has direction the axis of the rotation
// and magnitude the angle of rotation.)
Matrix3 RotVecToMat(const Vector3& v);

// RotMatToVec: converts a rotation matrix into a rotation vector.
// (A rotation vector has direction the axis of the rotation
// and magnitude the angle of rotation.)
// Note that this function is unstable for angles near pi, but it
// should still work.
Vector3 RotMatToVec(const Matrix3& m);

Matrix3 CalcAverageRotation(const std::vector<Matrix3>& rots);
Matrix3 CalcMedianRotation(const std::vector<Matrix3>& rots);

// 4D Matrix class for calculating and applying transformations.
class Matrix4 {
	float m[16]{};

public:
	constexpr Matrix4(): m{1.0f, 0.0f, 0.0f, 0.0f, 0.0f, 1.0f, 0.0f, 0.0f, 0.0f, 0.0f, 1.0f, 0.0f, 0.0f, 0.0f, 0.0f, 1.0f} {}

	Matrix4(const std::vector<Vector3>& mat33) { Set(mat33); }

	void Set(Vector3 mat33[3]) {
		m[0] = mat33[0].x;
		m[1] = mat33[0].y;
		m[2] = mat33[0].z;
		m[3] = 0;
		m[4] = mat33[1].x;
		m[5] = mat33[1].y;
		m[6] = mat33[1].z;
		m[7] = 0;
		m[8] = mat33[2].x;
		m[9] = mat33[2].y;
		m[10] = mat33[2].z;
		m[11] = 0;
		m[12] = 0;
		m[13] = 0;
		m[14] = 0;
		m[15] = 1;
	}

	void Set(const std::vector<Vector3>& mat33) {
		m[0] = mat33[0].x;
		m[1] = mat33[0].y;
		m[2] = mat33[0].z;
		m[3] = 0;
		m[4] = mat33[1].x;
		m[5] = mat33[1].y;
		m[6] = mat33[1].z;
		m[7] = 0;
		m[8] = mat33[2].x;
		m[9] = mat33[2].y;
		m[10] = mat33[2].z;
		m[11] = 0;
		m[12] = 0;
		m[13] = 0;
		m[14] = 0;
		m[15] = 1;
	}

	void SetRow(int row, const Vector3& inVec) {
		m[row * 4 + 0] = inVec.x;
		m[row * 4 + 1] = inVec.y;
		m[row * 4 + 2] = inVec.z;
	}

	constexpr float& operator[](int index) { return m[index]; }
	constexpr float operator[](int index) const { return m[index]; }

	bool operator==(const Matrix4& other) const { return (std::equal(m, m + sizeof m / sizeof *m, other.m)); }

	bool IsIdentity() { return *this == Matrix4(); }

	Matrix4& Identity() {
		std::memset(m, 0, sizeof(float) * 16);
		m[0] = m[5] = m[10] = m[15] = 1.0f;
		return *this;
	}

	void GetRow(int row, Vector3& outVec) {
		outVec.x = m[row * 4 + 0];
		outVec.y = m[row * 4 + 1];
		outVec.z = m[row * 4 + 2];
	}

	void Get33(float* o, int r = 3, int c = 3) {
		int p = 0;
		for (int i = 0; i < 4; i++) {
			if (i == r)
				continue;
			for (int j = 0; j < 4; j++) {
				if (j == c)
					continue;
				o[p++] = m[4 * i + j];
			}
		}
	}

	Matrix4 Inverse() {
		Matrix4 c;
		float det = Det();
		if (det == 0.0f) {
			c[0] = std::numeric_limits<float>::max();
			return c;
		}
		return (Adjoint() * (1.0f / det));
	}

	Matrix4 Cofactor() {
		Matrix4 c;
		float minor[9];
		for (int i = 0; i < 4; i++) {
			for (int j = 0; j < 4; j++) {
				Get33(minor, i, j);
				c[4 * i + j] = Det33(minor);
			}
		}
		return c;
	}

	//  i&1   j&1	   xor
	//	0000 0101    0 1 0 1
	//	1111 0101    1 0 1 0
	//	0000 0101    0 1 0 1
	//	1111 0101    1 0 1 0
	// Adjoint is the transpose of the cofactor.
	Matrix4 Adjoint() {
		Matrix4 c;
		float minor[9];
		for (int i = 0; i < 4; i++) {
			for (int j = 0; j < 4; j++) {
				Get33(minor, i, j);
				if ((i & 1) ^ (j & 1))
					c[i + j * 4] = -Det33(minor);
				else
					c[i + j * 4] = Det33(minor);
			}
		}
		return c;
	}

	float Det() {
		//  |a	b	c	d|	|0	1	2	3 |
		//	|e	f	g	h|	|4	5	6	7 |
		//	|i	j	k	l|	|8	9	10	11|
		//	|m	n	o	p|	|12 13	14	15|
		float A = m[0]
				  * ((m[5] * m[10] * m[15] + m[6] * m[11] * m[13] + m[7] * m[9] * m[14])
					 - (m[7] * m[10] * m[13] + m[6] * m[9] * m[15] + m[5] * m[11] * m[14]));
		float B = m[1]
				  * ((m[4] * m[10] * m[15] + m[6] * m[11] * m[12] + m[7] * m[8] * m[14])
					 - (m[7] * m[10] * m[12] + m[6] * m[8] * m[15] + m[4] * m[11] * m[14]));
		float C = m[2]
				  * ((m[4] * m[9] * m[15] + m[5] * m[11] * m[12] + m[7] * m[8] * m[13])
					 - (m[7] * m[9] * m[12] + m[5] * m[8] * m[15] + m[4] * m[11] * m[13]));
		float D = m[3]
				  * ((m[4] * m[9] * m[14] + m[5] * m[10] * m[12] + m[6] * m[8] * m[13])
					 - (m[6] * m[9] * m[12] + m[5] * m[8] * m[14] + m[4] * m[10] * m[13]));
		return A - B + C - D;
	}

	float Det33(float* t) {
		//  |a	b  c|	|0	1	2 |
		//	|d	e  f|	|3	4	5 |
		//	|g	h  i|	|6  7	8 |
		//  (aei + bfg + cdh) - (ceg + bdi + afh)
		//  (0*4*8 + 1*5*6 + 2*3*7) - (2*4*6 + 1*3*8 + 0*5*7)
		return ((t[0] * t[4] * t[8] + t[1] * t[5] * t[6] + t[2] * t[3] * t[7])
				- (t[2] * t[4] * t[6] + t[1] * t[3] * t[8] + t[0] * t[5] * t[7]));
	}

	constexpr Matrix4 operator+(const Matrix4& other) const {
		Matrix4 t(*this);
		for (int i = 0; i < 16; i++)
			t[i] += other[i];
		return t;
	}
	Matrix4& operator+=(const Matrix4& other) {
		for (int i = 0; i < 16; i++)
			m[i] += other.m[i];

		return (*this);
	}
	constexpr Matrix4 operator-(const Matrix4& other) const {
		Matrix4 t(*this);
		for (int i = 0; i < 16; i++)
			t[i] -= other[i];
		return t;
	}
	Matrix4& operator-=(const Matrix4& other) {
		for (int i = 0; i < 16; i++)
			m[i] -= other.m[i];

		return (*this);
	}
	constexpr Vector3 operator*(const Vector3& v) const {
		return Vector3(m[0] * v.x + m[1] * v.y + m[2] * v.z + m[3],
					   m[4] * v.x + m[5] * v.y + m[6] * v.z + m[7],
					   m[8] * v.x + m[9] * v.y + m[10] * v.z + m[11]);
	}

	Matrix4& operator*=(const Matrix4& r) {
		float v1, v2, v3, v4;
		for (int n = 0; n < 16; n += 4) {
			v1 = m[n] * r.m[0] + m[n + 1] * r.m[4] + m[n + 2] * r.m[8] + m[n + 3] * r.m[12];
			v2 = m[n] * r.m[1] + m[n + 1] * r.m[5] + m[n + 2] * r.m[9] + m[n + 3] * r.m[13];
			v3 = m[n] * r.m[2] + m[n + 1] * r.m[6] + m[n + 2] * r.m[10] + m[n + 3] * r.m[14];
			v4 = m[n] * r.m[3] + m[n + 1] * r.m[7] + m[n + 2] * r.m[11] + m[n + 3] * r.m[15];
			m[n] = v1;
			m[n + 1] = v2;
			m[n + 2] = v3;
			m[n + 3] = v4;
		}
		return *this;
	}
	Matrix4 operator*(const Matrix4& other) {
		Matrix4 t(*this);
		t *= other;
		return t;
	}
	constexpr Matrix4 operator*(float val) {
		Matrix4 t(*this);
		for (int i = 0; i < 16; i++)
			t[i] *= val;

		return t;
	}

	void PushTranslate(const Vector3& byvec) {
		Matrix4 tmp;
		tmp.Translate(byvec);
		(*this) *= tmp;
	}

	Matrix4& Translate(const Vector3& byVec) { return Translate(byVec.x, byVec.y, byVec.z); }
	Matrix4& Translate(float x, float y, float z) {
		m[3] += x;
		m[7] += y;
		m[11] += z;
		return (*this);
	}

	void PushScale(float x, float y, float z) {
		Matrix4 tmp;
		tmp.Scale(x, y, z);
		(*this) *= tmp;
	}

	Matrix4& Scale(float x, float y, float z) {
		m[0] *= x;
		m[1] *= x;
		m[2] *= x;
		m[3] *= x;
		m[4] *= y;
		m[5] *= y;
		m[6] *= y;
		m[7] *= y;
		m[8] *= z;
		m[9] *= z;
		m[10] *= z;
		m[11] *= z;
		return (*this);
	}

	void PushRotate(float radAngle, const Vector3& axis) {
		Matrix4 tmp;
		tmp.Rotate(radAngle, axis);
		(*this) *= tmp;
	}

	Matrix4& Rotate(float radAngle, const Vector3& axis) { return Rotate(radAngle, axis.x, axis.y, axis.z); }

	Matrix4& Rotate(float radAngle, float x, float y, float z) {
		float c = std::cos(radAngle);
		float s = std::sin(radAngle);

		float xx = x * x;
		float xy = x * y;
		float xz = x * z;
		float yy = y * y;
		float yz = y * z;
		float zz = z * z;

		float ic = 1 - c;

		Matrix4 t;
		t.m[0] = xx * ic + c;
		t.m[1] = xy * ic - z * s;
		t.m[2] = xz * ic + y * s;
		t.m[3] = 0.0f;

		t.m[4] = xy * ic + z * s;
		t.m[5] = yy * ic + c;
		t.m[6] = yz * ic - x * s;
		t.m[7] = 0.0f;

		t.m[8] = xz * ic - y * s;
		t.m[9] = yz * ic + x * s;
		t.m[10] = zz * ic + c;

		t.m[11] = t.m[12] = t.m[13] = t.m[14] = 0.0f;
		t.m[15] = 1.0f;

		*this = t * (*this);

		return (*this);
	}

	Matrix4& Align(const Vector3& sourceVec, const Vector3& destVec) {
		Identity();
		float angle = sourceVec.angle(destVec);
		Vector3 axis = sourceVec.cross(destVec);
		axis.Normalize();

		return Rotate(angle, axis);
	}
};


struct BoundingSphere {
	Vector3 center;
	float radius = 0.0f;

	constexpr BoundingSphere() {}

	constexpr BoundingSphere(const Vector3& center_, const float radius_)
		: center(center_)
		, radius(radius_) {}

	// Miniball algorithm
	BoundingSphere(const std::vector<Vector3>& vertices);
};


// Quaternion using float components (wxyz)
struct Quaternion {
	float w;
	float x;
	float y;
	float z;

	constexpr Quaternion()
		: w(1.0f)
		, x(0.0f)
		, y(0.0f)
		, z(0.0f) {}

	constexpr Quaternion(float w_, float x_, float y_, float z_)
		: w(w_)
		, x(x_)
		, y(y_)
		, z(z_) {}
};

// Quaternion using float components (xyzw)
struct QuaternionXYZW {
	float x;
	float y;
	float z;
	float w;

	constexpr QuaternionXYZW()
		: x(0.0f)
		, y(0.0f)
		, z(0.0f)
		, w(1.0f) {}

	constexpr QuaternionXYZW(float x_, float y_, float z_, float w_)
		: x(x_)
		, y(y_)
		, z(z_)
		, w(w_) {}
};


struct MatTransform {
	/* On MatTransform and coordinate-system (CS) transformations:

	A MatTransform can represent a "similarity transform", where
	it scales, rotates, and moves geometry; or it can represent a
	"coordinate-system transform", where the geometry itself does
	not change, but its representation changes from one CS to another.

	If CS1 is the source CS and CS2 is the target CS, then:
	ApplyTransform(v) converts a point v represented in CS1 to CS2.
	translation is CS1's origin represented in CS2.
	rotation has columns the basis vectors of CS1 represented in CS2.
	scale gives how much farther apart points appear to be in CS2 than in CS1.

	Note that we do not force "rotation" to actually be a rotation
	matrix.  A rotation matrix's inverse is its transpose.  Instead,
	we only assume "rotation" is invertible, which means its inverse
	must be calculated (using Matrix3::Invert).  Even though we always
	treat "rotation" as a general invertible matrix and not a rotation
	matrix, in practice it is always a rotation matrix.
	*/
	Vector3 translation;
	Matrix3 rotation;	// must be invertible
	float scale = 1.0f; // must be nonzero

	void Clear() {
		translation.Zero();
		rotation.Identity();
		scale = 1.0f;
	}

	// Rotation in euler degrees (Yaw, Pitch, Roll)
	bool ToEulerDegrees(float& y, float& p, float& r) const { return rotation.ToEulerDegrees(y, p, r); }

	// Full matrix of translation, rotation and scale
	constexpr Matrix4 ToMatrix() const {
		Matrix4 mat;
		mat[0] = rotation[0].x * scale;
		mat[1] = rotation[0].y * scale;
		mat[2] = rotation[0].z * scale;
		mat[3] = translation.x;
		mat[4] = rotation[1].x * scale;
		mat[5] = rotation[1].y * scale;
		mat[6] = rotation[1].z * scale;
		mat[7] = translation.y;
		mat[8] = rotation[2].x * scale;
		mat[9] = rotation[2].y * scale;
		mat[10] = rotation[2].z * scale;
		mat[11] = translation.z;
		return mat;
	}

	// ToGLMMatrix: turns this transform into a glm::mat4x4.  This is
	// basically the same as ToMatrix above, except glm::mat4x4 stores its
	// data in column-major form instead of row-major like everything else.
	// To call, do xform.ToGLMMatrix<glm::mat4x4>();
	template<typename Mat>
	constexpr Mat ToGLMMatrix() const {
		Mat m;
		m[0][0] = rotation[0][0] * scale;
		m[0][1] = rotation[1][0] * scale;
		m[0][2] = rotation[2][0] * scale;
		m[0][3] = 0.0f;
		m[1][0] = rotation[0][1] * scale;
		m[1][1] = rotation[1][1] * scale;
		m[1][2] = rotation[2][1] * scale;
		m[1][3] = 0.0f;
		m[2][0] = rotation[0][2] * scale;
		m[2][1] = rotation[1][2] * scale;
		m[2][2] = rotation[2][2] * scale;
		m[2][3] = 0.0f;
		m[3][0] = translation.x;
		m[3][1] = translation.y;
		m[3][2] = translation.z;
		m[3][3] = 1.0f;
		return m;
	}

	[[deprecated("Does something nonsensical")]]
	Vector3 GetVector() const { return translation + rotation * Vector3(scale, scale, scale); }

	// ApplyTransform applies this MatTransform to a position vector v by
	// first scaling v, then rotating the result of that, and then
	// translating the result of that.
	constexpr Vector3 ApplyTransform(const Vector3& pos) const {
		return translation + rotation * (pos * scale);
	}

	// ApplyTransformToDiff applies this transform to a position difference
	// (or offset) vector.
	constexpr Vector3 ApplyTransformToDiff(const Vector3& diff) const {
		return rotation * (diff * scale);
	}

	// ApplyTransformToDir applies this transform to a direction unit
	// vector or normal.
	constexpr Vector3 ApplyTransformToDir(const Vector3& dir) const {
		return rotation * dir;
	}

	// ApplyTransformToDist applies this transform to a distance.
	constexpr float ApplyTransformToDist(float d) const {
		return scale * d;
	}

	// Note that InverseTransform will return garbage if "rotation"
	// is not invertible or scale is 0.
	MatTransform InverseTransform() const;

	// ComposeTransforms returns the transform that is the composition
	// of this and other.  That is, if t3 = t1.ComposeTransforms(t2), then
	// t3.ApplyTransform(v) == t1.ApplyTransform(t2.ApplyTransform(v)).
	MatTransform ComposeTransforms(const MatTransform& other) const;

	bool IsNearlyEqualTo(const MatTransform& other) const {
		return translation.IsNearlyEqualTo(other.translation) && rotation.IsNearlyEqualTo(other.rotation)
			   && FloatsAreNearlyEqual(scale, other.scale);
	}
};

MatTransform CalcAverageMatTransform(const std::vector<MatTransform>& ts);
MatTransform CalcMedianMatTransform(const std::vector<MatTransform>& ts);


// Edge with uint16_t point indices
struct Edge {
	uint16_t p1;
	uint16_t p2;

	constexpr Edge(): p1(0), p2(0) {}
	constexpr Edge(uint16_t P1, uint16_t P2): p1(P1), p2(P2) {}

	constexpr bool CompareIndices(const Edge& o) { return (p1 == o.p1 && p2 == o.p2) || (p1 == o.p2 && p2 == o.p1); }
};

// Triangle with uint16_t point indices
struct Triangle {
	uint16_t p1;
	uint16_t p2;
	uint16_t p3;

	constexpr Triangle(): p1(0), p2(0), p3(0) {}
	constexpr Triangle(uint16_t P1, uint16_t P2, uint16_t P3): p1(P1), p2(P2), p3(P3) {}

	void set(uint16_t P1, uint16_t P2, uint16_t P3) {
		p1 = P1;
		p2 = P2;
		p3 = P3;
	}

	void trinormal(const Vector3* vertref, Vector3* outNormal) const {
		*outNormal = trinormal(vertref);
	}

	void trinormal(const std::vector<Vector3>& vertref, Vector3* outNormal) const {
		*outNormal = trinormal(&vertref[0]);
	}

	Vector3 trinormal(const Vector3* vertref) const {
		return (vertref[p2] - vertref[p1]).cross(vertref[p3] - vertref[p1]);
	}

	Vector3 trinormal(const std::vector<Vector3>& vertref) const {
		return trinormal(&vertref[0]);
	}

	void midpoint(const Vector3* vertref, Vector3& outPoint) {
		outPoint = vertref[p1];
		outPoint += vertref[p2];
		outPoint += vertref[p3];
		outPoint /= 3;
	}

	float AxisMidPointY(const Vector3* vertref) const { return (vertref[p1].y + vertref[p2].y + vertref[p3].y) / 3.0f; }

	float AxisMidPointX(const Vector3* vertref) const { return (vertref[p1].x + vertref[p2].x + vertref[p3].x) / 3.0f; }

	float AxisMidPointZ(const Vector3* vertref) const { return (vertref[p1].z + vertref[p2].z + vertref[p3].z) / 3.0f; }

	constexpr Edge GetEdge(int i) const {
		if (i == 0)
			return Edge(p1, p2);
		else if (i == 1)
			return Edge(p2, p3);
		else
			return Edge(p3, p1);
	}

	constexpr bool HasVertex(uint16_t p) const {
		return p == p1 || p == p2 || p == p3;
	}

	constexpr bool HasOrientedEdge(const Edge& e) const {
		return (e.p1 == p1 && e.p2 == p2) || (e.p1 == p2 && e.p2 == p3) || (e.p1 == p3 && e.p2 == p1);
	}

	Edge ClosestEdge(Vector3* vertref, const Vector3& p) const {
		float d1 = p.DistanceToSegment(vertref[p1], vertref[p2]);
		float d2 = p.DistanceToSegment(vertref[p2], vertref[p3]);
		float d3 = p.DistanceToSegment(vertref[p3], vertref[p1]);
		if (d1 <= d2 && d1 <= d3)
			return Edge(p1, p2);
		else if (d2 < d3)
			return Edge(p2, p3);
		return Edge(p3, p1);
	}

	uint16_t ClosestVertex(const Vector3* vertref, const Vector3& p) const {
		float d1 = p.DistanceTo(vertref[p1]);
		float d2 = p.DistanceTo(vertref[p2]);
		float d3 = p.DistanceTo(vertref[p3]);
		if (d1 <= d2 && d1 <= d3)
			return p1;
		else if (d2 <= d3)
			return p2;
		else
			return p3;
	}

	float DistanceToPoint(const Vector3* vertref, const Vector3& p) const {
		// Let pp be the projection of p onto the triangle's plane.
		// If pp is to the right of edge 1, then pp (and therefore p) is
		// closest to edge 1.  The same for edge 2 and edge 3.  Otherwise,
		// pp is inside the triangle.
		const Vector3& v1 = vertref[p1];
		const Vector3& v2 = vertref[p2];
		const Vector3& v3 = vertref[p3];
		Vector3 n = trinormal(vertref);
		if ((p - v1).dot((v2 - v1).cross(n)) >= 0)
			return p.DistanceToSegment(v1, v2);
		if ((p - v2).dot((v3 - v2).cross(n)) >= 0)
			return p.DistanceToSegment(v2, v3);
		if ((p - v3).dot((v1 - v3).cross(n)) >= 0)
			return p.DistanceToSegment(v3, v1);
		n.Normalize();
		return std::fabs((p - v1).dot(n));
	}

	bool IntersectRay(const Vector3* vertref,
					  const Vector3& origin,
					  const Vector3& direction,
					  float* outDistance = nullptr,
					  Vector3* worldPos = nullptr) {
		Vector3 c0(vertref[p1].x, vertref[p1].y, vertref[p1].z);
		Vector3 c1(vertref[p2].x, vertref[p2].y, vertref[p2].z);
		Vector3 c2(vertref[p3].x, vertref[p3].y, vertref[p3].z);

		Vector3 e1 = c1 - c0;
		Vector3 e2 = c2 - c0;
		float u, v;

		Vector3 pvec = direction.cross(e2);
		float det = e1.dot(pvec);

		if (det <= 0.0f)
			return false;

		Vector3 tvec = origin - c0;
		u = tvec.dot(pvec);
		if (u < 0 || u > det)
			return false;

		Vector3 qvec = tvec.cross(e1);
		v = direction.dot(qvec);
		if (v < 0 || u + v > det)
			return false;

		float dist = e2.dot(qvec);
		if (dist < 0)
			return false;

		dist *= (1.0f / det);

		if (outDistance)
			(*outDistance) = dist;
		if (worldPos)
			(*worldPos) = origin + (direction * dist);

		return true;
	}

	// Triangle/Sphere collision psuedocode by Christer Ericson: http://realtimecollisiondetection.net/blog/?p=103
	//   separating axis test on seven features --  3 points, 3 edges, and the tri plane.  For a sphere, this
	//   involves finding the minimum distance to each feature from the sphere origin and comparing it to the sphere radius.
	bool IntersectSphere(const Vector3* vertref, const Vector3& origin, float radius, float* outDistance = nullptr) {
		//A = A - P
		//B = B - P
		//C = C - P

		// Triangle points A,B,C.  translate them so the sphere's origin is their origin
		Vector3 A(vertref[p1].x, vertref[p1].y, vertref[p1].z);
		A = A - origin;
		Vector3 B(vertref[p2].x, vertref[p2].y, vertref[p2].z);
		B = B - origin;
		Vector3 C(vertref[p3].x, vertref[p3].y, vertref[p3].z);
		C = C - origin;

		//rr = r * r
		// Squared radius to avoid sqrts.
		float rr = radius * radius;
		//V = cross(B - A, C - A)

		// first test: tri plane.  Calculate the normal V
		Vector3 AB = B - A;
		Vector3 AC = C - A;
		Vector3 V = AB.cross(AC);
		//d = dot(A, V)
		//e = dot(V, V)
		// optimized distance test of the plane to the sphere -- removing sqrts and divides
		float d = A.dot(V);
		float e = V.dot(V); // e = squared normal vector length -- the normalization factor
		//sep1 = d * d > rr * e
		if (d * d > rr * e)
			return false;

		//aa = dot(A, A)
		//ab = dot(A, B)
		//ac = dot(A, C)
		//bb = dot(B, B)
		//bc = dot(B, C)
		//cc = dot(C, C)

		// second test: tri points.  A sparating axis exists if a point lies outside the sphere, and the other tri points aren't on the other side of the sphere.
		float aa = A.dot(A); // dist to point A
		float ab = A.dot(B);
		float ac = A.dot(C);
		float bb = B.dot(B); // dist to point B
		float bc = B.dot(C);
		float cc = C.dot(C); // dist to point C
		bool sep2 = (aa > rr) && (ab > aa) && (ac > aa);
		bool sep3 = (bb > rr) && (ab > bb) && (bc > bb);
		bool sep4 = (cc > rr) && (ac > cc) && (bc > cc);

		if (sep2 | sep3 | sep4)
			return false;

		//AB = B - A
		Vector3 BC = C - B;
		Vector3 CA = A - C;

		float d1 = ab - aa;
		d1 = A.dot(AB);
		float d2 = bc - bb;
		d2 = B.dot(BC);
		float d3 = ac - cc;
		d3 = C.dot(CA);

		//e1 = dot(AB, AB)
		//e2 = dot(BC, BC)
		//e3 = dot(CA, CA)
		float e1 = AB.dot(AB);
		float e2 = BC.dot(BC);
		float e3 = CA.dot(CA);

		//Q1 = A * e1 - d1 * AB
		//Q2 = B * e2 - d2 * BC
		//Q3 = C * e3 - d3 * CA
		//QC = C * e1 - Q1
		//QA = A * e2 - Q2
		//QB = B * e3 - Q3
		Vector3 Q1 = (A * e1) - (AB * d1);
		Vector3 Q2 = (B * e2) - (BC * d2);
		Vector3 Q3 = (C * e3) - (CA * d3);
		Vector3 QC = (C * e1) - Q1;
		Vector3 QA = (A * e2) - Q2;
		Vector3 QB = (B * e3) - Q3;

		//sep5 = [dot(Q1, Q1) > rr * e1 * e1] & [dot(Q1, QC) > 0]
		//sep6 = [dot(Q2, Q2) > rr * e2 * e2] & [dot(Q2, QA) > 0]
		//sep7 = [dot(Q3, Q3) > rr * e3 * e3] & [dot(Q3, QB) > 0]

		bool sep5 = (Q1.dot(Q1) > (rr * e1 * e1)) && (Q1.dot(QC) > 0);
		bool sep6 = (Q2.dot(Q2) > (rr * e2 * e2)) && (Q2.dot(QA) > 0);
		bool sep7 = (Q3.dot(Q3) > (rr * e3 * e3)) && (Q3.dot(QB) > 0);
		//separated = sep1 | sep2 | sep3 | sep4 | sep5 | sep6 | sep7
		if (sep5 | sep6 | sep7)
			return false;

		// Note that this calculation of outDistance does not give the
		// distance from the triangle to the point "origin"; it gives
		// the distance from "origin" to the nearest vertex of the triangle.
		// If you want the distance from the triangle to "origin",
		// Triangle::DistanceToPoint may be a better choice.
		if (outDistance)
			(*outDistance) = std::min({vertref[p1].DistanceTo(origin),
									   vertref[p2].DistanceTo(origin),
									   vertref[p3].DistanceTo(origin)});

		return true;
	}

	uint16_t& operator[](int ind) { return ind ? (ind == 2 ? p3 : p2) : p1; }
	const uint16_t& operator[](int ind) const { return ind ? (ind == 2 ? p3 : p2) : p1; }

	constexpr bool operator<(const Triangle& other) const {
		int d = 0;
		if (d == 0)
			d = p1 - other.p1;
		if (d == 0)
			d = p2 - other.p2;
		if (d == 0)
			d = p3 - other.p3;
		return d < 0;
	}

	constexpr bool operator==(const Triangle& other) const {
		return (p1 == other.p1 && p2 == other.p2 && p3 == other.p3);
	}

	constexpr bool CompareIndices(const Triangle& other) const {
		return ((p1 == other.p1 || p1 == other.p2 || p1 == other.p3)
				&& (p2 == other.p1 || p2 == other.p2 || p2 == other.p3)
				&& (p3 == other.p1 || p3 == other.p2 || p3 == other.p3));
	}

	void rot() {
		if (p2 < p1 && p2 < p3) {
			set(p2, p3, p1);
		}
		else if (p3 < p1) {
			set(p3, p1, p2);
		}
	}
};

inline constexpr bool operator==(const Edge& t1, const Edge& t2) {
	return ((t1.p1 == t2.p1) && (t1.p2 == t2.p2));
}

// Face with either 3 or 4 point and uv indices
struct Face {
	uint8_t nPoints = 0;
	uint16_t p1 = 0;
	uint16_t uv1 = 0;
	uint16_t p2 = 0;
	uint16_t uv2 = 0;
	uint16_t p3 = 0;
	uint16_t uv3 = 0;
	uint16_t p4 = 0;
	uint16_t uv4 = 0;

	Face(const uint8_t npts = 0, const uint16_t* points = nullptr, const uint16_t* tc = nullptr) {
		nPoints = npts;
		if (npts < 3)
			return;

		p1 = points[0];
		p2 = points[1];
		p3 = points[2];
		uv1 = tc[0];
		uv2 = tc[1];
		uv3 = tc[2];
		if (npts == 4) {
			p4 = points[3];
			uv4 = tc[3];
		}
	}
};

// Rectangle with float components (x1, y1, x2, y2)
struct Rect {
	float x1 = 0.0f;
	float y1 = 0.0f;
	float x2 = 0.0f;
	float y2 = 0.0f;

	Rect() {}

	Rect(float X1, float Y1, float X2, float Y2) {
		x1 = X1;
		y1 = Y1;
		x2 = X2;
		y2 = Y2;
	}

	float GetLeft() { return x1; }
	float GetTop() { return y1; }
	float GetRight() { return x2; }
	float GetBottom() { return y2; }

	Vector2 GetTopLeft() { return Vector2(x1, y1); }
	Vector2 GetBottomRight() { return Vector2(x2, y2); }
	Vector2 GetTopRight() { return Vector2(x2, y1); }
	Vector2 GetBottomLeft() { return Vector2(x1, y2); }

	Vector2 GetCenter() { return Vector2((x1 + x2) / 2, (y1 + y2) / 2); }

	float GetWidth() { return x2 - x1 + 1; }
	float GetHeight() { return y2 - y1 + 1; }
	Vector2 GetSize() { return Vector2(GetWidth(), GetHeight()); }

	void SetLeft(float pos) { x1 = pos; }
	void SetTop(float pos) { y1 = pos; }
	void SetRight(float pos) { x2 = pos; }
	void SetBottom(float pos) { y2 = pos; }

	void SetTopLeft(const Vector2& p) {
		x1 = p.u;
		y1 = p.v;
	}
	void SetBottomRight(const Vector2& p) {
		x2 = p.u;
		y2 = p.v;
	}
	void SetTopRight(const Vector2& p) {
		x2 = p.u;
		y1 = p.v;
	}
	void SetBottomLeft(const Vector2& p) {
		x1 = p.u;
		y2 = p.v;
	}

	void SetWidth(float w) { x2 = x1 + w - 1.0f; }
	void SetHeight(float h) { y2 = y1 + h - 1.0f; }

	Rect Normalized() {
		Rect r;

		if (x2 < x1) {
			r.x1 = x2;
			r.x2 = x1;
		}
		else {
			r.x1 = x1;
			r.x2 = x2;
		}

		if (y2 < y1) {
			r.y1 = y2;
			r.y2 = y1;
		}
		else {
			r.y1 = y1;
			r.y2 = y2;
		}

		return r;
	}

	bool Contains(const Vector2& p) {
		float l = 0.0f;
		float r = 0.0f;

		if (x2 < x1 - 1.0f) {
			l = x2;
			r = x1;
		}
		else {
			l = x1;
			r = x2;
		}

		if (p.u < l || p.u > r)
			return false;

		float t = 0.0f;
		float b = 0.0f;

		if (y2 < y1 - 1.0f) {
			t = y2;
			b = y1;
		}
		else {
			t = y1;
			b = y2;
		}

		if (p.v < t || p.v > b)
			return false;

		return true;
	}
};
} // namespace nifly

namespace std {
using namespace nifly;

template<>
struct hash<Edge> {
	std::size_t operator()(const Edge& t) const {
		return (static_cast<size_t>(t.p2) << 16) | (t.p1 & 0xFFFF);
	}
};

template<>
struct hash<Triangle> {
	std::size_t operator()(const Triangle& t) const {
		auto d = reinterpret_cast<const char*>(&t);
		std::size_t len = sizeof(Triangle);
		std::size_t hash, i;
		for (hash = i = 0; i < len; ++i) {
			hash += static_cast<size_t>(d[i]);
			hash += (hash << 10);
			hash ^= (hash >> 6);
		}
		hash += (hash << 3);
		hash ^= (hash >> 11);
		hash += (hash << 15);
		return hash;
	}
};
} // namespace std
