/*
nifly
C++ NIF library for the Gamebryo/NetImmerse File Format
See the included GPLv3 LICENSE file
*/

#pragma once

#include "Object3d.hpp"
#include <algorithm>
#include <memory>

// A specialized KD tree that finds duplicate vertices in a point cloud.

namespace nifly {
class kd_matcher {
public:
	class kd_node {
	public:
		uint16_t p;
		std::vector<uint16_t> matchset;
		std::unique_ptr<kd_node> less;
		std::unique_ptr<kd_node> more;

		kd_node(const uint16_t point) { p = point; }

		void add(const Vector3* pts, const uint16_t point, const uint32_t depth) {
			Vector3 d = pts[p] - pts[point];

			if (std::fabs(d.x) < EPSILON && std::fabs(d.y) < EPSILON && std::fabs(d.z) < EPSILON) {
				if (matchset.empty())
					matchset.push_back(p);

				matchset.push_back(point);
				return;
			}

			if (d[depth % 3] > 0) {
				if (more)
					more->add(pts, point, depth + 1);
				else
					more = std::make_unique<kd_node>(point);
			}
			else {
				if (less)
					less->add(pts, point, depth + 1);
				else
					less = std::make_unique<kd_node>(point);
			}
		}

		void collect(std::vector<std::vector<uint16_t>>& matches) {
			if (!matchset.empty())
				matches.push_back(std::move(matchset));

			if (more)
				more->collect(matches);
			if (less)
				less->collect(matches);
		}
	};

	std::vector<std::vector<uint16_t>> matches;

	kd_matcher(const Vector3* pts, const uint16_t cnt) {
		if (cnt <= 0)
			return;

		kd_node root(0);
		for (uint16_t i = 1; i < cnt; i++)
			root.add(pts, i, 0);

		root.collect(matches);
	}
};

// SortingMatcher: finds matching points, just like kd_matcher,
// but more robustly and hopefully more efficiently.
class SortingMatcher {
public:
	std::vector<std::vector<uint16_t>> matches;

	SortingMatcher(const Vector3* pts, const uint16_t cnt) {
		if (cnt <= 0)
			return;

		// Determine overall scale of the point set so we can determine a
		// good epsilon
		float scale = 0.0f;
		for (uint16_t i = 0; i < cnt; ++i)
			scale = std::max(scale, std::max(std::fabs(pts[i].x), std::max(std::fabs(pts[i].y), std::fabs(pts[i].z))));
		float epsilon = EPSILON * 0.01f * scale;

		std::vector<uint16_t> inds(cnt);
		for (uint16_t i = 0; i < cnt; ++i)
			inds[i] = i;

		std::sort(inds.begin(), inds.end(), [&pts](uint16_t i, uint16_t j) { return pts[i].x < pts[j].x; });

		std::vector<bool> used(cnt, false);
		for (uint16_t si = 0; si < cnt; ++si) {
			if (used[si])
				continue;

			bool matched = false;
			for (uint16_t mi = si + 1; mi < cnt; ++mi) {
				if (pts[inds[mi]].x - pts[inds[si]].x >= epsilon)
					break;

				if (used[mi])
					continue;
				if (std::fabs(pts[inds[si]].y - pts[inds[mi]].y) >= epsilon)
					continue;
				if (std::fabs(pts[inds[si]].z - pts[inds[mi]].z) >= epsilon)
					continue;

				if (!matched)
					matches.emplace_back(std::vector<uint16_t>(1, inds[si]));

				matched = true;
				matches.back().push_back(inds[mi]);
				used[mi] = true;
			}
		}
	}
};

template<typename index_t>
class kd_query_result {
public:
	const Vector3* v;
	index_t vertex_index;
	float distance;
	bool operator<(const kd_query_result& other) const { return distance < other.distance; }
};

// More general purpose KD tree that assembles a tree from input points and allows nearest neighbor and radius searches on the data.
template<typename index_t>
class kd_tree {
public:
	class kd_node {
	public:
		const Vector3* p = nullptr;
		index_t p_i = 0;
		std::unique_ptr<kd_node> less;
		std::unique_ptr<kd_node> more;

		kd_node(const Vector3* point, const index_t point_index) {
			p = point;
			p_i = point_index;
		}

		void add(const Vector3* point, const index_t point_index, const uint32_t depth) {
			uint32_t axis = depth % 3;
			bool domore = false;
			float dx = p->x - point->x;
			float dy = p->y - point->y;
			float dz = p->z - point->z;

			switch (axis) {
				case 0:
					if (dx > 0)
						domore = true;
					break;
				case 1:
					if (dy > 0)
						domore = true;
					break;
				case 2:
					if (dz > 0)
						domore = true;
					break;
			}
			if (domore) {
				if (more)
					return more->add(point, point_index, depth + 1);
				else
					more = std::make_unique<kd_node>(point, point_index);
			}
			else {
				if (less)
					return less->add(point, point_index, depth + 1);
				else
					less = std::make_unique<kd_node>(point, point_index);
			}
		}

		// Finds the closest point(s) to "querypoint" within the provided radius. If radius is 0, only the single closest point is found.
		// On first call, "mindist" should be set to FLT_MAX and depth set to 0.
		void find_closest(const Vector3* querypoint,
						  std::vector<kd_query_result<index_t>>& queryResult,
						  const float radius,
						  float& mindist,
						  const uint32_t depth = 0) {
			kd_query_result<index_t> kdqr;
			uint32_t axis = depth % 3;		 // Which separating axis to use based on depth
			float dx = p->x - querypoint->x; // Axis sides
			float dy = p->y - querypoint->y;
			float dz = p->z - querypoint->z;
			kd_node* act = less.get(); // Active search branch
			kd_node* opp = more.get(); // Opposite search branch
			float axisdist = 0.0f;	   // Distance from the query point to the separating axis
			float pointdist;		   // Distance from the query point to the node's point

			switch (axis) {
				case 0:
					if (dx > 0.0f) {
						act = more.get();
						opp = less.get();
					}
					axisdist = std::fabs(dx);
					break;
				case 1:
					if (dy > 0.0f) {
						act = more.get();
						opp = less.get();
					}
					axisdist = std::fabs(dy);
					break;
				case 2:
					if (dz > 0.0f) {
						act = more.get();
						opp = less.get();
					}
					axisdist = std::fabs(dz);
					break;
			}

			// The axis choice tells us which branch to search
			if (act)
				act->find_closest(querypoint, queryResult, radius, mindist, depth + 1);

			// On the way back out check current point to see if it's the closest
			// Fix? Might want to use squared distance instead... probably unnecessary.
			pointdist = querypoint->DistanceTo(*p);

			// No opposites
			bool notOpp = true;
			//notOpp = (querypoint->nx * p->nx + querypoint->ny * p->ny + querypoint->nz * p->nz) > 0.0f;

			if (pointdist <= mindist && notOpp) {
				kdqr.v = p;
				kdqr.vertex_index = p_i;
				kdqr.distance = pointdist;
				queryResult.push_back(kdqr);
				mindist = pointdist;
			}
			else if (radius > mindist
					 && notOpp) { // If there's room between the minimum distance and the search radius
				if (pointdist <= radius) { // check to see if the point falls in that space, and if so, add it.
					kdqr.v = p;
					kdqr.vertex_index = p_i;
					kdqr.distance = pointdist;
					queryResult.push_back(kdqr); // This is skipped if radius is 0
				}
			}

			// Check the opposite branch if it exists
			if (opp) {
				if (radius > 0.0f) {
					if (radius >= axisdist) // If separating axis is within the check radius
						opp->find_closest(querypoint, queryResult, radius, mindist, depth + 1);
				}
				else {
					// If separating axis is closer than the current minimum point
					// check if a closer point is on the other side of the axis.
					if (axisdist < mindist)
						opp->find_closest(querypoint, queryResult, radius, mindist, depth + 1);
				}
			}
		}
	};

	std::unique_ptr<kd_node> root;
	std::vector<kd_query_result<index_t>> queryResult;

	kd_tree(const Vector3* points, const index_t count) {
		if (count <= 0)
			return;

		index_t pointIndex = 0;
		root = std::make_unique<kd_node>(&points[0], pointIndex);
		for (index_t i = 1; i < count; i++)
			root->add(&points[i], i, 0);
	}

	index_t kd_nn(const Vector3* querypoint, const float radius) {
		float mindist = std::numeric_limits<float>().max();
		if (radius > 0.0f)
			mindist = radius;

		queryResult.clear();
		root->find_closest(querypoint, queryResult, radius, mindist);
		std::sort(queryResult.begin(), queryResult.end());

		return static_cast<index_t>(queryResult.size());
	}
};
} // namespace nifly
