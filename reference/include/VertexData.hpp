/*
nifly
C++ NIF library for the Gamebryo/NetImmerse File Format
See the included GPLv3 LICENSE file
*/

#pragma once

#include "BasicTypes.hpp"

namespace nifly {
enum VertexAttribute : uint8_t {
	VA_POSITION = 0x0,
	VA_TEXCOORD0 = 0x1,
	VA_TEXCOORD1 = 0x2,
	VA_NORMAL = 0x3,
	VA_BINORMAL = 0x4,
	VA_COLOR = 0x5,
	VA_SKINNING = 0x6,
	VA_LANDDATA = 0x7,
	VA_EYEDATA = 0x8,
	VA_COUNT = 9
};

enum VertexFlags : uint16_t {
	VF_VERTEX = 1 << VA_POSITION,
	VF_UV = 1 << VA_TEXCOORD0,
	VF_UV_2 = 1 << VA_TEXCOORD1,
	VF_NORMAL = 1 << VA_NORMAL,
	VF_TANGENT = 1 << VA_BINORMAL,
	VF_COLORS = 1 << VA_COLOR,
	VF_SKINNED = 1 << VA_SKINNING,
	VF_LANDDATA = 1 << VA_LANDDATA,
	VF_EYEDATA = 1 << VA_EYEDATA,
	VF_FULLPREC = 0x400
};

const uint64_t DESC_MASK_VERT = 0xFFFFFFFFFFFFFFF0;
const uint64_t DESC_MASK_UVS = 0xFFFFFFFFFFFFFF0F;
const uint64_t DESC_MASK_NBT = 0xFFFFFFFFFFFFF0FF;
const uint64_t DESC_MASK_SKCOL = 0xFFFFFFFFFFFF0FFF;
const uint64_t DESC_MASK_DATA = 0xFFFFFFFFFFF0FFFF;
const uint64_t DESC_MASK_OFFSET = 0xFFFFFF0000000000;
const uint64_t DESC_MASK_FLAGS = ~(DESC_MASK_OFFSET);

class VertexDesc {
private:
	uint64_t desc = 0;

public:
	// Sets a specific flag
	void SetFlag(VertexFlags flag) { desc |= Convert(flag); }

	// Removes a specific flag
	void RemoveFlag(VertexFlags flag) { desc &= ~Convert(flag); }

	// Checks for a specific flag
	bool HasFlag(VertexFlags flag) const { return ((desc >> 44) & flag) != 0; }

	// Gets the size of just the main vertex data (position, extra data, bitangentX)
	uint32_t GetVertexMainSize() {
		return ((desc & 0xFF00) >> 8) * 4;
	}

	// Sets the vertex size
	void SetSize(uint32_t size) {
		desc &= DESC_MASK_VERT;
		desc |= static_cast<uint64_t>(size) >> 2;
	}

	// Sets the dynamic vertex size
	void MakeDynamic() {
		desc &= DESC_MASK_UVS;
		desc |= 0x40;
	}

	// Return offset to a specific vertex attribute in the description
	uint32_t GetAttributeOffset(VertexAttribute attr) const {
		return (desc >> (4 * static_cast<uint8_t>(attr) + 2)) & 0x3C;
	}

	// Set offset to a specific vertex attribute in the description
	void SetAttributeOffset(VertexAttribute attr, uint32_t offset) {
		if (attr != VA_POSITION) {
			const uint64_t lhs = static_cast<uint64_t>(offset) << (4 * static_cast<uint8_t>(attr) + 2);
			const uint64_t rhs = desc & ~(static_cast<uint64_t>(15) << (4 * static_cast<uint8_t>(attr) + 4));
			desc = lhs | rhs;
		}
	}

	void ClearAttributeOffsets() { desc &= DESC_MASK_OFFSET; }

	VertexFlags GetFlags() const { return VertexFlags((desc & DESC_MASK_OFFSET) >> 44); }
	void SetFlags(VertexFlags flags) { desc |= Convert(flags) | (desc & DESC_MASK_FLAGS); }

	void Sync(NiStreamReversible& stream) { stream.Sync(desc); }

private:
	uint64_t Convert(VertexFlags flag) { return static_cast<uint64_t>(flag) << 44; }
};

struct BSVertexData {
	Vector3 vert; // Single- or half-precision depending on IsFullPrecision() being true
	float bitangentX = 0.0f; // Maybe the dot product of the vert normal and the z-axis?

	Vector2 uv;

	uint8_t normal[3]{};
	uint8_t bitangentY = 0;
	uint8_t tangent[3]{};
	uint8_t bitangentZ = 0;

	uint8_t colorData[4]{};

	float weights[4]{};
	uint8_t weightBones[4]{};

	float eyeData = 0.0f;
	std::vector<float> extra; // Variable length extra float data for vertex. Aligned before bitangentX in file.
};
} // namespace nifly
