/*
nifly
C++ NIF library for the Gamebryo/NetImmerse File Format
See the included GPLv3 LICENSE file
*/

#pragma once

#include "BasicTypes.hpp"
#include "Keys.hpp"
#include "VertexData.hpp"
#include "half.hpp"

namespace nifly {
class NiExtraData : public NiCloneableStreamable<NiExtraData, NiObject> {
public:
	NiStringRef name;

	static constexpr const char* BlockName = "NiExtraData";
	const char* GetBlockName() override { return BlockName; }

	void Sync(NiStreamReversible& stream);
	void GetStringRefs(std::vector<NiStringRef*>& refs) override;
};

class NiBinaryExtraData : public NiCloneableStreamable<NiBinaryExtraData, NiExtraData> {
public:
	NiVector<uint8_t> data;

	static constexpr const char* BlockName = "NiBinaryExtraData";
	const char* GetBlockName() override { return BlockName; }

	void Sync(NiStreamReversible& stream);
};

class NiFloatExtraData : public NiCloneableStreamable<NiFloatExtraData, NiExtraData> {
public:
	float floatData = 0.0f;

	static constexpr const char* BlockName = "NiFloatExtraData";
	const char* GetBlockName() override { return BlockName; }

	void Sync(NiStreamReversible& stream);
};

class NiFloatsExtraData : public NiCloneableStreamable<NiFloatsExtraData, NiExtraData> {
public:
	NiVector<float> floatsData;

	static constexpr const char* BlockName = "NiFloatsExtraData";
	const char* GetBlockName() override { return BlockName; }

	void Sync(NiStreamReversible& stream);
};

class NiStringExtraData : public NiCloneableStreamable<NiStringExtraData, NiExtraData> {
public:
	NiStringRef stringData;

	static constexpr const char* BlockName = "NiStringExtraData";
	const char* GetBlockName() override { return BlockName; }

	void Sync(NiStreamReversible& stream);
	void GetStringRefs(std::vector<NiStringRef*>& refs) override;
};

class NiStringsExtraData : public NiCloneableStreamable<NiStringsExtraData, NiExtraData> {
public:
	NiStringVector<> stringsData;

	static constexpr const char* BlockName = "NiStringsExtraData";
	const char* GetBlockName() override { return BlockName; }

	void Sync(NiStreamReversible& stream);
};

class NiBooleanExtraData : public NiCloneableStreamable<NiBooleanExtraData, NiExtraData> {
public:
	bool booleanData = false;

	static constexpr const char* BlockName = "NiBooleanExtraData";
	const char* GetBlockName() override { return BlockName; }

	void Sync(NiStreamReversible& stream);
};

class NiIntegerExtraData : public NiCloneableStreamable<NiIntegerExtraData, NiExtraData> {
public:
	uint32_t integerData = 0;

	static constexpr const char* BlockName = "NiIntegerExtraData";
	const char* GetBlockName() override { return BlockName; }

	void Sync(NiStreamReversible& stream);
};

class NiIntegersExtraData : public NiCloneableStreamable<NiIntegersExtraData, NiExtraData> {
public:
	NiVector<uint32_t> integersData;

	static constexpr const char* BlockName = "NiIntegersExtraData";
	const char* GetBlockName() override { return BlockName; }

	void Sync(NiStreamReversible& stream);
};

class NiVectorExtraData : public NiCloneableStreamable<NiVectorExtraData, NiExtraData> {
public:
	Vector4 vectorData;

	static constexpr const char* BlockName = "NiVectorExtraData";
	const char* GetBlockName() override { return BlockName; }

	void Sync(NiStreamReversible& stream);
};

class NiColorExtraData : public NiCloneableStreamable<NiColorExtraData, NiExtraData> {
public:
	Color4 colorData;

	static constexpr const char* BlockName = "NiColorExtraData";
	const char* GetBlockName() override { return BlockName; }

	void Sync(NiStreamReversible& stream);
};

enum BSXFlagsEnum : uint32_t {
	BSX_ANIMATED = 1 << 0,
	BSX_HAVOK = 1 << 1,
	BSX_RAGDOLL = 1 << 2,
	BSX_COMPLEX = 1 << 3,
	BSX_ADDON = 1 << 4,
	BSX_EDITOR_MARKER = 1 << 5,
	BSX_DYNAMIC = 1 << 6,
	BSX_ARTICULATED = 1 << 7,
	BSX_NEEDS_TRANSFORM_UPDATES = 1 << 8,
	BSX_EXTERNAL_EMITTANCE = 1 << 9
};

class BSXFlags : public NiCloneable<BSXFlags, NiIntegerExtraData> {
public:
	static constexpr const char* BlockName = "BSXFlags";
	const char* GetBlockName() override { return BlockName; }
};

class BSWArray : public NiCloneableStreamable<BSWArray, NiExtraData> {
public:
	NiVector<uint32_t> data;

	static constexpr const char* BlockName = "BSWArray";
	const char* GetBlockName() override { return BlockName; }

	void Sync(NiStreamReversible& stream);
};

class BSPositionData : public NiCloneableStreamable<BSPositionData, NiExtraData> {
public:
	NiVector<half_float::half> data;

	static constexpr const char* BlockName = "BSPositionData";
	const char* GetBlockName() override { return BlockName; }

	void Sync(NiStreamReversible& stream);
};

class BSEyeCenterExtraData : public NiCloneableStreamable<BSEyeCenterExtraData, NiExtraData> {
public:
	NiVector<float> data;

	static constexpr const char* BlockName = "BSEyeCenterExtraData";
	const char* GetBlockName() override { return BlockName; }

	void Sync(NiStreamReversible& stream);
};

struct BSPackedGeomObject {
	uint32_t fileNameHash = 0;
	uint32_t dataOffset = 0;
};

struct BSPackedGeomDataCombined {
	float grayscaleToPaletteScale = 1.0f;
	Matrix3 rotation;
	Vector3 translation;
	float scale = 1.0f;
	BoundingSphere bounds;
};

struct BSPackedGeomData {
	uint32_t numVertices = 0;
	uint32_t lodLevels = 0;
	uint32_t triCountLod0 = 0;
	uint32_t triOffsetLod0 = 0;
	uint32_t triCountLod1 = 0;
	uint32_t triOffsetLod1 = 0;
	uint32_t triCountLod2 = 0;
	uint32_t triOffsetLod2 = 0;
	NiVector<BSPackedGeomDataCombined> combined;
	VertexDesc vertexDesc;
	std::vector<BSVertexData> vertData;
	std::vector<Triangle> triangles;

	void Sync(NiStreamReversible& stream);

	void SetVertices(const bool enable);
	bool HasVertices() const { return vertexDesc.HasFlag(VF_VERTEX); }

	void SetUVs(const bool enable);
	bool HasUVs() const { return vertexDesc.HasFlag(VF_UV); }

	void SetSecondUVs(const bool enable);
	bool HasSecondUVs() { return vertexDesc.HasFlag(VF_UV_2); }

	void SetNormals(const bool enable);
	bool HasNormals() const { return vertexDesc.HasFlag(VF_NORMAL); }

	void SetTangents(const bool enable);
	bool HasTangents() const { return vertexDesc.HasFlag(VF_TANGENT); }

	void SetVertexColors(const bool enable);
	bool HasVertexColors() const { return vertexDesc.HasFlag(VF_COLORS); }

	void SetSkinned(const bool enable);
	bool IsSkinned() const { return vertexDesc.HasFlag(VF_SKINNED); }

	void SetEyeData(const bool enable);
	bool HasEyeData() const { return vertexDesc.HasFlag(VF_EYEDATA); }

	void SetFullPrecision(const bool enable);
	bool IsFullPrecision() const { return vertexDesc.HasFlag(VF_FULLPREC); }
	bool CanChangePrecision() const { return (HasVertices()); }
};

class BSPackedCombinedSharedGeomDataExtra
	: public NiCloneableStreamable<BSPackedCombinedSharedGeomDataExtra, NiExtraData> {
public:
	VertexDesc vertexDesc;
	uint32_t numVertices = 0;
	uint32_t numTriangles = 0;
	uint32_t unkFlags1 = 0;
	uint32_t unkFlags2 = 0;
	uint32_t numData = 0;
	std::vector<BSPackedGeomObject> objects;
	std::vector<BSPackedGeomData> data;

	static constexpr const char* BlockName = "BSPackedCombinedSharedGeomDataExtra";
	const char* GetBlockName() override { return BlockName; }

	void Sync(NiStreamReversible& stream);
};

class BSInvMarker : public NiCloneableStreamable<BSInvMarker, NiExtraData> {
public:
	uint16_t rotationX = 4712;
	uint16_t rotationY = 6283;
	uint16_t rotationZ = 0;
	float zoom = 1.0f;

	static constexpr const char* BlockName = "BSInvMarker";
	const char* GetBlockName() override { return BlockName; }

	void Sync(NiStreamReversible& stream);
};

class FurniturePosition {
public:
	Vector3 offset;

	uint16_t orientation = 0; // User Version <= 11
	uint8_t posRef1 = 0;	  // User Version <= 11
	uint8_t posRef2 = 0;	  // User Version <= 11

	float heading = 0.0f;		// User Version >= 12
	uint16_t animationType = 0; // User Version >= 12
	uint16_t entryPoints = 0;	// User Version >= 12

	void Sync(NiStreamReversible& stream);
};

class BSFurnitureMarker : public NiCloneableStreamable<BSFurnitureMarker, NiExtraData> {
public:
	NiSyncVector<FurniturePosition> positions;

	static constexpr const char* BlockName = "BSFurnitureMarker";
	const char* GetBlockName() override { return BlockName; }

	void Sync(NiStreamReversible& stream);
};

class BSFurnitureMarkerNode : public NiCloneable<BSFurnitureMarkerNode, BSFurnitureMarker> {
public:
	static constexpr const char* BlockName = "BSFurnitureMarkerNode";
	const char* GetBlockName() override { return BlockName; }
};

class DecalVectorBlock {
public:
	NiVector<Vector3, uint16_t> points;
	NiVector<Vector3, uint16_t> normals;

	void Sync(NiStreamReversible&);
};

class BSDecalPlacementVectorExtraData
	: public NiCloneableStreamable<BSDecalPlacementVectorExtraData, NiFloatExtraData> {
public:
	NiSyncVector<DecalVectorBlock, uint16_t> decalVectorBlocks;

	static constexpr const char* BlockName = "BSDecalPlacementVectorExtraData";
	const char* GetBlockName() override { return BlockName; }

	void Sync(NiStreamReversible& stream);
};

class BSBehaviorGraphExtraData : public NiCloneableStreamable<BSBehaviorGraphExtraData, NiExtraData> {
public:
	NiStringRef behaviorGraphFile;
	bool controlsBaseSkel = false;

	static constexpr const char* BlockName = "BSBehaviorGraphExtraData";
	const char* GetBlockName() override { return BlockName; }

	void Sync(NiStreamReversible& stream);
	void GetStringRefs(std::vector<NiStringRef*>& refs) override;
};

class BSBound : public NiCloneableStreamable<BSBound, NiExtraData> {
public:
	Vector3 center;
	Vector3 halfExtents;

	static constexpr const char* BlockName = "BSBound";
	const char* GetBlockName() override { return BlockName; }

	void Sync(NiStreamReversible& stream);
};

class BoneLOD {
public:
	uint32_t distance = 0;
	NiStringRef boneName;

	void Sync(NiStreamReversible& stream);
	void GetStringRefs(std::vector<NiStringRef*>& refs);
};

class BSBoneLODExtraData : public NiCloneableStreamable<BSBoneLODExtraData, NiExtraData> {
public:
	NiSyncVector<BoneLOD> boneLODs;

	static constexpr const char* BlockName = "BSBoneLODExtraData";
	const char* GetBlockName() override { return BlockName; }

	void Sync(NiStreamReversible& stream);
	void GetStringRefs(std::vector<NiStringRef*>& refs) override;
};

class NiTextKeyExtraData : public NiCloneableStreamable<NiTextKeyExtraData, NiExtraData> {
public:
	NiSyncVector<NiTextKey> textKeys;

	static constexpr const char* BlockName = "NiTextKeyExtraData";
	const char* GetBlockName() override { return BlockName; }

	void Sync(NiStreamReversible& stream);
	void GetStringRefs(std::vector<NiStringRef*>& refs) override;
};

class BSDistantObjectLargeRefExtraData
	: public NiCloneableStreamable<BSDistantObjectLargeRefExtraData, NiExtraData> {
public:
	bool largeRef = true;

	static constexpr const char* BlockName = "BSDistantObjectLargeRefExtraData";
	const char* GetBlockName() override { return BlockName; }

	void Sync(NiStreamReversible& stream);
};

class BSDistantObjectExtraData
	: public NiCloneableStreamable<BSDistantObjectExtraData, NiExtraData> {
public:
	uint32_t distantObjectFlags = 0;

	static constexpr const char* BlockName = "BSDistantObjectExtraData";
	const char* GetBlockName() override { return BlockName; }

	void Sync(NiStreamReversible& stream);
};

class BSConnectPoint {
public:
	NiString root;
	NiString variableName;
	Quaternion rotation;
	Vector3 translation;
	float scale = 1.0f;

	void Sync(NiStreamReversible& stream);
};

class BSConnectPointParents : public NiCloneableStreamable<BSConnectPointParents, NiExtraData> {
public:
	NiSyncVector<BSConnectPoint> connectPoints;

	static constexpr const char* BlockName = "BSConnectPoint::Parents";
	const char* GetBlockName() override { return BlockName; }

	void Sync(NiStreamReversible& stream);
};

class BSConnectPointChildren : public NiCloneableStreamable<BSConnectPointChildren, NiExtraData> {
public:
	bool skinned = true;
	NiStringVector<> targets;

	static constexpr const char* BlockName = "BSConnectPoint::Children";
	const char* GetBlockName() override { return BlockName; }

	void Sync(NiStreamReversible& stream);
};

class BSExtraData : public NiCloneable<BSExtraData, NiObject> {};

class BSClothExtraData : public NiCloneableStreamable<BSClothExtraData, BSExtraData> {
public:
	NiVector<char> data;

	BSClothExtraData() {}
	BSClothExtraData(const uint32_t size);

	static constexpr const char* BlockName = "BSClothExtraData";
	const char* GetBlockName() override { return BlockName; }

	void Sync(NiStreamReversible& stream);

	bool ToHKX(const std::string& fileName);
	bool FromHKX(const std::string& fileName);
};

class BSCollisionQueryProxyExtraData : public NiCloneableStreamable<BSCollisionQueryProxyExtraData, BSExtraData> {
public:
	NiVector<char> data;

	static constexpr const char* BlockName = "BSCollisionQueryProxyExtraData";
	const char* GetBlockName() override { return BlockName; }

	void Sync(NiStreamReversible& stream);
};

class SkinAttach : public NiCloneableStreamable<SkinAttach, NiExtraData> {
public:
	NiStringVector<> bones;

	static constexpr const char* BlockName = "SkinAttach";
	const char* GetBlockName() override { return BlockName; }

	void Sync(NiStreamReversible& stream);
};

struct BoneTranslation {
	NiString bone;
	Vector3 trans;
};

class BoneTranslations : public NiCloneableStreamable<BoneTranslations, NiExtraData> {
public:
	uint32_t numTranslations = 0;
	std::vector<BoneTranslation> translations;

	static constexpr const char* BlockName = "BoneTranslations";
	const char* GetBlockName() override { return BlockName; }

	void Sync(NiStreamReversible& stream);
};
} // namespace nifly
