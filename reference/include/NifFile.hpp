/*
nifly
C++ NIF library for the Gamebryo/NetImmerse File Format
See the included GPLv3 LICENSE file
*/

#pragma once

#include "Factory.hpp"
#include "Geometry.hpp"
#include "Nodes.hpp"

#if __has_include(<filesystem>)

#include <filesystem>

#elif __has_include(<experimental/optional>)

#include <experimental/filesystem>
namespace std::filesystem {
	using namespace std::experimental::filesystem;
}

#endif

namespace nifly {
// OptimizeFor function options
struct OptOptions {
	NiVersion targetVersion;	// NiVersion target for the optimization process
	bool headParts = false;		// Use mesh formats required for head parts (use ONLY for head parts!)
	bool removeParallax = true; // Remove parallax shader flags and texture paths
	bool calcBounds = true;		// Recalculate bounding spheres for unskinned meshes
	bool fixBSXFlags = true;	// Fix BSX flag values based on file contents
	bool fixShaderFlags = true;	// Fix shader flag values based on file contents
};

// OptimizeFor function result
struct OptResult {
	bool versionMismatch = false; // Indicates if versions are unsupported for the optimization process
	bool dupesRenamed = false;	  // Indicates if there were duplicate shape names that have been renamed
	std::vector<std::string> shapesVColorsRemoved;	 // Names of shapes that had their vertex colors removed
	std::vector<std::string> shapesNormalsRemoved;	 // Names of shapes that had their normals removed
	std::vector<std::string> shapesPartTriangulated; // Names of shapes that had their partitions triangulated
	std::vector<std::string> shapesTangentsAdded; // Names of shapes that received missing tangents/bitangents
	std::vector<std::string> shapesParallaxRemoved; // Names of shapes that had their parallax settings
};

// Sort function for bone weights with indices
struct BoneWeightsSort {
	bool operator()(const SkinWeight& lhs, const SkinWeight& rhs) { return rhs.weight < lhs.weight; }
};

// NifFile load options
struct NifLoadOptions {
	bool isTerrain = false; // Load as terrain file. Affects texture path cleanup and shape names.
};

// NifFile save options
struct NifSaveOptions {
	bool optimize = true;	// Update bounds and delete unreferenced blocks (see NifFile::Optimize)
	bool sortBlocks = true; // Sorts all blocks in a logical order (see NifFile::PrettySortBlocks)
};

class NifFile {
private:
	NiHeader hdr;
	std::vector<std::unique_ptr<NiObject>> blocks;
	bool isValid = false;
	bool hasUnknown = false;
	bool isTerrain = false;

public:
	NifFile() = default;

	NifFile(const std::filesystem::path& fileName, const NifLoadOptions& options = NifLoadOptions()) {
		Load(fileName, options);
	}

	NifFile(std::istream& file, const NifLoadOptions& options = NifLoadOptions()) { Load(file, options); }

	NifFile(const NifFile& other) { CopyFrom(other); }

	NifFile& operator=(const NifFile& other) {
		CopyFrom(other);
		return *this;
	}

	NiHeader& GetHeader() { return hdr; }
	const NiHeader& GetHeader() const { return hdr; }
	void CopyFrom(const NifFile& other);

	int Load(const std::filesystem::path& fileName, const NifLoadOptions& options = NifLoadOptions());
	int Load(std::istream& file, const NifLoadOptions& options = NifLoadOptions());
	int Save(const std::filesystem::path& fileName, const NifSaveOptions& options = NifSaveOptions());
	int Save(std::ostream& file, const NifSaveOptions& options = NifSaveOptions());

	// Update geometry bounds and delete unreferenced blocks
	void Optimize();

	// Optimizes/converts the file using OptOptions and returns OptResult.
	// For use with LE and SE files only.
	OptResult OptimizeFor(OptOptions& options);

	// Fills string refs, links NiGeometryData pointers, cleans up texture paths and removes invalid triangles.
	// For skinned BSTriShape blocks, copies mesh data from skin partitions to shape.
	// Already automatically called by NifFile::Load.
	void PrepareData();

	// Calculates data sizes required for saving.
	// For skinned BSTriShape blocks, copies mesh data back from shape to skin partitions
	// Already automatically called by NifFile::Save.
	void FinalizeData();

	// Indicates that the file was fully loaded or otherwise initialized
	bool IsValid() const { return isValid; }

	// Indicates if there have been any unknown block types during load
	bool HasUnknown() const { return hasUnknown; }

	// Indicates if the file was loaded as terrain
	bool IsTerrain() const { return isTerrain; }

	// Check if all shapes are compatible with SSE (no strips in geometry or skin partition)
	bool IsSSECompatible() const;

	// Check if the shape is compatible with SSE (no strips in geometry or skin partition)
	bool IsSSECompatible(NiShape* shape) const;

	// Creates a new file with a root NiNode using the specified version.
	void Create(const NiVersion& version);

	// Deletes all blocks, header strings and resets the valid status.
	void Clear();

	// Link NiGeometryData pointer to NiGeometry.
	// Doesn't affect BSTriShape blocks.
	void LinkGeomData();

	// Removes triangles with vertex indices that don't exist
	void RemoveInvalidTris() const;

	// Returns vertex limit depending on the file version
	// All versions: 65535 (uint16_t)
	static size_t GetVertexLimit();

	// Returns triangle limit depending on the file version
	// All versions before FO4: 65535      (uint16_t)
	// FO4 and later:           4294967295 (uint32_t)
	size_t GetTriangleLimit() const;

	NiNode* AddNode(const std::string& nodeName, const MatTransform& xformToParent, NiNode* parent = nullptr);
	void DeleteNode(const std::string& nodeName);
	static bool CanDeleteNode(NiNode* node);
	bool CanDeleteNode(const std::string& nodeName) const;
	std::string GetNodeName(const uint32_t blockID) const;
	void SetNodeName(const uint32_t blockID, const std::string& newName);

	uint32_t AssignExtraData(NiAVObject* target, std::unique_ptr<NiExtraData> extraData);

	// Explicitly sets the order of shapes to a new one.
	void SetShapeOrder(const std::vector<std::string>& order);

	struct SortState {
		std::set<uint32_t> visitedIndices;
		std::set<uint32_t> collisionIndicesInProgress; // Collision blocks currently being sorted (guards against cyclic references)
		std::vector<uint32_t> newIndices;
		uint32_t newIndex = 0;
		std::vector<uint32_t> rootShapeOrder;
	};

	void SetSortIndices(const NiRef& ref, SortState& sortState);
	void SetSortIndices(const NiRef* ref, SortState& sortState);
	void SetSortIndices(uint32_t refIndex, SortState& sortState);

	// Sorts NiObjectNET children
	void SortNiObjectNET(NiObjectNET* objnet, SortState& sortState);

	// Sorts NiAVObject children
	void SortAVObject(NiAVObject* avobj, SortState& sortState);

	// Sorts NiTimeController children
	void SortController(NiTimeController* controller, SortState& sortState);

	// Sorts NiCollisionObject children
	void SortCollision(NiObject* parent, uint32_t parentIndex, SortState& sortState);

	// Sorts NiShape children
	void SortShape(NiShape* shape, SortState& sortState);

	// Sorts a scene graph (starting at NiNode parent)
	void SortGraph(NiNode* root, SortState& sortState);

	// Sorts all blocks in a logical order.
	// Order is based on child references, block types and version.
	void PrettySortBlocks();

	// Fixes the flag values in "BSXFlags" blocks based on file contents.
	void FixBSXFlags();

	// Fixes the flag values in shader blocks based on file contents.
	void FixShaderFlags();

	// Deletes all unreferenced (loose) blocks of the given type.
	// Use default template type "NiObject" for all block types.
	// Does nothing when there are unknown block types to prevent data loss.
	// Returns the amount of deleted blocks (or 0).
	template<class T = NiObject>
	uint32_t DeleteUnreferencedBlocks() {
		if (hasUnknown)
			return 0;

		uint32_t deletionCount = 0;
		hdr.DeleteUnreferencedBlocks<T>(GetBlockID(GetRootNode()), &deletionCount);
		return deletionCount;
	}

	// Deletes all unreferenced (loose) NiNode blocks.
	// Does nothing when there are unknown block types to prevent data loss.
	// Counts the amount of deleted blocks in "deletionCount" if passed.
	bool DeleteUnreferencedNodes(int* deletionCount = nullptr);

	// Find a block of the given type by its name.
	// Block type needs a "name" member (like blocks based on NiObjectNET).
	// Returns block in the correct type or nullptr.
	template<class T = NiObject>
	T* FindBlockByName(const std::string& name) const {
		for (auto& block : blocks) {
			auto namedBlock = dynamic_cast<T*>(block.get());
			if (namedBlock && namedBlock->name == name)
				return namedBlock;
		}

		return nullptr;
	}

	// Returns index of a block in the blocks array or NIF_NPOS
	uint32_t GetBlockID(NiObject* block) const;

	// Returns first direct parent NiNode of a block (or nullptr)
	NiNode* GetParentNode(NiObject* block) const;

	// Moves block from its current parent NiNode to a new parent
	void SetParentNode(NiObject* block, NiNode* parent);

	// Returns all NiNode blocks
	std::vector<NiNode*> GetNodes() const;

	// Returns NiShader pointer of the shape (or nullptr).
	// The underlying shader block type can differ.
	NiShader* GetShader(NiShape* shape) const;

	// Returns NiMaterialProperty pointer of the shape (or nullptr).
	// Used by OB/FO3/NV.
	NiMaterialProperty* GetMaterialProperty(NiShape* shape) const;

	// Returns NiStencilProperty pointer of the shape (or nullptr)
	// Used by OB/FO3/NV.
	NiStencilProperty* GetStencilProperty(NiShape* shape) const;

	// Returns NiTexturingProperty pointer of the shape (or nullptr)
	// Used by OB.
	NiTexturingProperty* GetTexturingProperty(NiShape* shape) const;

	// Returns a mutable gometry data structure for manipulating geometry data. If
	// geometry data cannot be found, nullptr is returned
	NiGeometryData* GetGeometryData(NiShape* shape) const;

	// Returns a list of mesh names useful for locating external mesh data eg data/geometry/<meshname>
	std::vector<std::reference_wrapper<std::string>> GetExternalGeometryPathRefs(NiShape* shape) const;

	// Loads external shape data from the provided istream, storing data in the provided shape
	bool LoadExternalShapeData(NiShape* shape, std::istream& stream, uint8_t shapeIndex);
	// Saves external shape data from the provided shape, storing data in the provided ostream
	bool SaveExternalShapeData(NiShape* shape, std::ostream& outfile, uint8_t shapeIndex);

	// Returns references to all texture path strings of the shape
	std::vector<std::reference_wrapper<std::string>> GetTexturePathRefs(NiShape* shape) const;

	// Fills "outTexFile" with the texture path in the specified slot.
	// Returns:
	// 0 if the texture slot was not found
	// 1 if the texture is found in a BSShaderTextureSet block
	// 2 if the texture is found in a BSEffectShaderProperty block
	// 3 if the texture is found in a NiTexturingProperty block
	uint32_t GetTextureSlot(NiShape* shape, std::string& outTexFile, uint32_t texIndex = 0) const;

	// Sets texture path in the specified slot.
	// Will fill path in both BSShaderTextureSet, BSEffectShaderProperty or NiTexturingProperty blocks.
	void SetTextureSlot(NiShape* shape, std::string& inTexFile, uint32_t texIndex = 0);

	// Normalizes all texture paths in BSShaderTextureSet, BSEffectShaderProperty and NiTexturingProperty blocks
	void TrimTexturePaths();

	// Clones all referenced blocks in the specified block.
	// Source block can be located in a different file (see "srcNif" parameter).
	void CloneChildren(NiObject* block, NifFile* srcNif = nullptr);

	// Clones the specified shape with a destination name and returns it.
	// Source block can be located in a different file (see "srcNif" parameter).
	NiShape* CloneShape(NiShape* srcShape, const std::string& destShapeName, NifFile* srcNif = nullptr);

	// Finds and clones the first NiNode with the specified name and returns its index (or NIF_NPOS).
	// Source block can be located in a different file (see "srcNif" parameter).
	uint32_t CloneNamedNode(const std::string& nodeName, NifFile* srcNif = nullptr);

	// Creates a new unskinned shape for the current file version with vertex/triangle data and returns it.
	// Adds default shader and texture set as well.
	// Parameters for texture coordinates (UVs) and normals are optional (pass nullptr).
	NiShape* CreateShapeFromData(const std::string& shapeName,
								 const std::vector<Vector3>* v,
								 const std::vector<Triangle>* t,
								 const std::vector<Vector2>* uv,
								 const std::vector<Vector3>* norms = nullptr);

	// Returns the names of all shape blocks in the file. Includes duplicates and unnamed shapes.
	std::vector<std::string> GetShapeNames() const;

	// Returns all shape blocks in the file.
	std::vector<NiShape*> GetShapes() const;

	// Renames a shape (same as setting the "name" member)
	static bool RenameShape(NiShape* shape, const std::string& newName);

	// Renames shapes with duplicate names by appending a suffix "_<count>"
	bool RenameDuplicateShapes();

	// Converts the shape from a NiTriStrips to a NiTriShape block
	void TriangulateShape(NiShape* shape);

	// Get direct children of a node of the given block type. Use template type "NiObject" for all block types.
	// Optionally, return extra data references as well.
	template<class T>
	std::vector<T*> GetChildren(NiNode* parent = nullptr, bool searchExtraData = false) const;

	// Returns the root NiNode (block at index 0).
	// If block index 0 is not a NiNode, find the first NiNode instead.
	NiNode* GetRootNode() const;

	// Returns a full block tree in a logical order (recursive function)
	void GetTree(std::vector<NiObject*>& result, NiObject* parent = nullptr) const;

	// Gets the transform (to parent) of the node with the specified name.
	// Returns false if no node matching the name was found.
	bool GetNodeTransformToParent(const std::string& nodeName, MatTransform& outTransform) const;

	// GetNodeTransform is deprecated. Use GetNodeTransformToParent instead.
	bool GetNodeTransform(const std::string& nodeName, MatTransform& outTransform) const {
		return GetNodeTransformToParent(nodeName, outTransform);
	}

	// Calculates the transform from the node's coordinate system to the global coordinate system
	// by composing transforms up the node tree to the root node.
	bool GetNodeTransformToGlobal(const std::string& nodeName, MatTransform& outTransform) const;

	// GetAbsoluteNodeTransform is deprecated. Use GetNodeTransformToGlobal instead.
	bool GetAbsoluteNodeTransform(const std::string& nodeName, MatTransform& outTransform) const {
		return GetNodeTransformToGlobal(nodeName, outTransform);
	}

	// Sets the transform (to parent) of the node with the specified name.
	// With "rootChildrenOnly" enabled, only set the transform of nodes that are direct root children.
	bool SetNodeTransformToParent(const std::string& nodeName,
								  const MatTransform& inTransform,
								  const bool rootChildrenOnly = false);

	// SetNodeTransform is deprecated. Use SetNodeTransformToParent instead.
	bool SetNodeTransform(const std::string& nodeName,
						  MatTransform& inTransform,
						  const bool rootChildrenOnly = false) {
		return SetNodeTransformToParent(nodeName, inTransform, rootChildrenOnly);
	}

	// Gets a list of all bone (node) names used by the shape and returns the count.
	uint32_t GetShapeBoneList(NiShape* shape, std::vector<std::string>& outList) const;

	// Gets a list of all bone (node) block indices used by the shape and returns the count.
	uint32_t GetShapeBoneIDList(NiShape* shape, std::vector<int>& outList) const;

	// Sets the bone index list of the shape's skin instance (and BSSkin::BoneData).
	// Resets bone transforms in BSSkin::BoneData if the bone count changed.
	void SetShapeBoneIDList(NiShape* shape, std::vector<int>& inList);

	// Gets a map of vertex indices to bone weights for the specified shape and bone.
	// Data source is either BSTriShape (if existing) or otherwise NiSkinData.
	// Returns the amount of vertices with non-zero weights.
	uint32_t GetShapeBoneWeights(NiShape* shape,
								 const uint32_t boneIndex,
								 std::unordered_map<uint16_t, float>& outWeights) const;

	// Gets the shape's global-to-skin transform if it has one stored (same as GetShapeTransformGlobalToSkin).
	// Otherwise, try to calculate it using skin-to-bone and node-to-global transforms of existing bones.
	// Returns false if no transform was found or calculated.
	bool CalcShapeTransformGlobalToSkin(NiShape* shape, MatTransform& outTransforms) const;

	// Gets the shape's global-to-skin transform if it has one stored.
	// Returns false if no such transform exists in the file, in which case outTransform will not be changed.
	// Note that, even if this function returns false, you can not assume that the global-to-skin
	// transform is the identity; it almost never is.
	bool GetShapeTransformGlobalToSkin(NiShape* shape, MatTransform& outTransform) const;

	// Sets the shape's global-to-skin transform if it has one stored.
	// Does nothing if the shape has no such transform.
	void SetShapeTransformGlobalToSkin(NiShape* shape, const MatTransform& inTransform);

	// Gets the bone transform (skin-to-bone) of a bone with the specified name.
	// Returns false if bone was not found.
	bool GetShapeTransformSkinToBone(NiShape* shape,
									 const std::string& boneName,
									 MatTransform& outTransform) const;

	// Gets the bone transform (skin-to-bone) of a bone with the specified bone index.
	// Returns false if bone was not found.
	bool GetShapeTransformSkinToBone(NiShape* shape,
									 const uint32_t boneIndex,
									 MatTransform& outTransform) const;

	// Sets the bone transform (skin-to-bone) of a bone with the specified bone index.
	void SetShapeTransformSkinToBone(NiShape* shape,
									 const uint32_t boneIndex,
									 const MatTransform& inTransform);

	// GetShapeBoneTransform is deprecated. Use GetShapeTransformGlobalToSkin or GetShapeTransformSkinToBone instead.
	// Empty string for "boneName" returns the overall skin transform for the shape.
	bool GetShapeBoneTransform(NiShape* shape, const std::string& boneName, MatTransform& outTransform) const;

	// GetShapeBoneTransform is deprecated. Use GetShapeTransformGlobalToSkin or GetShapeTransformSkinToBone instead.
	// 0xFFFFFFFF on the bone index returns the overall skin transform for the shape.
	bool GetShapeBoneTransform(NiShape* shape, const uint32_t boneIndex, MatTransform& outTransform) const;

	// SetShapeBoneTransform is deprecated. Use SetShapeTransformGlobalToSkin or SetShapeTransfromSkinToBone instead.
	// 0xFFFFFFFF for the bone index sets the overall skin transform for the shape.
	bool SetShapeBoneTransform(NiShape* shape, const uint32_t boneIndex, MatTransform& inTransform);

	// Sets bounding sphere for the specified bone index on the shape with the name.
	// Returns false if shape or bone was not found.
	bool SetShapeBoneBounds(const std::string& shapeName, const uint32_t boneIndex, BoundingSphere& inBounds);

	// Gets bounding sphere for the specified bone index on the shape.
	// Returns false if shape or bone was not found.
	bool GetShapeBoneBounds(NiShape* shape, const uint32_t boneIndex, BoundingSphere& outBounds) const;

	// Changes a bone index (node reference) from an old to a new index.
	void UpdateShapeBoneID(const std::string& shapeName, const uint32_t oldID, const uint32_t newID);

	// Sets the bone weights on NiSkinData from the specified vertex weight map.
	// Not implemented for BSTriShape, use SetShapeVertWeights instead.
	void SetShapeBoneWeights(const std::string& shapeName,
							 const uint32_t boneIndex,
							 std::unordered_map<uint16_t, float>& inWeights);

	// Sets the bone weights and bone indices for a single vertex on the shape
	// Not implemented for NiTriShape, use SetShapeBoneWeights instead.
	void SetShapeVertWeights(const std::string& shapeName,
							 const uint16_t vertIndex,
							 std::vector<uint8_t>& boneids,
							 std::vector<float>& weights) const;

	// Clears all bone weights and bone indices on the shape. Not implemented for NiTriShape.
	void ClearShapeVertWeights(const std::string& shapeName) const;

	// Gets the segmentation info and a list of the segments each triangle is assigned to.
	// A triangle can only be assigned to one segment at the same time.
	// A segment index of -1 in the list means the triangle is currently not assigned to any segment.
	static bool GetShapeSegments(NiShape* shape, NifSegmentationInfo& inf, std::vector<int>& triParts);

	// Sets the segmentation info and a list of the segments each triangle is assigned to.
	// A triangle can only be assigned to one segment at the same time.
	static void SetShapeSegments(NiShape* shape,
								 const NifSegmentationInfo& inf,
								 const std::vector<int>& triParts);

	// Gets the partition info and a list of the partitions each triangle is assigned to.
	// A triangle can only be assigned to one partition at the same time.
	// A partition index of -1 in the list means the triangle is currently not assigned to any partition.
	bool GetShapePartitions(NiShape* shape,
							NiVector<BSDismemberSkinInstance::PartitionInfo>& partitionInfo,
							std::vector<int>& triParts) const;

	// Sets the partition info and a list of the partitions each triangle is assigned to.
	// A triangle can only be assigned to one partition at the same time.
	// "convertSkinInstance" will convert a NiSkinInstance to a BSDismemberSkinInstance block.
	void SetShapePartitions(NiShape* shape,
							const NiVector<BSDismemberSkinInstance::PartitionInfo>& partitionInfo,
							const std::vector<int>& triParts,
							const bool convertSkinInstance = true);

	// Clears all partitions and assigns all triangles to a default partition slot.
	// Default slot 32 for Skyrim (body) and slot 0 for FO3/NV (torso).
	void SetDefaultPartition(NiShape* shape);

	// Delete partitions with the specified indices. partInds must be in sorted ascending order before calling!
	void DeletePartitions(NiShape* shape, std::vector<uint32_t>& partInds);

	// Reorder triangles of the shape to the order of triangle indices in the list
	static bool ReorderTriangles(NiShape* shape, const std::vector<uint32_t>& triangleIndices);

	// Gets pointer to vertex positions of the shape (can be nullptr or empty)
	const std::vector<Vector3>* GetVertsForShape(NiShape* shape);
	// Gets pointer to vertex normals of the shape (can be nullptr or empty)
	const std::vector<Vector3>* GetNormalsForShape(NiShape* shape);
	// Gets pointer to vertex texture coordinates (UVs) of the shape (can be nullptr or empty)
	const std::vector<Vector2>* GetUvsForShape(NiShape* shape);
	// Gets pointer to vertex colors of the shape (can be nullptr or empty)
	const std::vector<Color4>* GetColorsForShape(const std::string& shapeName);
	const std::vector<Color4>* GetColorsForShape(NiShape* shape);
	// Gets pointer to vertex tangents of the shape (can be nullptr or empty)
	const std::vector<Vector3>* GetTangentsForShape(NiShape* shape);
	// Gets pointer to vertex bitangents of the shape (can be nullptr or empty)
	const std::vector<Vector3>* GetBitangentsForShape(NiShape* shape);
	// Gets pointer to vertex eye data of the shape (can be nullptr or empty)
	const std::vector<float>* GetEyeDataForShape(NiShape* shape);

	// Gets copy of vertex positions of the shape. Returns false if none are found.
	bool GetVertsForShape(NiShape* shape, std::vector<Vector3>& outVerts) const;
	// Gets copy of vertex texture coordinates (UVs) of the shape. Returns false if none are found.
	bool GetUvsForShape(NiShape* shape, std::vector<Vector2>& outUvs) const;
	// Gets copy of vertex colors of the shape. Returns false if none are found.
	bool GetColorsForShape(NiShape* shape, std::vector<Color4>& outColors) const;
	// Gets copy of vertex tangents of the shape. Returns false if none are found.
	bool GetTangentsForShape(NiShape* shape, std::vector<Vector3>& outTang) const;
	// Gets copy of vertex bitangents of the shape. Returns false if none are found.
	bool GetBitangentsForShape(NiShape* shape, std::vector<Vector3>& outBitang) const;
	// Gets copy of vertex eye data of the shape. Returns false if none is found.
	static bool GetEyeDataForShape(NiShape* shape, std::vector<float>& outEyeData);

	// Sets vertex positions of the shape. Use this function to change vertex count.
	// If vertex count is changed, other vertex data (UVs, normals, ...) is dropped.
	void SetVertsForShape(NiShape* shape, const std::vector<Vector3>& verts);
	// Sets vertex texture coordinates (UVs) of the shape. Size needs to match the current vertex count.
	void SetUvsForShape(NiShape* shape, const std::vector<Vector2>& uvs);
	// Sets vertex colors of the shape. Size needs to match the current vertex count.
	void SetColorsForShape(NiShape* shape, const std::vector<Color4>& colors);
	// Sets vertex colors of the shape. Size needs to match the current vertex count.
	void SetColorsForShape(const std::string& shapeName, const std::vector<Color4>& colors);
	// Sets vertex tangents of the shape. Size needs to match the current vertex count.
	void SetTangentsForShape(NiShape* shape, const std::vector<Vector3>& tangents);
	// Sets vertex bitangents of the shape. Size needs to match the current vertex count.
	void SetBitangentsForShape(NiShape* shape, const std::vector<Vector3>& bitangents);
	// Sets vertex eye data of the shape. Size needs to match the current vertex count.
	static void SetEyeDataForShape(NiShape* shape, const std::vector<float>& eyeData);

	// Gets binary extra data that contains tangent and bitangent data (used in OB).
	// Returns nullptr if no matching extra data was found.
	NiBinaryExtraData* GetBinaryTangentData(NiShape* shape,
											std::vector<nifly::Vector3>* outTangents = nullptr,
											std::vector<nifly::Vector3>* outBitangents = nullptr) const;

	// Sets binary extra data that contains tangent and bitangent data (used in OB).
	void SetBinaryTangentData(NiShape* shape,
							  const std::vector<nifly::Vector3>* tangents,
							  const std::vector<nifly::Vector3>* bitangents);

	// Deletes binary extra data that contains tangent and bitangent data (used in OB).
	void DeleteBinaryTangentData(NiShape* shape);

	// Inverts all texture coordinates on the U- and/or V-axis
	void InvertUVsForShape(NiShape* shape, bool invertX, bool invertY);

	// Mirrors the shape on the X-, Y- and/or Z-axis.
	// Updates normals and tangents as well. Flips triangles if needed.
	void MirrorShape(NiShape* shape, bool mirrorX, bool mirrorY, bool mirrorZ);

	// Sets vertex normals of the shape. Size needs to match the current vertex count.
	void SetNormalsForShape(NiShape* shape, const std::vector<Vector3>& norms);

	// Recalculates (or adds) new normals for the shape.
	// "smooth" and "smoothThresh" affect normals smoothing on virtually welded mesh/UV seams.
	// "force" creates normals for Skyrim model space mapped meshes, which are usually not required.
	void CalcNormalsForShape(NiShape* shape,
							 const bool force = false,
							 const bool smooth = true,
							 const float smoothThresh = 60.0f);

	// Recalculates (or adds) new tangents and bitangents for the shape.
	// Requires normals and UVs to be set beforehand.
	void CalcTangentsForShape(NiShape* shape);

	// Apply normals from a different file to a shape with the same name and vertex count.
	int ApplyNormalsFromFile(NifFile& srcNif, const std::string& shapeName);

	// Gets the translation of the root node (or zero vector)
	void GetRootTranslation(Vector3& outVec) const;

	// Moves a single vertex to the specified position
	void MoveVertex(NiShape* shape, const Vector3& pos, const int id);

	// Moves the entire shape by the specified offset. Respects the specified masking map.
	void OffsetShape(NiShape* shape,
					 const Vector3& offset,
					 std::unordered_map<uint16_t, float>* mask = nullptr);

	// Scales the entire shape from the scene root by the specified factors. Respects the specified masking map.
	void ScaleShape(NiShape* shape, const Vector3& scale, std::unordered_map<uint16_t, float>* mask = nullptr);

	// Rotates the entire shape from the scene root by the specified angles in degrees. Respects the specified masking map.
	void RotateShape(NiShape* shape,
					 const Vector3& angle,
					 std::unordered_map<uint16_t, float>* mask = nullptr);

	// Returns alpha property of the shape (or nullptr)
	NiAlphaProperty* GetAlphaProperty(NiShape* shape) const;

	// Assigns a new alpha property block to the shape/shader.
	// Removes any existing ones. Pointer is moved to the file.
	uint32_t AssignAlphaProperty(NiShape* shape, std::unique_ptr<NiAlphaProperty> alphaProp);

	// Removes any existing alpha properties for the shape/shader.
	void RemoveAlphaProperty(NiShape* shape);

	// Deletes a shape and its child blocks
	void DeleteShape(NiShape* shape);

	// Deletes the shader of a shape and its child blocks
	void DeleteShader(NiShape* shape);

	// Deletes all skinning blocks of a shape and disables skinning
	void DeleteSkinning(NiShape* shape);

	// Removes any partitions without triangles assigned
	void RemoveEmptyPartitions(NiShape* shape);

	// Deletes the specified vertex indices from the shape and notifies all blocks.
	// Skinning and partitions/segments are corrected accordingly.
	bool DeleteVertsForShape(NiShape* shape, const std::vector<uint16_t>& indices);

	// Calculates the difference between the shape's vertex positions and the specified target data (with a scale).
	// Vertices that match up are not returned in the diff data map.
	int CalcShapeDiff(NiShape* shape,
					  const std::vector<Vector3>* targetData,
					  std::unordered_map<uint16_t, Vector3>& outDiffData,
					  float scale = 1.0f);

	// Calculates the difference between the shape's texture coordinates and the specified target data (with a scale).
	// Texture coordinates that match up are not returned in the diff data map.
	int CalcUVDiff(NiShape* shape,
				   const std::vector<Vector2>* targetData,
				   std::unordered_map<uint16_t, Vector3>& outDiffData,
				   float scale = 1.0f);

	// Create all blocks and flags required for skinning, if they don't already exist
	// Blocks: BSDismemberSkinInstance, NiSkinData, NiSkinPartition, BSSkin::Instance, BSSkin::BoneData
	void CreateSkinning(NiShape* shape);

	// Makes NiTriShapeData dynamic by setting the consistency flag to mutable.
	void SetShapeDynamic(const std::string& shapeName);

	// Maintains the number of and makeup of skin partitions where possible,
	// but updates the weighting values and vertex/triangle maps.
	// If required by limits, inserts additional partitions with matching slots.
	void UpdateSkinPartitions(NiShape* shape);

	// Update bone set partition flags. Called automatically in some functions that edit partitions.
	void UpdatePartitionFlags(NiShape* shape);
};

template<class T>
std::vector<T*> NifFile::GetChildren(NiNode* parent, bool searchExtraData) const {
	std::vector<T*> result;
	T* n;

	if (parent == nullptr) {
		parent = GetRootNode();
		if (parent == nullptr)
			return result;
	}

	for (auto& child : parent->childRefs) {
		n = hdr.GetBlock<T>(child);
		if (n)
			result.push_back(n);
	}

	if (searchExtraData) {
		for (auto& extraData : parent->extraDataRefs) {
			n = hdr.GetBlock<T>(extraData);
			if (n)
				result.push_back(n);
		}
	}

	return result;
}
} // namespace nifly
